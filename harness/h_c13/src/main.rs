//! C13 — Processor streams deliver every output exactly once and in order.
//!
//! Runs the real `ProcessorStream` / `Buffer` / `ComposedProcessors` / `PipelineBuilder` of p2panda-stream
//! over scripted test processors (per-item `process` / `next` delays, per-item arrival gaps) on a paused
//! current-thread tokio runtime (virtual time, deterministic apart from `select!`'s random tie-break).
//! Every processor and every stream boundary logs what happened, in order; the model driver replays that
//! event trace through the transition systems of `P2/Model/ProcStream.lean` and predicts the yielded
//! sequence.
//!
//! Request: `cur <kind> <n> s=<0 iter|1 channel> a=<gaps> p1=.. n1=.. [p2=.. n2=.. [p3=.. n3=..]] | <event>*`
//!   kind: `single` | `bag` (LIFO processor) | `hold` (item x is withheld until x+1 was processed)
//!       | `chain2` | `chain3` (separate `.layer()`s)
//!       | `comp2` | `comp3` (`PipelineBuilder::new().layer(..).layer(..)[.layer(..)].build()` in one layer)
//!   events `<L><code>`: L = layer (chains) or 1 (composed); codes:
//!     `u<x>` item x pulled from the input stream   `r<x>` process(x) entered   `d<x>` process(x) done
//!     `c<x>` process(x) future dropped (hand-over cancelled)   `o<s>:<x>@<i>` stage s `next()` returned x,
//!     taken at index i of its queue   `i<s>:<x>` stage s>1 `process(x)` entered   `f<s>:<x>` … done
//!     `y<x>` x yielded by the layer's stream
//! Answer: the items yielded by the last stream, in order.
use futures::StreamExt;
use hc::{Args, Out, Rng, Tier};
use p2panda_stream::{PipelineBuilder, Processor, StreamLayerExt};
use std::cell::RefCell;
use std::collections::VecDeque;
use std::rc::Rc;
use std::time::Duration;
use tokio::sync::Notify;

type Log = Rc<RefCell<Vec<String>>>;

#[derive(Clone, Debug)]
struct Script {
    kind: String,
    n: usize,
    gaps: Vec<u64>,
    /// input source: false = `stream::iter(..).then(sleep gap)`, true = unbounded channel fed by a task
    /// (items with gap 0 are queued in the channel before the stream is polled again)
    chan: bool,
    pd: Vec<Vec<u64>>, // per stage, per item
    nd: Vec<Vec<u64>>,
}

struct TestProc {
    layer: usize,
    stage: usize,
    lifo: bool,
    /// withhold item x until item x+1 has been processed (the last item is released at once) — like an
    /// orderer waiting for a dependency: an input may produce no output for a while
    hold_until_next: Option<usize>,
    held: RefCell<Vec<u32>>,
    pd: Vec<u64>,
    nd: Vec<u64>,
    queue: RefCell<VecDeque<u32>>,
    notify: Notify,
    log: Log,
}

struct Guard {
    log: Log,
    msg: Option<String>,
}
impl Drop for Guard {
    fn drop(&mut self) {
        if let Some(m) = self.msg.take() {
            self.log.borrow_mut().push(m);
        }
    }
}

impl Processor<u32> for TestProc {
    type Output = u32;
    type Error = ();

    async fn process(&self, x: u32) -> Result<(), ()> {
        let (l, s) = (self.layer, self.stage);
        let enter = if s == 1 { format!("{l}r{x}") } else { format!("{l}i{s}:{x}") };
        self.log.borrow_mut().push(enter);
        let mut g = Guard { log: self.log.clone(), msg: Some(if s == 1 { format!("{l}c1:{x}") } else { format!("{l}c{s}:{x}") }) };
        let d = self.pd[x as usize];
        if d > 0 {
            tokio::time::sleep(Duration::from_millis(d)).await;
        }
        match self.hold_until_next {
            None => self.queue.borrow_mut().push_back(x),
            Some(n) => {
                let mut held = self.held.borrow_mut();
                let mut q = self.queue.borrow_mut();
                for y in held.drain(..) {
                    q.push_back(y);
                }
                if x as usize + 1 == n {
                    q.push_back(x);
                } else {
                    held.push(x);
                }
            }
        }
        self.notify.notify_one();
        g.msg = None;
        self.log.borrow_mut().push(if s == 1 { format!("{l}d{x}") } else { format!("{l}f{s}:{x}") });
        Ok(())
    }

    /// Cancel-safe: the item leaves the queue in the same poll in which it is returned.
    async fn next(&self) -> Result<u32, ()> {
        loop {
            let candidate = {
                let q = self.queue.borrow();
                if self.lifo { q.back().copied() } else { q.front().copied() }
            };
            if let Some(x) = candidate {
                let d = self.nd[x as usize];
                if d > 0 {
                    tokio::time::sleep(Duration::from_millis(d)).await;
                }
                let mut q = self.queue.borrow_mut();
                // the queue may have grown while sleeping (process runs only when this future is dropped,
                // so it cannot: Buffer never runs both) — take the same item by position
                let idx = q.iter().position(|y| *y == x).expect("item still queued");
                q.remove(idx);
                self.log.borrow_mut().push(format!("{}o{}:{}@{}", self.layer, self.stage, x, idx));
                return Ok(x);
            }
            self.notify.notified().await;
        }
    }
}

fn proc_for(sc: &Script, layer: usize, stage: usize, lifo: bool, log: &Log) -> TestProc {
    TestProc {
        layer,
        stage,
        lifo,
        hold_until_next: if sc.kind == "hold" { Some(sc.n) } else { None },
        held: RefCell::new(vec![]),
        pd: sc.pd[stage - 1 + if sc.kind.starts_with("chain") { layer - 1 } else { 0 }].clone(),
        nd: sc.nd[stage - 1 + if sc.kind.starts_with("chain") { layer - 1 } else { 0 }].clone(),
        queue: RefCell::new(VecDeque::new()),
        notify: Notify::new(),
        log: log.clone(),
    }
}

async fn run_script(sc: &Script) -> (Vec<u32>, Vec<String>) {
    let log: Log = Rc::default();
    let items: Vec<(u32, u64)> = (0..sc.n as u32).map(|i| (i, sc.gaps[i as usize])).collect();
    let l0 = log.clone();
    let input: std::pin::Pin<Box<dyn futures::Stream<Item = u32>>> = if sc.chan {
        let (tx, rx) = futures::channel::mpsc::unbounded::<u32>();
        // everything that is due at t = 0 is in the channel before the stream is polled for the first time
        let mut rest = vec![];
        let mut leading = true;
        for (x, gap) in items {
            if leading && gap == 0 {
                let _ = tx.unbounded_send(x);
            } else {
                leading = false;
                rest.push((x, gap));
            }
        }
        tokio::task::spawn_local(async move {
            for (x, gap) in rest {
                if gap > 0 {
                    tokio::time::sleep(Duration::from_millis(gap)).await;
                }
                let _ = tx.unbounded_send(x);
            }
            // keep the sender alive: processors never terminate
            tokio::time::sleep(Duration::from_millis(10_000_000)).await;
            drop(tx);
        });
        Box::pin(rx.inspect(move |x| l0.borrow_mut().push(format!("1u{x}"))))
    } else {
        Box::pin(
            futures::stream::iter(items)
                .then(|(x, gap)| async move {
                    if gap > 0 {
                        tokio::time::sleep(Duration::from_millis(gap)).await;
                    }
                    x
                })
                .inspect(move |x| l0.borrow_mut().push(format!("1u{x}"))),
        )
    };
    let mut out: Vec<u32> = vec![];
    // one `collect` for every shape (the stream types differ)
    macro_rules! collect {
        ($stream:expr, $layer:expr) => {{
            let mut s = Box::pin($stream);
            loop {
                match tokio::time::timeout(Duration::from_millis(100_000), s.next()).await {
                    Ok(Some(Ok(x))) => {
                        log.borrow_mut().push(format!("{}y{}", $layer, x));
                        out.push(x);
                    }
                    Ok(Some(Err(()))) => out.push(9999),
                    Ok(None) | Err(_) => break, // nothing can happen any more (virtual time ran out)
                }
            }
        }};
    }
    match sc.kind.as_str() {
        "single" => collect!(input.layer(proc_for(sc, 1, 1, false, &log)), 1),
        "bag" => collect!(input.layer(proc_for(sc, 1, 1, true, &log)), 1),
        "hold" => collect!(input.layer(proc_for(sc, 1, 1, false, &log)), 1),
        "chain2" => {
            let l1 = log.clone();
            let s1 = input.layer(proc_for(sc, 1, 1, false, &log)).map(move |r| {
                let x = r.unwrap();
                l1.borrow_mut().push(format!("1y{x}"));
                l1.borrow_mut().push(format!("2u{x}"));
                x
            });
            collect!(s1.layer(proc_for(sc, 2, 1, false, &log)), 2)
        }
        "chain3" => {
            let l1 = log.clone();
            let l2 = log.clone();
            let s1 = input.layer(proc_for(sc, 1, 1, false, &log)).map(move |r| {
                let x = r.unwrap();
                l1.borrow_mut().push(format!("1y{x}"));
                l1.borrow_mut().push(format!("2u{x}"));
                x
            });
            let s2 = s1.layer(proc_for(sc, 2, 1, false, &log)).map(move |r| {
                let x = r.unwrap();
                l2.borrow_mut().push(format!("2y{x}"));
                l2.borrow_mut().push(format!("3u{x}"));
                x
            });
            collect!(s2.layer(proc_for(sc, 3, 1, false, &log)), 3)
        }
        "comp2" => {
            let p = PipelineBuilder::new().layer(proc_for(sc, 1, 1, false, &log)).layer(proc_for(sc, 1, 2, false, &log)).build();
            let mut s = Box::pin(input.layer(p));
            loop {
                match tokio::time::timeout(Duration::from_millis(100_000), s.next()).await {
                    Ok(Some(Ok(x))) => {
                        log.borrow_mut().push(format!("1y{x}"));
                        out.push(x);
                    }
                    Ok(Some(Err(_))) => out.push(9999),
                    Ok(None) | Err(_) => break,
                }
            }
        }
        "comp3" => {
            let p = PipelineBuilder::new()
                .layer(proc_for(sc, 1, 1, false, &log))
                .layer(proc_for(sc, 1, 2, false, &log))
                .layer(proc_for(sc, 1, 3, false, &log))
                .build();
            let mut s = Box::pin(input.layer(p));
            loop {
                match tokio::time::timeout(Duration::from_millis(100_000), s.next()).await {
                    Ok(Some(Ok(x))) => {
                        log.borrow_mut().push(format!("1y{x}"));
                        out.push(x);
                    }
                    Ok(Some(Err(_))) => out.push(9999),
                    Ok(None) | Err(_) => break,
                }
            }
        }
        k => panic!("kind {k}"),
    }
    let events = log.borrow().clone();
    (out, events)
}

fn fmt_list(v: &[u64]) -> String {
    v.iter().map(|x| x.to_string()).collect::<Vec<_>>().join(",")
}

fn script_tokens(sc: &Script) -> String {
    let mut s = format!("cur {} {} s={} a={}", sc.kind, sc.n, if sc.chan { 1 } else { 0 }, fmt_list(&sc.gaps));
    for (i, (p, n)) in sc.pd.iter().zip(&sc.nd).enumerate() {
        s.push_str(&format!(" p{}={} n{}={}", i + 1, fmt_list(p), i + 1, fmt_list(n)));
    }
    s
}

fn parse_script(req: &str) -> Script {
    let head = req.split('|').next().unwrap();
    let mut it = head.split_whitespace().skip(1);
    let kind = it.next().unwrap().to_string();
    let n: usize = it.next().unwrap().parse().unwrap();
    let parse = |s: &str| -> Vec<u64> { if s.is_empty() { vec![] } else { s.split(',').map(|x| x.parse().unwrap()).collect() } };
    let mut gaps = vec![];
    let mut chan = false;
    let mut pd = vec![];
    let mut nd = vec![];
    for t in it {
        let (k, v) = t.split_once('=').unwrap();
        if k == "a" {
            gaps = parse(v);
        } else if k == "s" {
            chan = v == "1";
        } else if k.starts_with('p') {
            pd.push(parse(v));
        } else {
            nd.push(parse(v));
        }
    }
    Script { kind, n, gaps, chan, pd, nd }
}

fn stages_of(kind: &str) -> usize {
    match kind {
        "single" | "bag" | "hold" => 1,
        "chain2" | "comp2" => 2,
        _ => 3,
    }
}

fn emit(rt: &tokio::runtime::Runtime, out: &mut Out, sc: &Script, tagk: &str) {
    let local = tokio::task::LocalSet::new();
    let (got, events) = local.block_on(rt, run_script(sc));
    let req = format!("{} | {}", script_tokens(sc), events.join(" "));
    let ans = got.iter().map(|x| x.to_string()).collect::<Vec<_>>().join(",");
    // hand-overs cancelled: `c<s>:<x>` events of stages > 1 (stage 1 = Buffer's own process call, never dropped)
    let lost: Vec<u32> = events
        .iter()
        .filter_map(|e| {
            let e = &e[1..];
            e.strip_prefix('c').and_then(|r| r.split_once(':')).map(|(_, x)| x.parse::<u32>().unwrap())
        })
        .collect();
    let nt = !lost.is_empty() || events.iter().any(|e| e[1..].starts_with('c'));
    let c = out.case(&req, &ans, nt);
    out.count(&format!("kind={}", sc.kind));
    out.count(&format!("tag={tagk}"));
    out.count(&format!("items={}", match sc.n { 0..=3 => "0-3", 4..=10 => "4-10", 11..=16 => "11-16", 17..=32 => "17-32", 33..=48 => "33-48", _ => ">48" }));
    out.count(if sc.chan { "source=channel" } else { "source=iter" });
    // longest run of inputs that became ready together (consecutive pulls without any other event)
    let mut run = 0usize;
    let mut longest = 0usize;
    for e in &events {
        if e.starts_with("1u") {
            run += 1;
            longest = longest.max(run);
        } else {
            run = 0;
        }
    }
    out.count(&format!("longest-input-burst={}", match longest { 0..=1 => "1", 2..=8 => "2-8", 9..=16 => "9-16", 17..=32 => "17-32", _ => ">32" }));
    out.count_n("handovers-cancelled", lost.len() as u64);
    out.count_n("events", events.len() as u64);
    // Oracle: every input yielded exactly once; in input order for the FIFO kinds.
    let n = sc.n as u32;
    let mut fail: Option<(String, String)> = None;
    for x in 0..n {
        let cnt = got.iter().filter(|y| **y == x).count();
        if cnt == 0 && fail.is_none() {
            let composed = sc.kind.starts_with("comp");
            let tag = if composed && lost.contains(&x) {
                "composed-next-cancelled-while-handing-over"
            } else {
                "output-lost"
            };
            fail = Some((tag.into(), format!("item {x} was fed to the {} stream but never yielded (yielded {got:?}; hand-overs cancelled: {lost:?})", sc.kind)));
        }
        if cnt > 1 && fail.is_none() {
            fail = Some(("output-duplicated".into(), format!("item {x} yielded {cnt} times: {got:?}")));
        }
    }
    if fail.is_none() && got.iter().any(|y| *y >= n) {
        fail = Some(("output-unknown".into(), format!("yielded {got:?}")));
    }
    if fail.is_none() && sc.kind != "bag" && !got.windows(2).all(|w| w[0] < w[1]) {
        fail = Some(("output-out-of-order".into(), format!("FIFO processors but yielded {got:?}")));
    }
    // a lost item that is *not* explained by a cancelled hand-over is a different failure
    if let Some((tag, what)) = fail {
        out.oracle_fail(c, &tag, &what, &req, &ans);
    }
}

fn random_script(rng: &mut Rng, kind: &str, n: usize) -> Script {
    let st = stages_of(kind);
    let pick = |rng: &mut Rng, zero_bias: bool| -> u64 {
        if zero_bias && rng.chance(1, 2) { 0 } else { *rng.pick(&[0u64, 1, 2, 5]) }
    };
    // a third of the scripts deliver the inputs in bursts (long runs of gap 0)
    let bursty = rng.chance(1, 3);
    let gaps = (0..n).map(|_| if bursty && rng.chance(9, 10) { 0 } else { pick(rng, false) }).collect();
    let mut pd = vec![];
    let mut nd = vec![];
    for s in 0..st {
        // sometimes a stage that never yields in process (atomic hand-over)
        let atomic = rng.chance(1, 4);
        pd.push((0..n).map(|_| if atomic { 0 } else { pick(rng, s == 0) }).collect());
        nd.push((0..n).map(|_| pick(rng, true)).collect());
    }
    Script { kind: kind.into(), n, gaps, chan: rng.chance(1, 3), pd, nd }
}

fn main() {
    let args = Args::parse();
    let mut out = Out::new(&args.out);
    let rt = tokio::runtime::Builder::new_current_thread().enable_all().start_paused(true).build().unwrap();
    if args.mode == "replay" {
        let text = std::fs::read_to_string(args.replay.as_ref().expect("replay file")).unwrap();
        let v: hc::serde_json::Value = hc::serde_json::from_str(&text).unwrap();
        let sc = parse_script(v["request"].as_str().unwrap());
        // `select!` breaks ties at random: repeat the script a few times
        for _ in 0..8 {
            emit(&rt, &mut out, &sc, "replay");
        }
        out.finish("replay", false);
        return;
    }
    let mut rng = Rng::new(args.seed);
    // Witness of the known finding: item 0 is being handed to a slow second stage when item 1 arrives.
    emit(
        &rt,
        &mut out,
        &Script { kind: "comp2".into(), n: 2, gaps: vec![0, 3], chan: false, pd: vec![vec![0, 0], vec![5, 5]], nd: vec![vec![0, 0], vec![0, 0]] },
        "witness",
    );
    // the same script with an atomic hand-over must lose nothing
    emit(
        &rt,
        &mut out,
        &Script { kind: "comp2".into(), n: 2, gaps: vec![0, 3], chan: false, pd: vec![vec![0, 0], vec![0, 0]], nd: vec![vec![0, 0], vec![5, 5]] },
        "witness-atomic",
    );
    // Bursts: many inputs ready within one poll of the stream (all at t = 0, or arriving together between two
    // polls), from `stream::iter` and from a pre-filled channel, through every shape.
    let burst_sizes: Vec<usize> = match args.tier {
        Tier::Quick => vec![16, 17, 18, 33, 34, 35, 64],
        _ => (15..=70).collect(),
    };
    for &n in &burst_sizes {
        for kind in ["single", "bag", "hold", "chain2", "chain3", "comp2"] {
            for chan in [false, true] {
                // (a) everything ready at once, processors without delays
                let st = stages_of(kind);
                let zero = Script { kind: kind.into(), n, gaps: vec![0; n], chan, pd: vec![vec![0; n]; st], nd: vec![vec![0; n]; st] };
                emit(&rt, &mut out, &zero, "burst-t0");
                // (b) everything ready at once, random delays
                let mut sc = random_script(&mut rng, kind, n);
                sc.gaps = vec![0; n];
                sc.chan = chan;
                emit(&rt, &mut out, &sc, "burst-t0-delays");
                // (c) two bursts: the second arrives while the first is being worked on
                let mut sc = random_script(&mut rng, kind, n);
                let cut = rng.range(1, n as u64 - 1) as usize;
                sc.gaps = (0..n).map(|i| if i == cut { *rng.pick(&[1u64, 2, 5, 50]) } else { 0 }).collect();
                sc.chan = chan;
                emit(&rt, &mut out, &sc, "burst-between-polls");
            }
        }
    }
    let n_scripts = match args.tier {
        Tier::Quick => 900,
        Tier::Thorough => 60_000,
        Tier::Search => 6_000,
    };
    let kinds = ["single", "bag", "hold", "chain2", "chain3", "comp2", "comp2", "comp3"];
    for i in 0..n_scripts {
        let kind = kinds[i % kinds.len()];
        let n = if rng.chance(1, 10) { rng.range(17, 70) } else { rng.range(1, 12) } as usize;
        let sc = random_script(&mut rng, kind, n);
        emit(&rt, &mut out, &sc, "random");
    }
    out.finish(
        "non-trivial = script in which a `process` future was dropped, i.e. an input arrived (or the inner select! switched) strictly between first.next() resolving and second.process() resolving",
        false,
    );
}
