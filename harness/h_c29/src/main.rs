//! C29 — Gossip overlay is left exactly when the last handle is gone.
//!
//! Runs the real `Gossip::stream`, `GossipHandle::clone` and the real `TopicDropGuard::drop` on real OS
//! threads against a probe gossip manager (no endpoint, no overlay; hook `verif_c29`).  Threads are parked
//! at the cfg-guarded schedule points, so that a *schedule of atomic steps* chosen by the controller is
//! what actually happens.  Stateless DFS enumerates every interleaving of small thread programs.
//!
//! Request line:  `sched <action>*`            (see /verif/lean/Drv/C29.lean)
//!   `L<t>` lookup · `K<t>` clone (pinned code only) · `R<t>` second look-up under the write lock ·
//!   `P<t>` one turn of the wait for a pending Unsubscribe · `S<t>` subscribe · `I<t>` insert ·
//!   `C<t>:<g>` dup a handle of generation g · `D<t>:<g>` drop (decrement) · `U<t>` send Unsubscribe
//! Answer: one token per action + `| log=… joined=… live=…`.
use std::cell::Cell;
use std::collections::BTreeMap;
use std::sync::atomic::{AtomicUsize, Ordering};
use std::sync::mpsc as smpsc;
use std::sync::{Arc, Condvar, Mutex};
use std::time::{Duration, Instant};

use hc::{Args, Out, Rng, Tier};
use p2panda_core::{SigningKey, Topic};
use p2panda_net::gossip::verif_c29::{self, Probe, ProbeEvent, VerifGuard};
use p2panda_net::gossip::{Gossip, GossipHandle};
use p2panda_net::AddressBook;

const MAX_T: usize = 8;
const WAIT: Duration = Duration::from_secs(5);

thread_local! { static TID: Cell<Option<usize>> = const { Cell::new(None) }; }

#[derive(Default)]
struct CtlState {
    parked: [Option<&'static str>; MAX_T],
    seq: [u64; MAX_T],
    go: [bool; MAX_T],
    done: [Option<Done>; MAX_T],
    park_check_clone: bool,
    park_all: bool,
}
#[derive(Clone, Debug)]
enum Done {
    Handle(usize),
    Dropped,
    Failed(String),
}
struct Ctl {
    m: Mutex<CtlState>,
    cv: Condvar,
}

fn schedule_cb(ctl: &Arc<Ctl>, name: &'static str) {
    let Some(t) = TID.with(|c| c.get()) else { return };
    let mut st = ctl.m.lock().unwrap();
    let park = if name == "stream:check-clone" { st.park_check_clone } else { st.park_all };
    if !park {
        return;
    }
    st.parked[t] = Some(name);
    st.seq[t] += 1;
    ctl.cv.notify_all();
    while !st.go[t] {
        st = ctl.cv.wait(st).unwrap();
    }
    st.go[t] = false;
    st.parked[t] = None;
}

enum Cmd {
    Stream(Topic),
    Dup(usize),
    Drop(usize),
    Quit,
}

struct World {
    ctl: Arc<Ctl>,
    gossip: Gossip,
    probe: Probe,
    pool: Arc<Mutex<Vec<Option<GossipHandle>>>>,
    cmd: Vec<smpsc::Sender<Cmd>>,
    rt: tokio::runtime::Runtime,
    topic_no: u64,
    /// a topic that always has a live entry: `stream()` on it needs nothing but the `senders` read lock
    probe_topic: Topic,
    _probe_handle: Option<GossipHandle>,
    /// memo: schedule prefix -> "the `senders` lock can be taken for reading"
    lock_memo: std::collections::HashMap<String, bool>,
    lock_probes: u64,
}

impl World {
    fn new() -> World {
        let ctl = Arc::new(Ctl { m: Mutex::new(CtlState::default()), cv: Condvar::new() });
        let c2 = ctl.clone();
        verif_c29::set_schedule_point(Some(Arc::new(move |name| schedule_cb(&c2, name))));
        let rt = tokio::runtime::Builder::new_current_thread().enable_all().build().unwrap();
        let (gossip, probe) = rt.block_on(async {
            let ab = AddressBook::builder().spawn().await.expect("address book");
            let me = SigningKey::from_bytes(&[7u8; 32]).verifying_key();
            Gossip::verif_with_probe(me, ab).await
        });
        let pool: Arc<Mutex<Vec<Option<GossipHandle>>>> = Arc::new(Mutex::new(vec![]));
        let mut cmd = vec![];
        for t in 0..MAX_T {
            let (tx, rx) = smpsc::channel::<Cmd>();
            cmd.push(tx);
            let (ctl, gossip, pool) = (ctl.clone(), gossip.clone(), pool.clone());
            std::thread::spawn(move || {
                TID.with(|c| c.set(Some(t)));
                let rt = tokio::runtime::Builder::new_current_thread().enable_all().build().unwrap();
                while let Ok(c) = rx.recv() {
                    let d = match c {
                        Cmd::Quit => break,
                        Cmd::Stream(topic) => match rt.block_on(gossip.stream(topic)) {
                            Ok(h) => {
                                let mut p = pool.lock().unwrap();
                                p.push(Some(h));
                                Done::Handle(p.len() - 1)
                            }
                            Err(e) => Done::Failed(format!("{e}")),
                        },
                        Cmd::Dup(slot) => {
                            let h = pool.lock().unwrap()[slot].as_ref().expect("live slot").clone();
                            let mut p = pool.lock().unwrap();
                            p.push(Some(h));
                            Done::Handle(p.len() - 1)
                        }
                        Cmd::Drop(slot) => {
                            let h = pool.lock().unwrap()[slot].take().expect("live slot");
                            drop(h); // may park at drop:before-unsubscribe
                            Done::Dropped
                        }
                    };
                    let mut st = ctl.m.lock().unwrap();
                    st.done[t] = Some(d);
                    ctl.cv.notify_all();
                }
            });
        }
        let probe_topic: Topic = [0xEEu8; 32].into();
        let h = rt.block_on(gossip.stream(probe_topic)).expect("probe topic handle");
        World { ctl, gossip, probe, pool, cmd, rt, topic_no: 0, probe_topic, _probe_handle: Some(h), lock_memo: Default::default(), lock_probes: 0 }
    }

    /// Is the `senders` lock free for a reader right now?  Asked of the real object (a `stream()` on a topic with
    /// a live entry takes the read lock and returns), never assumed: which lock `stream()` holds at which
    /// schedule point is exactly what a change of the code may alter.
    fn senders_readable(&self) -> bool {
        let g = self.gossip.clone();
        let t = self.probe_topic;
        self.rt.block_on(async move { tokio::time::timeout(Duration::from_millis(25), g.stream(t)).await.map(|r| r.is_ok()).unwrap_or(false) })
    }

    fn fresh_topic(&mut self) -> Topic {
        self.topic_no += 1;
        let mut b = [0u8; 32];
        b[..8].copy_from_slice(&self.topic_no.to_le_bytes());
        b[31] = 0xC2;
        b.into()
    }

    /// Start an operation on worker t; returns when it is parked or done.
    fn start(&self, t: usize, c: Cmd) -> Result<Pos, String> {
        {
            let mut st = self.ctl.m.lock().unwrap();
            st.done[t] = None;
        }
        self.cmd[t].send(c).map_err(|_| "worker gone".to_string())?;
        self.wait(t, None)
    }
    /// Release worker t from its park point; returns when it is parked again or done.
    fn release(&self, t: usize) -> Result<Pos, String> {
        let seq = {
            let mut st = self.ctl.m.lock().unwrap();
            if st.parked[t].is_none() {
                return Err(format!("worker {t} is not parked"));
            }
            st.go[t] = true;
            self.ctl.cv.notify_all();
            st.seq[t]
        };
        self.wait(t, Some(seq))
    }
    fn wait(&self, t: usize, after_seq: Option<u64>) -> Result<Pos, String> {
        let deadline = Instant::now() + WAIT;
        let mut st = self.ctl.m.lock().unwrap();
        loop {
            if let Some(d) = st.done[t].clone() {
                return Ok(Pos::Done(d));
            }
            if let Some(p) = st.parked[t] {
                if after_seq.map(|s| st.seq[t] > s).unwrap_or(true) && !st.go[t] {
                    return Ok(Pos::Parked(p));
                }
            }
            let now = Instant::now();
            if now >= deadline {
                return Err(format!("worker {t} neither parked nor done after {WAIT:?}"));
            }
            st = self.ctl.cv.wait_timeout(st, deadline - now).unwrap().0;
        }
    }
    /// All messages sent to the probe so far have been processed after this returns.
    fn barrier(&self) {
        let _ = self.rt.block_on(self.gossip.events());
    }
    fn events(&self, topic: Topic) -> Vec<bool> {
        self.barrier();
        self.probe
            .events()
            .iter()
            .filter_map(|e| match e {
                ProbeEvent::Subscribe(t) if *t == topic => Some(true),
                ProbeEvent::Unsubscribe(t) if *t == topic => Some(false),
                _ => None,
            })
            .collect()
    }
    fn set_parking(&self, all: bool, check_clone: bool) {
        let mut st = self.ctl.m.lock().unwrap();
        st.park_all = all;
        st.park_check_clone = check_clone;
    }
}

#[derive(Clone, Debug)]
enum Pos {
    Parked(&'static str),
    Done(Done),
}

#[derive(Clone, Copy, Debug, PartialEq, Eq)]
enum Op {
    S, // stream()
    C, // clone own newest handle
    D, // drop own newest handle
}

#[derive(Clone, Copy, Debug, PartialEq, Eq)]
enum TState {
    Idle,
    CheckClone,
    /// parked at `stream:check-clone` *after* the reference was taken (repaired code): releasing is no step
    CheckCloneTaken,
    Missed,
    WaitLeft,
    BeforeSubscribe,
    BeforeInsert,
    BeforeUnsub,
}

/// One schedule executed on the real code.
struct Exec<'a> {
    w: &'a mut World,
    topic: Topic,
    nthreads: usize,
    state: Vec<TState>,
    prog: Vec<Vec<Op>>,
    ip: Vec<usize>,
    stack: Vec<Vec<usize>>,            // per thread: pool slots it owns
    slot_gen: BTreeMap<usize, usize>,  // pool slot -> generation id
    cell_gen: BTreeMap<usize, usize>,  // counter-cell address -> generation id
    cells: Vec<Option<Arc<AtomicUsize>>>, // generation id -> cell (once known)
    pending_gen: Vec<Option<usize>>,   // generation created by thread t's subscribe, not yet inserted
    dropping_gen: Vec<Option<usize>>,
    ngen: usize,
    actions: Vec<String>,
    answers: Vec<String>,
    // oracle bookkeeping
    fails: Vec<(String, String)>,
    entry_cell: Option<Arc<AtomicUsize>>,
    entry_gen: usize,
    counter_before: Option<usize>,
    saw_double_fresh: bool,
    saw_lookup_while_dying: bool,
    saw_stream_while_dying: bool,
    saw_zero_in_check_clone: bool,
    saw_zero_during_stream: bool,
    hang: bool,
}

impl<'a> Exec<'a> {
    fn new(w: &'a mut World, nthreads: usize, prog: Vec<Vec<Op>>) -> Exec<'a> {
        let topic = w.fresh_topic();
        Exec {
            w,
            topic,
            nthreads,
            state: vec![TState::Idle; nthreads],
            prog,
            ip: vec![0; nthreads],
            stack: vec![vec![]; nthreads],
            slot_gen: BTreeMap::new(),
            cell_gen: BTreeMap::new(),
            cells: vec![],
            pending_gen: vec![None; nthreads],
            dropping_gen: vec![None; nthreads],
            ngen: 0,
            actions: vec![],
            answers: vec![],
            fails: vec![],
            entry_cell: None,
            entry_gen: 0,
            counter_before: None,
            saw_double_fresh: false,
            saw_lookup_while_dying: false,
            saw_stream_while_dying: false,
            saw_zero_in_check_clone: false,
            saw_zero_during_stream: false,
            hang: false,
        }
    }

    /// Threads that can take a step now (each has exactly one possible next atomic step).
    fn enabled(&mut self) -> Vec<usize> {
        // A thread parked inside the slow path of stream() *may* hold the `senders` lock; whether another
        // thread's look-up can proceed is asked of the real lock (memoised per schedule prefix).
        let maybe_holder = self.state.iter().any(|s| matches!(s, TState::WaitLeft | TState::BeforeSubscribe | TState::BeforeInsert));
        let wants_lock = |t: usize, me: &Exec| match me.state[t] {
            TState::Idle => me.ip[t] < me.prog[t].len() && me.prog[t][me.ip[t]] == Op::S,
            TState::Missed => true,
            _ => false,
        };
        let lock_free = if maybe_holder && (0..self.nthreads).any(|t| wants_lock(t, self)) {
            let key = self.actions.join(" ");
            match self.w.lock_memo.get(&key) {
                Some(b) => *b,
                None => {
                    let b = self.w.senders_readable();
                    self.w.lock_memo.insert(key, b);
                    self.w.lock_probes += 1;
                    b
                }
            }
        } else {
            true
        };
        let dying = self.state.iter().any(|s| *s == TState::BeforeUnsub);
        (0..self.nthreads)
            .filter(|t| match self.state[*t] {
                TState::Idle => self.ip[*t] < self.prog[*t].len() && (lock_free || !wants_lock(*t, self)),
                TState::Missed => lock_free,
                TState::WaitLeft => !dying,
                _ => true,
            })
            .collect()
    }

    fn counter_of_slot(&self, slot: usize) -> usize {
        self.w.pool.lock().unwrap()[slot].as_ref().map(|h| h.verif_counter()).unwrap_or(usize::MAX)
    }

    fn bind_handle(&mut self, t: usize, slot: usize, created: Option<usize>) -> usize {
        let cell = self.w.pool.lock().unwrap()[slot].as_ref().unwrap().verif_counter_cell();
        let addr = Arc::as_ptr(&cell) as usize;
        let g = match created {
            Some(g) => {
                self.cell_gen.insert(addr, g);
                while self.cells.len() <= g {
                    self.cells.push(None);
                }
                self.cells[g] = Some(cell.clone());
                self.entry_cell = Some(cell);
                self.entry_gen = g;
                g
            }
            None => *self.cell_gen.get(&addr).unwrap_or(&999),
        };
        self.slot_gen.insert(slot, g);
        self.stack[t].push(slot);
        g
    }

    fn fail(&mut self, tag: &str, what: String) {
        if !self.fails.iter().any(|f| f.0 == tag) {
            self.fails.push((tag.to_string(), what));
        }
    }

    /// Perform the next atomic step of thread t.
    fn step(&mut self, t: usize) {
        if self.hang {
            return;
        }
        let others_in_fresh = (0..self.nthreads).any(|u| u != t && matches!(self.state[u], TState::BeforeSubscribe | TState::BeforeInsert));
        let someone_dying = self.state.iter().any(|s| *s == TState::BeforeUnsub);
        let someone_in_stream = |me: usize, st: &Vec<TState>| (0..st.len()).any(|u| u != me && matches!(st[u], TState::CheckClone | TState::Missed | TState::WaitLeft | TState::BeforeSubscribe | TState::BeforeInsert));
        let r = match self.state[t] {
            TState::Idle => {
                let op = self.prog[t][self.ip[t]];
                self.ip[t] += 1;
                match op {
                    Op::S => {
                        self.actions.push(format!("L{t}"));
                        self.counter_before = self.entry_cell.as_ref().map(|c| c.load(Ordering::SeqCst));
                        if someone_dying {
                            self.saw_stream_while_dying = true;
                        }
                        self.w.start(t, Cmd::Stream(self.topic))
                    }
                    Op::C => {
                        let slot = *self.stack[t].last().expect("own handle");
                        self.actions.push(format!("C{t}:{}", self.slot_gen[&slot]));
                        self.w.start(t, Cmd::Dup(slot))
                    }
                    Op::D => {
                        let slot = self.stack[t].pop().expect("own handle");
                        let g = self.slot_gen[&slot];
                        self.actions.push(format!("D{t}:{g}"));
                        self.dropping_gen[t] = Some(g);
                        self.w.start(t, Cmd::Drop(slot))
                    }
                }
            }
            TState::CheckClone => {
                self.actions.push(format!("K{t}"));
                self.w.release(t)
            }
            TState::CheckCloneTaken => {
                // silent: the handle was already accounted for when the thread parked
                match self.w.release(t) {
                    Ok(Pos::Done(Done::Handle(slot))) => {
                        self.bind_handle(t, slot, None);
                        self.state[t] = TState::Idle;
                    }
                    other => {
                        self.hang = true;
                        self.fail("hang", format!("thread {t} released from check-clone: {other:?}"));
                    }
                }
                self.check_live("after action");
                return;
            }
            TState::Missed => {
                self.actions.push(format!("R{t}"));
                if someone_dying {
                    self.saw_stream_while_dying = true;
                }
                self.w.release(t)
            }
            TState::WaitLeft => {
                self.actions.push(format!("P{t}"));
                self.w.release(t)
            }
            TState::BeforeSubscribe => {
                self.actions.push(format!("S{t}"));
                if others_in_fresh {
                    self.saw_double_fresh = true;
                }
                if someone_dying {
                    self.saw_lookup_while_dying = true;
                }
                self.pending_gen[t] = Some(self.ngen);
                self.ngen += 1;
                self.w.release(t)
            }
            TState::BeforeInsert => {
                self.actions.push(format!("I{t}"));
                self.w.release(t)
            }
            TState::BeforeUnsub => {
                self.actions.push(format!("U{t}"));
                self.w.release(t)
            }
        };
        let prev = self.state[t];
        match r {
            Err(e) => {
                self.hang = true;
                self.answers.push("HANG".into());
                self.fail("hang", e);
            }
            Ok(Pos::Parked(p)) => {
                let (ns, tok) = match p {
                    "stream:check-clone" => {
                        // has the reference already been taken (repaired code: check + increment are one step)?
                        let before = self.counter_before;
                        let now = self.entry_cell.as_ref().map(|c| c.load(Ordering::SeqCst));
                        match (before, now) {
                            (Some(b), Some(n)) if n == b + 1 => (TState::CheckCloneTaken, format!("h{}:{}", self.entry_gen, n)),
                            _ => (TState::CheckClone, "K".to_string()),
                        }
                    }
                    "stream:lookup-missed" => (TState::Missed, "M".to_string()),
                    "stream:wait-unsubscribed" => (TState::WaitLeft, "W".to_string()),
                    "stream:before-subscribe" => {
                        if others_in_fresh {
                            self.saw_double_fresh = true;
                        }
                        (TState::BeforeSubscribe, "F".to_string())
                    }
                    "stream:before-insert" => (TState::BeforeInsert, "s".to_string()),
                    "drop:before-unsubscribe" => {
                        if someone_in_stream(t, &self.state) {
                            self.saw_zero_during_stream = true;
                        }
                        if (0..self.nthreads).any(|u| u != t && self.state[u] == TState::CheckClone) {
                            self.saw_zero_in_check_clone = true;
                        }
                        (TState::BeforeUnsub, "z".to_string())
                    }
                    other => (TState::Idle, format!("?{other}")),
                };
                self.state[t] = ns;
                self.answers.push(tok);
            }
            Ok(Pos::Done(d)) => {
                self.state[t] = TState::Idle;
                match d {
                    Done::Handle(slot) => {
                        let created = if prev == TState::BeforeInsert { self.pending_gen[t].take() } else { None };
                        let g = self.bind_handle(t, slot, created);
                        let c = self.counter_of_slot(slot);
                        let tok = if self.actions.last().map(|a| a.starts_with('C')).unwrap_or(false) { format!("c{c}") } else { format!("h{g}:{c}") };
                        self.answers.push(tok);
                    }
                    Done::Dropped => {
                        if prev == TState::BeforeUnsub {
                            self.answers.push("u".into());
                        } else {
                            let g = self.dropping_gen[t].unwrap_or(999);
                            let c = self.cells.get(g).and_then(|c| c.as_ref()).map(|c| c.load(Ordering::SeqCst)).unwrap_or(usize::MAX);
                            self.answers.push(format!("d{c}"));
                        }
                        self.dropping_gen[t] = None;
                    }
                    Done::Failed(e) => {
                        self.answers.push("ERR".into());
                        self.fail("stream-error", e);
                    }
                }
            }
        }
        self.check_live("after action");
    }

    fn live_gens(&self) -> Vec<usize> {
        let mut v: Vec<usize> = self.stack.iter().flatten().map(|s| self.slot_gen[s]).collect();
        v.sort();
        v
    }

    /// Oracle: a handle that has been returned and not dropped must be backed by an active subscription.
    fn check_live(&mut self, when: &str) {
        let ev = self.w.events(self.topic);
        let joined = ev.last().copied().unwrap_or(false);
        let live = self.live_gens();
        // an Unsubscribe still to be sent by a thread parked in Drop does not count as "left" yet
        if !live.is_empty() && !joined {
            let tag = if self.saw_zero_in_check_clone {
                "check-clone-toctou"
            } else if self.saw_lookup_while_dying {
                "unsub-overtakes-resubscribe"
            } else if self.saw_double_fresh {
                "double-subscribe"
            } else {
                "dead-handle"
            };
            let acts = self.actions.join(" ");
            self.fail(tag, format!("{when} `{acts}`: live handle(s) of generation(s) {live:?} but the overlay has been left (messages: {})", fmt_events(&ev)));
        }
        for w in ev.windows(2) {
            if w[0] && w[1] {
                let tag = if self.saw_double_fresh { "double-subscribe" } else { "subscribe-twice" };
                self.fail(tag, format!("two Subscribe messages without an Unsubscribe in between (messages: {})", fmt_events(&ev)));
            }
            if !w[0] && !w[1] {
                let tag = if self.saw_zero_in_check_clone {
                    "check-clone-toctou"
                } else if self.saw_double_fresh {
                    "double-subscribe"
                } else {
                    "unsubscribe-twice"
                };
                self.fail(tag, format!("two Unsubscribe messages for one subscription (messages: {})", fmt_events(&ev)));
            }
        }
        if ev.first() == Some(&false) {
            self.fail("unsubscribe-first", "Unsubscribe before any Subscribe".into());
        }
    }

    /// Finish: let every thread complete, then drop all remaining handles (thread 0 does the clean-up).
    fn finish(mut self) -> Case {
        // clean-up drops, as ordinary actions of their owners
        for t in 0..self.nthreads {
            while !self.hang && !self.stack[t].is_empty() && self.state[t] == TState::Idle {
                let n = self.stack[t].len();
                self.prog[t] = vec![Op::D; n];
                self.ip[t] = 0;
                for _ in 0..n {
                    self.step(t);
                    while !self.hang && self.state[t] != TState::Idle {
                        self.step(t);
                    }
                }
            }
        }
        let ev = self.w.events(self.topic);
        let joined = ev.last().copied().unwrap_or(false);
        if !self.hang && joined {
            self.fail("not-left", format!("all handles are gone but the overlay was not left (messages: {})", fmt_events(&ev)));
        }
        let subs = ev.iter().filter(|e| **e).count();
        let unsubs = ev.len() - subs;
        if !self.hang && subs != unsubs {
            let tag = if self.saw_zero_in_check_clone { "check-clone-toctou" } else { "unsubscribe-count" };
            self.fail(tag, format!("{subs} Subscribe but {unsubs} Unsubscribe messages after everything was dropped"));
        }
        let cells: Vec<String> = self.cells.iter().map(|c| c.as_ref().map(|c| c.load(Ordering::SeqCst).to_string()).unwrap_or("?".into())).collect();
        if !self.hang && cells.iter().any(|c| c != "0") {
            self.fail("counter-nonzero", format!("counters after everything was dropped: {cells:?}"));
        }
        let ans = format!("{} | log={} joined={} cells={}", self.answers.join(" "), fmt_events(&ev), joined as u8, if cells.is_empty() { "-".into() } else { cells.join(",") });
        Case {
            req: format!("sched {}", self.actions.join(" ")),
            ans,
            nt: self.saw_zero_during_stream || self.saw_stream_while_dying || self.saw_lookup_while_dying,
            fails: self.fails,
            steps: self.actions.len(),
        }
    }
}

fn fmt_events(ev: &[bool]) -> String {
    if ev.is_empty() { "-".into() } else { ev.iter().map(|e| if *e { "S" } else { "U" }).collect::<Vec<_>>().join(",") }
}

struct Case {
    req: String,
    ans: String,
    nt: bool,
    fails: Vec<(String, String)>,
    steps: usize,
}

/// A worker that hung stays stuck (its OS thread sits in the real code): nothing more can be run.
static HUNG: std::sync::atomic::AtomicBool = std::sync::atomic::AtomicBool::new(false);

fn emit(out: &mut Out, c: Case, kind: &str) {
    if c.fails.iter().any(|f| f.0 == "hang") {
        HUNG.store(true, Ordering::SeqCst);
    }
    let n = out.case(&c.req, &c.ans, c.nt);
    out.count(&format!("kind={kind}"));
    out.count(&format!("steps={}", if c.steps <= 6 { "<=6" } else if c.steps <= 10 { "7-10" } else { ">10" }));
    for (tag, what) in c.fails {
        out.count(&format!("oracle-fail:{tag}"));
        out.oracle_fail(n, &tag, &what, &c.req, &c.ans);
    }
}

/// Initial phase (sequential): thread 0 streams and clones one handle per further `init` thread; handles are
/// handed to their threads. `init[t]` = number of handles thread t starts with.
fn run_schedule(w: &mut World, nthreads: usize, init: &[usize], progs: &[Vec<Op>], choices: &mut Vec<(usize, usize)>, random: Option<&mut Rng>) -> Case {
    w.set_parking(true, false);
    let mut ex = Exec::new(w, nthreads, vec![vec![]; nthreads]);
    // init: performed by thread 0 un-interleaved, then handles are moved to their owners
    let total: usize = init.iter().sum();
    if total > 0 {
        let mut p0 = vec![Op::S];
        p0.extend(std::iter::repeat(Op::C).take(total - 1));
        ex.prog[0] = p0;
        while !ex.hang && (ex.ip[0] < ex.prog[0].len() || ex.state[0] != TState::Idle) {
            ex.step(0);
        }
        let mut all: Vec<usize> = std::mem::take(&mut ex.stack[0]);
        for t in 0..nthreads {
            for _ in 0..init[t] {
                if let Some(s) = all.pop() {
                    ex.stack[t].push(s);
                }
            }
        }
    }
    for t in 0..nthreads {
        ex.prog[t] = progs[t].clone();
        ex.ip[t] = 0;
    }
    let mut depth = 0usize;
    let mut rnd = random;
    loop {
        let en = ex.enabled();
        if en.is_empty() || ex.hang {
            break;
        }
        let pick = match rnd.as_deref_mut() {
            Some(r) => r.below(en.len() as u64) as usize,
            None => {
                if depth >= choices.len() {
                    choices.push((0, en.len()));
                }
                choices[depth].1 = en.len();
                choices[depth].0.min(en.len() - 1)
            }
        };
        ex.step(en[pick]);
        depth += 1;
    }
    if rnd.is_none() {
        choices.truncate(depth);
    }
    ex.finish()
}

/// Advance the DFS choice stack; false when exhausted.
fn next_choices(choices: &mut Vec<(usize, usize)>) -> bool {
    while let Some((c, n)) = choices.pop() {
        if c + 1 < n {
            choices.push((c + 1, n));
            return true;
        }
    }
    false
}

fn valid(init: usize, p: &[Op]) -> bool {
    let mut have = init;
    for op in p {
        match op {
            Op::S | Op::C => {
                if *op == Op::C && have == 0 {
                    return false;
                }
                have += 1
            }
            Op::D => {
                if have == 0 {
                    return false;
                }
                have -= 1
            }
        }
    }
    true
}

fn programs(init: usize, maxlen: usize) -> Vec<Vec<Op>> {
    let mut out = vec![vec![]];
    let mut frontier = vec![vec![]];
    for _ in 0..maxlen {
        let mut next = vec![];
        for p in &frontier {
            for op in [Op::S, Op::C, Op::D] {
                let mut q: Vec<Op> = p.clone();
                q.push(op);
                if valid(init, &q) {
                    next.push(q);
                }
            }
        }
        out.extend(next.iter().cloned());
        frontier = next;
    }
    out
}

fn explore_all(w: &mut World, out: &mut Out, nthreads: usize, init: &[usize], progs: &[Vec<Op>], cap: usize, kind: &str) -> usize {
    let mut choices: Vec<(usize, usize)> = vec![];
    let mut n = 0;
    loop {
        let c = run_schedule(w, nthreads, init, progs, &mut choices, None);
        emit(out, c, kind);
        n += 1;
        if HUNG.load(Ordering::SeqCst) || n >= cap || !next_choices(&mut choices) {
            break;
        }
    }
    n
}

/// The check/clone window witness: T1's stream() is parked at `stream:check-clone` while T0 drops the only handle.
fn witness_check_clone(w: &mut World) -> Case {
    w.set_parking(true, true);
    let mut ex = Exec::new(w, 2, vec![vec![Op::S], vec![]]);
    while !ex.hang && (ex.ip[0] < 1 || ex.state[0] != TState::Idle) {
        ex.step(0);
    }
    ex.prog[0] = vec![Op::D];
    ex.ip[0] = 0;
    ex.prog[1] = vec![Op::S];
    ex.step(1); // lookup; parks at check-clone
    ex.step(0); // drop the (so far) only handle
    while !ex.hang && ex.state[0] != TState::Idle {
        ex.step(0);
    }
    while !ex.hang && ex.state[1] != TState::Idle {
        ex.step(1);
    }
    let c = ex.finish();
    w.set_parking(true, false);
    c
}

/// Replays an action list (from a replay file) as a fixed schedule.
fn replay_actions(w: &mut World, req: &str) -> Case {
    let acts: Vec<&str> = req.split_whitespace().skip(1).collect();
    let nthreads = MAX_T;
    let uses_k = acts.iter().any(|a| a.starts_with('K'));
    w.set_parking(true, uses_k);
    let mut ex = Exec::new(w, nthreads, vec![vec![]; nthreads]);
    for a in acts {
        let t: usize = a[1..].split(':').next().unwrap().parse().expect("thread id");
        let kind = a.chars().next().unwrap();
        match kind {
            'L' => ex.prog[t].push(Op::S),
            'C' | 'D' => {
                // move a handle of the requested generation to the top of t's stack (handles may change owner)
                let g: usize = a.split(':').nth(1).unwrap().parse().unwrap();
                let mut found = None;
                for u in 0..nthreads {
                    if let Some(i) = ex.stack[u].iter().position(|s| ex.slot_gen[s] == g) {
                        found = Some((u, i));
                        break;
                    }
                }
                if let Some((u, i)) = found {
                    let s = ex.stack[u].remove(i);
                    ex.stack[t].push(s);
                    ex.prog[t].push(if kind == 'C' { Op::C } else { Op::D });
                } else {
                    ex.fail("replay-invalid", format!("no live handle of generation {g} for action {a}"));
                    break;
                }
            }
            _ => {}
        }
        if ex.state[t] == TState::Idle && ex.ip[t] >= ex.prog[t].len() {
            ex.fail("replay-invalid", format!("action {a} is not enabled"));
            break;
        }
        ex.step(t);
    }
    // let parked threads finish
    for t in 0..nthreads {
        while !ex.hang && ex.state[t] != TState::Idle {
            ex.step(t);
        }
    }
    let c = ex.finish();
    w.set_parking(true, false);
    c
}

/// Lock-agnostic fallback: no parking at all. Two free-running threads call stream() for a fresh topic at the
/// same moment (both slow paths overlap unless the code serialises them), then one handle is dropped, then the other.
fn race_streams(w: &mut World, rounds: usize) -> Case {
    w.set_parking(false, false);
    let mut fails: Vec<(String, String)> = vec![];
    let mut bad = String::new();
    for r in 0..rounds {
        let topic = w.fresh_topic();
        {
            let mut st = w.ctl.m.lock().unwrap();
            st.done[0] = None;
            st.done[1] = None;
        }
        let _ = w.cmd[0].send(Cmd::Stream(topic));
        let _ = w.cmd[1].send(Cmd::Stream(topic));
        let (a, b) = (w.wait(0, None), w.wait(1, None));
        let (sa, sb) = match (a, b) {
            (Ok(Pos::Done(Done::Handle(x))), Ok(Pos::Done(Done::Handle(y)))) => (x, y),
            other => {
                fails.push(("hang".into(), format!("round {r}: two concurrent stream() calls: {other:?}")));
                break;
            }
        };
        let ev1 = w.events(topic);
        let _ = w.start(0, Cmd::Drop(sa));
        let ev2 = w.events(topic);
        let _ = w.start(1, Cmd::Drop(sb));
        let ev3 = w.events(topic);
        let ok = ev1 == vec![true] && ev2 == vec![true] && ev3 == vec![true, false];
        if !ok && bad.is_empty() {
            bad = format!("round {r}: messages after both stream() calls returned: {}, after dropping one handle: {}, after dropping both: {}", fmt_events(&ev1), fmt_events(&ev2), fmt_events(&ev3));
            let tag = if ev1.iter().filter(|e| **e).count() > 1 { "subscribe-twice" } else if ev2.last() == Some(&false) { "dead-handle" } else { "unsubscribe-count" };
            fails.push((tag.into(), format!("two free-running threads calling stream() for one topic at the same moment (no schedule points), {bad}")));
        }
    }
    w.set_parking(true, false);
    Case { req: "race streams".into(), ans: if bad.is_empty() && fails.is_empty() { "ok".into() } else { "bad".into() }, nt: true, fails, steps: rounds }
}

/// Free-running: a dead guard is never revived. N threads call `try_clone` in a tight loop on a guard whose
/// counter is 0 (its only counting reference was dropped): every call must return None.
fn dead_guard_stress(w: &mut World, iters: usize) -> Case {
    w.set_parking(false, false);
    let topic = w.fresh_topic();
    let actor = w.rt.block_on(w.probe.spawn_actor());
    let root = VerifGuard::new(topic, actor.clone());
    let nthreads = 6;
    let observers: Vec<VerifGuard> = (0..nthreads).map(|_| root.clone_without_increment()).collect();
    let watch = root.clone_without_increment();
    drop(root); // counter 1 -> 0, Unsubscribe sent
    let start = Arc::new(AtomicUsize::new(0));
    let mut joins = vec![];
    for obs in observers {
        let start = start.clone();
        joins.push(std::thread::spawn(move || {
            start.fetch_add(1, Ordering::SeqCst);
            while start.load(Ordering::SeqCst) < nthreads {
                std::hint::spin_loop();
            }
            let mut revived = 0usize;
            for _ in 0..iters {
                if let Some(g) = obs.try_clone_counting() {
                    revived += 1;
                    drop(g);
                }
            }
            revived
        }));
    }
    let revived: usize = joins.into_iter().map(|j| j.join().unwrap_or(0)).sum();
    let counter = watch.counter();
    actor.stop(None);
    let mut fails = vec![];
    if revived > 0 || counter != 0 {
        fails.push(("dead-guard-revived".to_string(), format!("{nthreads} threads x {iters} try_clone() calls on a guard whose counter is 0: {revived} calls returned a counting guard (every call must return None); counter afterwards {counter}")));
    }
    w.set_parking(true, false);
    Case { req: "race deadguard".into(), ans: if fails.is_empty() { "ok".into() } else { "bad".into() }, nt: true, fails, steps: iters }
}

/// Free-running: join, leave (the entry in `senders` is now a dead guard, counter 0), then 8 threads call stream()
/// at the same moment. All of them run `try_clone` on the dead guard concurrently: none may revive it — no
/// returned handle may belong to the left generation, and the log must be S,U,S and end S,U,S,U.
fn rejoin_race(w: &mut World, rounds: usize) -> Case {
    w.set_parking(false, false);
    let mut fails: Vec<(String, String)> = vec![];
    let n = MAX_T;
    for r in 0..rounds {
        let topic = w.fresh_topic();
        let first = match w.start(0, Cmd::Stream(topic)) {
            Ok(Pos::Done(Done::Handle(s))) => s,
            other => {
                fails.push(("hang".into(), format!("round {r}: first stream(): {other:?}")));
                break;
            }
        };
        let left_cell = w.pool.lock().unwrap()[first].as_ref().unwrap().verif_counter_cell();
        let _ = w.start(0, Cmd::Drop(first));
        {
            let mut st = w.ctl.m.lock().unwrap();
            for t in 0..n {
                st.done[t] = None;
            }
        }
        for t in 0..n {
            let _ = w.cmd[t].send(Cmd::Stream(topic));
        }
        let mut slots = vec![];
        let mut hung = false;
        for t in 0..n {
            match w.wait(t, None) {
                Ok(Pos::Done(Done::Handle(s))) => slots.push(s),
                other => {
                    fails.push(("hang".into(), format!("round {r}: concurrent stream() of worker {t}: {other:?}")));
                    hung = true;
                }
            }
        }
        if hung {
            break;
        }
        let revived = slots.iter().filter(|s| Arc::ptr_eq(&w.pool.lock().unwrap()[**s].as_ref().unwrap().verif_counter_cell(), &left_cell)).count();
        let ev1 = w.events(topic);
        for (i, s) in slots.iter().enumerate() {
            let _ = w.start(i % n, Cmd::Drop(*s));
        }
        let ev2 = w.events(topic);
        let dead_counter = left_cell.load(Ordering::SeqCst);
        if fails.is_empty() {
            if revived > 0 {
                fails.push(("handle-of-left-session".into(), format!("round {r}: join, leave, then {n} simultaneous stream() calls: {revived} returned handle(s) count on the guard of the session that was left (messages then: {}, after dropping everything: {})", fmt_events(&ev1), fmt_events(&ev2))));
            } else if dead_counter != 0 {
                fails.push(("dead-guard-revived".into(), format!("round {r}: counter of the left session's guard is {dead_counter} after everything was dropped")));
            } else if ev1 != vec![true, false, true] || ev2 != vec![true, false, true, false] {
                fails.push(("rejoin-log".into(), format!("round {r}: join, leave, {n} simultaneous stream() calls: messages {} (expected S,U,S), after dropping everything {} (expected S,U,S,U)", fmt_events(&ev1), fmt_events(&ev2))));
            }
        }
        if !fails.is_empty() {
            break;
        }
    }
    w.set_parking(true, false);
    Case { req: "race rejoin".into(), ans: if fails.is_empty() { "ok".into() } else { "bad".into() }, nt: true, fails, steps: rounds }
}

/// Stress without schedule points: bare guards hammered by 8 threads.
fn hammer_guards(w: &mut World, rng: &mut Rng, rounds: usize) -> Case {
    w.set_parking(false, false);
    let topic = w.fresh_topic();
    let actor = w.rt.block_on(w.probe.spawn_actor());
    let root = VerifGuard::new(topic, actor.clone());
    let nthreads = 8;
    let mut joins = vec![];
    let clones = Arc::new(AtomicUsize::new(0));
    for i in 0..nthreads {
        let mine = root.clone_counting();
        let mut r = rng.fork();
        let clones = clones.clone();
        let _ = i;
        joins.push(std::thread::spawn(move || {
            let mut held = vec![mine];
            for _ in 0..rounds {
                if held.len() < 6 && r.chance(1, 2) {
                    let g = held[r.below(held.len() as u64) as usize].clone_counting();
                    clones.fetch_add(1, Ordering::Relaxed);
                    held.push(g);
                } else if held.len() > 1 {
                    let k = r.below(held.len() as u64) as usize;
                    drop(held.swap_remove(k));
                } else {
                    let w = held[0].clone_without_increment();
                    drop(w);
                }
            }
            held.len()
        }));
    }
    let mid = root.counter();
    drop(root);
    let mut still = 0;
    for j in joins {
        still += j.join().unwrap_or(0);
    }
    let _ = (mid, still);
    // a message to this probe actor goes through the same mailbox; wait until it is drained
    std::thread::sleep(Duration::from_millis(2));
    let mut tries = 0;
    let mut ev: Vec<bool>;
    loop {
        ev = w
            .probe
            .events()
            .iter()
            .filter_map(|e| match e {
                ProbeEvent::Unsubscribe(t) if *t == topic => Some(false),
                ProbeEvent::Subscribe(t) if *t == topic => Some(true),
                _ => None,
            })
            .collect();
        tries += 1;
        if !ev.is_empty() || tries > 500 {
            break;
        }
        std::thread::sleep(Duration::from_millis(2));
    }
    actor.stop(None);
    let unsubs = ev.iter().filter(|e| !**e).count();
    let mut fails = vec![];
    if unsubs != 1 {
        fails.push(("hammer-unsubscribe-count".to_string(), format!("8 threads cloning/dropping bare guards: {unsubs} Unsubscribe messages after all guards were dropped (expected exactly 1)")));
    }
    w.set_parking(true, false);
    Case { req: "hammer guards".into(), ans: format!("unsub={unsubs}"), nt: true, fails, steps: clones.load(Ordering::Relaxed) }
}

fn main() {
    let args = Args::parse();
    let mut out = Out::new(&args.out);
    let mut w = World::new();
    if args.mode == "replay" {
        let text = std::fs::read_to_string(args.replay.as_ref().expect("replay file")).unwrap();
        let v: hc::serde_json::Value = hc::serde_json::from_str(&text).unwrap();
        let req = v["request"].as_str().unwrap().to_string();
        let c = if req.starts_with("hammer") {
            hammer_guards(&mut w, &mut Rng::new(1), 2000)
        } else if req.starts_with("race deadguard") {
            dead_guard_stress(&mut w, 200000)
        } else if req.starts_with("race rejoin") {
            rejoin_race(&mut w, 2000)
        } else if req.starts_with("race") {
            race_streams(&mut w, 500)
        } else {
            replay_actions(&mut w, &req)
        };
        emit(&mut out, c, "replay");
        out.finish("replay", false);
        std::process::exit(0);
    }
    let mut rng = Rng::new(args.seed);
    // 0. the check/clone window witness (defect of the pinned tree; must pass after the fix)
    let c = witness_check_clone(&mut w);
    emit(&mut out, c, "witness-check-clone");

    // 1. exhaustive: all interleavings of 2-thread programs
    let (len2, cap2, n3, hammer) = match args.tier {
        Tier::Quick => (2usize, 400usize, 500usize, 20usize),
        Tier::Thorough => (3, 600, 10000, 200),
        Tier::Search => (2, 400, 3000, 20),
    };
    let mut exhaustive_complete = true;
    for init in [[0usize, 0], [1, 0], [1, 1], [2, 0]] {
        let p0 = programs(init[0], len2);
        let p1 = programs(init[1], len2);
        for a in &p0 {
            for b in &p1 {
                if a.is_empty() || b.is_empty() || HUNG.load(Ordering::SeqCst) {
                    continue;
                }
                if !a.contains(&Op::S) && !b.contains(&Op::S) && init[0] + init[1] == 0 {
                    continue;
                }
                let n = explore_all(&mut w, &mut out, 2, &init, &[a.clone(), b.clone()], cap2, "exhaustive-2-threads");
                if n >= cap2 {
                    exhaustive_complete = false;
                    out.count("exhaustive-capped");
                }
            }
        }
    }
    // 2. random 3-thread schedules
    for _ in 0..n3 {
        if HUNG.load(Ordering::SeqCst) {
            break;
        }
        let init = [rng.below(2) as usize, rng.below(2) as usize, rng.below(2) as usize];
        let mut progs = vec![];
        for t in 0..3 {
            let ps = programs(init[t], 3);
            progs.push(ps[rng.below(ps.len() as u64) as usize].clone());
        }
        let mut r = rng.fork();
        let mut ch = vec![];
        let c = run_schedule(&mut w, 3, &init, &progs, &mut ch, Some(&mut r));
        emit(&mut out, c, "random-3-threads");
    }
    // 3. stress without hooks
    if !HUNG.load(Ordering::SeqCst) {
        let c = race_streams(&mut w, hammer * 10);
        emit(&mut out, c, "race-streams");
        let c = rejoin_race(&mut w, hammer * 20);
        emit(&mut out, c, "race-rejoin");
        let c = dead_guard_stress(&mut w, 20000);
        emit(&mut out, c, "race-dead-guard");
    }
    for _ in 0..hammer {
        if HUNG.load(Ordering::SeqCst) {
            break;
        }
        let c = hammer_guards(&mut w, &mut rng, 400);
        emit(&mut out, c, "hammer-guards");
    }
    out.extra.insert("exhaustive_2_thread_complete".into(), exhaustive_complete.into());
    out.extra.insert("senders_lock_probes".into(), w.lock_probes.into());
    out.extra.insert("senders_lock_found_held".into(), (w.lock_memo.values().filter(|b| !**b).count() as u64).into());
    out.finish(
        "one case = one schedule of atomic steps (lookup / subscribe / insert / clone / decrement / send-Unsubscribe) realised on the real Gossip::stream, GossipHandle::clone and TopicDropGuard::drop with real OS threads parked at the schedule points; exhaustive: every interleaving of every pair of thread programs over {stream, clone, drop} up to the length bound, for 4 initial handle distributions; random: 3 threads; race: two free-running threads calling stream() for one topic simultaneously, and join-leave-then-8-simultaneous-stream() rounds (concurrent try_clone on a dead guard), no schedule points; hammer: 8 threads on bare guards without schedule points. Whether a look-up may proceed while another thread is parked inside stream() is asked of the real senders lock, not assumed. non-trivial = a counter drops to zero while another thread is inside stream(), or a stream() lookup happens while an Unsubscribe is still to be sent",
        false,
    );
    std::process::exit(0);
}
