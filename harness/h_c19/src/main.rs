//! C19 — Log sync delivers exactly the missing operations.
//!
//! Two real replicas (SQLite stores filled with real signed operations: several authors / logs,
//! overlapping prefixes, one side ahead / behind / missing / empty, pruned prefixes, holes, logs
//! stored but outside the session's scope) run the real `LogSync` against each other over
//! in-memory channels with a capacity far above the session's message count (C21 is not touched).
//! Compared with the Lean model (`P2/Model/SyncPair.lean`): both sink transcripts, the sequence of
//! `OperationReceived` events, the final metrics and the heights after ingesting what was received.
//! Each side's recorded I/O script is additionally replayed through the per-side state machine
//! model (`P2.Sync.run`, `side` lines).
//!
//! Oracle (direct, independent of the model): exactly-the-missing set, once, per-log ascending,
//! PreSync totals, convergence of heights on the shared scope.
use std::collections::{BTreeMap, BTreeSet};
use std::sync::Arc;

use futures::channel::mpsc;
use futures::{SinkExt, StreamExt};
use h_synclib::*;
use hc::{Args, Out, Rng, Tier};
use p2panda_core::{Hash, SeqNum, VerifyingKey};
use p2panda_store::SqliteStore;
use p2panda_store::logs::LogStore;
use p2panda_sync::protocols::{LogSync, LogSyncEvent, LogSyncMessage, Logs};
use p2panda_sync::traits::Protocol;
use tokio::sync::broadcast;

static WATCHDOG: std::sync::OnceLock<Watchdog> = std::sync::OnceLock::new();

#[derive(Clone, Debug, PartialEq, Eq, PartialOrd, Ord)]
enum LogState {
    OnlyA,
    OnlyB,
    AAhead,
    BAhead,
    Equal,
    Pruned,
    Hole,
    Neither,
}

struct Case {
    uni: Arc<Universe>,
    /// per replica: stored seqs per (author, log)
    stores: [BTreeMap<(usize, usize), BTreeSet<u32>>; 2],
    scopes: [BTreeMap<usize, Vec<usize>>; 2],
    states: Vec<LogState>,
    cap: usize,
}

fn build_case(seed: u64, tier: &Tier) -> Case {
    let mut rng = Rng::new(seed);
    let maxlen = match tier {
        Tier::Quick => 12,
        _ => 20,
    };
    // two thirds of the cases have enough logs (>= 6) to cover all six named states at once
    let big = rng.chance(2, 3);
    let na = if big { rng.range(3, 4) } else { rng.range(1, 4) } as usize;
    let mut uni = Universe::new(&mut rng, na);
    let mut logs = vec![];
    for a in 0..na {
        let nl = if big { rng.range(2, 3) } else { rng.range(1, 3) } as usize;
        for l in 0..nl {
            // log ids need not be dense
            let lid = l * (1 + rng.below(3) as usize);
            if logs.contains(&(a, lid)) {
                continue;
            }
            let len = rng.range(1, maxlen) as usize;
            uni.extend(&mut rng, a, lid, len);
            logs.push((a, lid));
        }
    }
    // cover the six named states first, then random ones
    let mut plan = vec![LogState::OnlyA, LogState::OnlyB, LogState::AAhead, LogState::BAhead, LogState::Equal, LogState::Pruned];
    rng.shuffle(&mut plan);
    let all = [
        LogState::OnlyA,
        LogState::OnlyB,
        LogState::AAhead,
        LogState::BAhead,
        LogState::Equal,
        LogState::Pruned,
        LogState::Hole,
        LogState::Neither,
    ];
    let mut stores = [BTreeMap::new(), BTreeMap::new()];
    let mut scopes: [BTreeMap<usize, Vec<usize>>; 2] = [BTreeMap::new(), BTreeMap::new()];
    let mut states = vec![];
    let empty_side = if rng.chance(1, 12) { Some(rng.below(2) as usize) } else { None };
    for (i, (a, l)) in logs.iter().enumerate() {
        let len = uni.chains[&(*a, *l)].len() as u32;
        let st = if i < plan.len() && rng.chance(5, 6) { plan[i].clone() } else { rng.pick(&all).clone() };
        let full = |hi: u32| -> BTreeSet<u32> { (0..=hi).collect() };
        let top = len - 1;
        let lower = if top == 0 { 0 } else { rng.below(top as u64) as u32 };
        let (sa, sb): (BTreeSet<u32>, BTreeSet<u32>) = match st {
            LogState::OnlyA => (full(rng.range(0, top as u64) as u32), BTreeSet::new()),
            LogState::OnlyB => (BTreeSet::new(), full(rng.range(0, top as u64) as u32)),
            LogState::AAhead => (full(top), if top == 0 { BTreeSet::new() } else { full(lower) }),
            LogState::BAhead => (if top == 0 { BTreeSet::new() } else { full(lower) }, full(top)),
            LogState::Equal => {
                let h = rng.range(0, top as u64) as u32;
                (full(h), full(h))
            }
            LogState::Pruned => {
                // prefix deleted up to a prune point on one or both sides
                let h1 = rng.range(0, top as u64) as u32;
                let h2 = rng.range(0, top as u64) as u32;
                let p1 = rng.range(0, h1 as u64) as u32;
                let p2 = if rng.chance(1, 2) { rng.range(0, h2 as u64) as u32 } else { 0 };
                let (x, y) = ((p1..=h1).collect(), (p2..=h2).collect());
                if rng.chance(1, 2) { (x, y) } else { (y, x) }
            }
            LogState::Hole => {
                let mut x = full(top);
                let mut y = full(lower);
                if top > 1 {
                    x.remove(&(rng.range(0, top as u64 - 1) as u32));
                }
                if lower > 1 && rng.chance(1, 2) {
                    y.remove(&(rng.range(0, lower as u64 - 1) as u32));
                }
                if rng.chance(1, 2) { (x, y) } else { (y, x) }
            }
            LogState::Neither => (BTreeSet::new(), BTreeSet::new()),
        };
        states.push(st);
        let pair = [sa, sb];
        for side in 0..2 {
            if Some(side) == empty_side {
                continue;
            }
            if !pair[side].is_empty() {
                stores[side].insert((*a, *l), pair[side].clone());
            }
        }
        for side in 0..2 {
            // mostly in scope; sometimes stored but not associated, sometimes associated but not stored
            if rng.chance(9, 10) {
                scopes[side].entry(*a).or_default().push(*l);
            }
        }
    }
    if rng.chance(1, 8) {
        // unsorted / repeated log ids in the `Vec<L>` of an author
        for side in 0..2 {
            if let Some(v) = scopes[side].values_mut().next() {
                if let Some(x) = v.first().cloned() {
                    v.push(x);
                }
                v.reverse();
            }
        }
    }
    let cap = if rng.chance(1, 5) { rng.range(1, 4) as usize } else { 1024 };
    Case { uni: Arc::new(uni), stores, scopes, states, cap }
}

struct ChanTx {
    inner: mpsc::Sender<Msg>,
    log: IoLog,
    sent: Arc<std::sync::Mutex<Vec<Msg>>>,
}
impl futures::Sink<Msg> for ChanTx {
    type Error = mpsc::SendError;
    fn poll_ready(mut self: std::pin::Pin<&mut Self>, cx: &mut std::task::Context<'_>) -> std::task::Poll<Result<(), Self::Error>> {
        self.inner.poll_ready_unpin(cx)
    }
    fn start_send(mut self: std::pin::Pin<&mut Self>, item: Msg) -> Result<(), Self::Error> {
        self.log.lock().unwrap().push("S+".into());
        self.sent.lock().unwrap().push(item.clone());
        self.inner.start_send_unpin(item)
    }
    fn poll_flush(mut self: std::pin::Pin<&mut Self>, cx: &mut std::task::Context<'_>) -> std::task::Poll<Result<(), Self::Error>> {
        self.inner.poll_flush_unpin(cx)
    }
    fn poll_close(mut self: std::pin::Pin<&mut Self>, cx: &mut std::task::Context<'_>) -> std::task::Poll<Result<(), Self::Error>> {
        self.inner.poll_close_unpin(cx)
    }
}

fn ops_tok(uni: &Universe, store: &BTreeMap<(usize, usize), BTreeSet<u32>>) -> String {
    let mut v = vec![];
    for ((a, l), seqs) in store {
        for s in seqs {
            let op = uni.op(*a, *l, *s);
            v.push(format!("{a}.{l}.{s}:{}/{}", op.uid, op.bytes));
        }
    }
    if v.is_empty() { "-".into() } else { v.join(",") }
}

struct SideOut {
    sent: Vec<String>,
    sent_ops: Vec<(usize, usize, u32)>,
    presync: Option<(u32, u32)>,
    recv: Vec<(usize, usize, u32)>,
    recv_uids: Vec<String>,
    fin: String,
    hts: String,
    heights_after: BTreeMap<(usize, usize), u32>,
    side_request: String,
    side_answer: String,
    err: Option<String>,
}

async fn run_pair(seed: u64, case: &Case) -> Vec<SideOut> {
    let uni = case.uni.clone();
    let (a_tx, b_rx) = mpsc::channel::<Msg>(8192);
    let (b_tx, a_rx) = mpsc::channel::<Msg>(8192);
    let mut txs = vec![Some(a_tx), Some(b_tx)];
    let mut rxs = vec![Some(a_rx), Some(b_rx)];
    let mut sessions = vec![];
    let mut handles = vec![];
    for side in 0..2 {
        let inner = SqliteStore::temporary().await;
        // rows are inserted in a random order: the queries, not the insertion order, must sort
        let mut rows: Vec<(usize, usize, u32)> = vec![];
        for ((a, l), seqs) in &case.stores[side] {
            for s in seqs {
                rows.push((*a, *l, *s));
            }
        }
        Rng::new(seed ^ (0xD1CE + side as u64)).shuffle(&mut rows);
        for (a, l, s) in rows {
            insert_op(&inner, uni.op(a, l, s)).await;
        }
        let log = new_log();
        let store = Interposed::new(inner.clone(), uni.clone(), log.clone(), vec![], None);
        let mut logs: Logs<L> = Logs::default();
        for (a, ls) in &case.scopes[side] {
            logs.insert(uni.vk(*a), ls.clone());
        }
        let (event_tx, event_rx) = broadcast::channel::<LogSyncEvent<E>>(8192);
        let session: LogSync<L, E, Interposed, LogSyncEvent<E>> = LogSync::new_with_capacity(store, logs, event_tx, case.cap);
        let sent = Arc::new(std::sync::Mutex::new(vec![]));
        let tx = ChanTx { inner: txs[side].take().unwrap(), log: log.clone(), sent: sent.clone() };
        let uni2 = uni.clone();
        let log2 = log.clone();
        let rx = rxs[side].take().unwrap().map(move |m: Msg| {
            log2.lock().unwrap().push(recv_tok(&uni2, &m));
            Ok::<_, ()>(m)
        });
        sessions.push((session, tx, rx));
        handles.push((log, sent, event_rx, inner));
    }
    let (s1, mut tx1, mut rx1) = sessions.pop().unwrap();
    let (s0, mut tx0, mut rx0) = sessions.pop().unwrap();
    let joined = tokio::time::timeout(std::time::Duration::from_secs(60), async {
        tokio::join!(s0.run(&mut tx0, &mut rx0), s1.run(&mut tx1, &mut rx1))
    })
    .await;
    let results = match joined {
        Ok((r0, r1)) => vec![Some(r0), Some(r1)],
        Err(_) => vec![None, None],
    };
    // union scope for the post-ingest heights
    let mut union: BTreeMap<usize, BTreeSet<usize>> = BTreeMap::new();
    for side in 0..2 {
        for (a, ls) in &case.scopes[side] {
            union.entry(*a).or_default().extend(ls.iter().cloned());
        }
    }
    let mut outs = vec![];
    for (side, (log, sent, mut event_rx, inner)) in handles.into_iter().enumerate() {
        let msgs = sent.lock().unwrap().clone();
        let sent_toks: Vec<String> = msgs.iter().map(|m| msg_tok(&uni, m)).collect();
        let mut sent_ops = vec![];
        let mut presync = None;
        for m in &msgs {
            match m {
                LogSyncMessage::Operation(hb, _) => {
                    if let Ok(h) = p2panda_core::cbor::decode_cbor::<p2panda_core::Header<E>, _>(&hb[..]) {
                        if let Some(op) = uni.find(&h.hash()) {
                            sent_ops.push((op.a, op.l, op.s));
                        }
                    }
                }
                LogSyncMessage::PreSync { total_operations, total_bytes } => presync = Some((*total_operations, *total_bytes)),
                _ => {}
            }
        }
        let mut recv = vec![];
        let mut recv_uids = vec![];
        let mut evs = vec![];
        let mut to_ingest = vec![];
        while let Ok(e) = event_rx.try_recv() {
            evs.push(event_tok(&uni, &e));
            if let LogSyncEvent::OperationReceived { operation, .. } = e {
                match uni.find(&operation.hash) {
                    Some(op) if op.header == operation.header && Some(&op.body) == operation.body.as_ref() => {
                        recv.push((op.a, op.l, op.s));
                        recv_uids.push(op.uid.to_string());
                        to_ingest.push(op.clone());
                    }
                    _ => recv_uids.push("?".into()),
                }
            }
        }
        let (fin, res, err) = match &results[side] {
            None => ("deadline".to_string(), "stuck".to_string(), Some("deadline".to_string())),
            Some(Ok((_, m))) => (metrics_tok(m), format!("ok({})", metrics_tok(m)), None),
            Some(Err(e)) => (format!("E:{}", err_tok(e)), format!("E:{}", err_tok(e)), Some(e.to_string())),
        };
        // ingest what was received, then read the heights over the union scope from the real store
        for op in &to_ingest {
            insert_op(&inner, op).await;
        }
        let mut hts: BTreeMap<VerifyingKey, BTreeMap<L, SeqNum>> = BTreeMap::new();
        let mut heights_after = BTreeMap::new();
        for (a, ls) in &union {
            let ls: Vec<usize> = ls.iter().cloned().collect();
            if let Some(m) = <SqliteStore as LogStore<Op, VerifyingKey, L, SeqNum, Hash>>::get_log_heights(&inner, &uni.vk(*a), &ls)
                .await
                .expect("heights")
            {
                for (l, s) in &m {
                    heights_after.insert((*a, *l), *s);
                }
                hts.insert(uni.vk(*a), m);
            }
        }
        let items = log.lock().unwrap().join(" ");
        let side_request = format!(
            "side #{seed}.{} cap={} rx=1 scope={} | {}",
            if side == 0 { "A" } else { "B" },
            case.cap,
            scope_tok(&case.scopes[side]),
            items
        );
        let side_answer = format!("sent={} | ev={} | res={}", sent_toks.join(" "), evs.join(" "), res);
        outs.push(SideOut {
            sent: sent_toks,
            sent_ops,
            presync,
            recv,
            recv_uids,
            fin,
            hts: heights_tok(&uni, &hts),
            heights_after,
            side_request,
            side_answer,
            err,
        });
    }
    outs
}

/// The property's predicate, evaluated on the case description and the implementation's outputs.
fn oracle(case: &Case, outs: &[SideOut]) -> Vec<(&'static str, String)> {
    let mut fails = vec![];
    let uni = &case.uni;
    for (x, y) in [(0usize, 1usize), (1, 0)] {
        // y receives from x
        let in_scope = |side: usize, a: usize, l: usize| case.scopes[side].get(&a).map(|v| v.contains(&l)).unwrap_or(false);
        let height = |side: usize, a: usize, l: usize| -> Option<u32> {
            if !in_scope(side, a, l) {
                return None;
            }
            case.stores[side].get(&(a, l)).and_then(|s| s.iter().max().cloned())
        };
        let mut expected: BTreeSet<(usize, usize, u32)> = BTreeSet::new();
        for ((a, l), seqs) in &case.stores[x] {
            if !in_scope(x, *a, *l) {
                continue;
            }
            for s in seqs {
                let missing = match height(y, *a, *l) {
                    None => true,
                    Some(h) => *s > h,
                };
                if missing {
                    expected.insert((*a, *l, *s));
                }
            }
        }
        let got: BTreeSet<(usize, usize, u32)> = outs[y].recv.iter().cloned().collect();
        let name = if y == 0 { "A" } else { "B" };
        if let Some(m) = expected.difference(&got).next() {
            fails.push(("exact-missing", format!("{name} did not receive {m:?} although the sender stores it in scope above the receiver's height")));
        }
        if let Some(m) = got.difference(&expected).next() {
            fails.push(("exact-extra", format!("{name} received {m:?} which is not above its height / not in the sender's scope")));
        }
        if got.len() != outs[y].recv.len() || outs[y].recv_uids.iter().any(|u| u == "?") {
            fails.push(("duplicate-or-foreign", format!("{name} received an operation twice or one that is not the stored operation")));
        }
        let mut last: BTreeMap<(usize, usize), u32> = BTreeMap::new();
        for (a, l, s) in &outs[y].recv {
            if let Some(p) = last.get(&(*a, *l)) {
                if p >= s {
                    fails.push(("order", format!("{name} received log ({a},{l}) out of order: {p} before {s}")));
                    break;
                }
            }
            last.insert((*a, *l), *s);
        }
        // PreSync announces exactly what is sent
        let n = outs[x].sent_ops.len() as u32;
        let b: usize = outs[x].sent_ops.iter().map(|(a, l, s)| uni.op(*a, *l, *s).bytes).sum();
        match outs[x].presync {
            Some((pn, pb)) if pn != n || pb as usize != b => {
                fails.push(("presync-metrics", format!("PreSync announced ({pn},{pb}) but ({n},{b}) was sent")));
            }
            None if n > 0 => fails.push(("presync-metrics", "operations sent without PreSync".to_string())),
            _ => {}
        }
        if let Some(e) = &outs[x].err {
            fails.push(("session-error", format!("honest session ended with {e}")));
        }
    }
    // convergence on the shared scope
    for (a, ls) in &case.scopes[0] {
        for l in ls {
            if case.scopes[1].get(a).map(|v| v.contains(l)).unwrap_or(false) {
                let ha = outs[0].heights_after.get(&(*a, *l));
                let hb = outs[1].heights_after.get(&(*a, *l));
                if ha != hb {
                    fails.push(("converge", format!("after ingest heights of shared log ({a},{l}) differ: A={ha:?} B={hb:?}")));
                }
            }
        }
    }
    fails
}

fn emit(out: &mut Out, rtm: &tokio::runtime::Runtime, seed: u64, tier: &Tier) {
    if let Some(w) = WATCHDOG.get() {
        w.begin(&format!("pair #{seed} (no answer: the pair did not return)"));
    }
    let case = build_case(seed, tier);
    let outs = rtm.block_on(run_pair(seed, &case));
    let request = format!(
        "pair #{seed} cap={} A scope={} ops={} B scope={} ops={}",
        case.cap,
        scope_tok(&case.scopes[0]),
        ops_tok(&case.uni, &case.stores[0]),
        scope_tok(&case.scopes[1]),
        ops_tok(&case.uni, &case.stores[1])
    );
    let side = |o: &SideOut| format!("sent={} recv={} fin={} hts={}", o.sent.join(" "), o.recv_uids.join(","), o.fin, o.hts);
    let answer = format!("A: {} | B: {}", side(&outs[0]), side(&outs[1]));
    let named = [LogState::OnlyA, LogState::OnlyB, LogState::AAhead, LogState::BAhead, LogState::Equal, LogState::Pruned];
    let nt = named.iter().all(|s| case.states.contains(s));
    let n = out.case(&request, &answer, nt);
    for st in &case.states {
        out.count(&format!("log-state:{st:?}"));
    }
    out.count(&format!("logs={}", case.states.len()));
    out.count(&format!("cap={}", if case.cap > 8 { "1024".to_string() } else { case.cap.to_string() }));
    out.count_n("ops-received", (outs[0].recv.len() + outs[1].recv.len()) as u64);
    if outs[0].recv.is_empty() && outs[1].recv.is_empty() {
        out.count("nothing-to-sync");
    }
    for (tag, what) in oracle(&case, &outs) {
        out.oracle_fail(n, tag, &what, &request, &answer);
    }
    for o in &outs {
        out.case(&o.side_request, &o.side_answer, false);
    }
    if let Some(w) = WATCHDOG.get() {
        w.idle();
    }
}

fn main() {
    let args = Args::parse();
    let mut out = Out::new(&args.out);
    let rtm = tokio::runtime::Builder::new_current_thread().enable_all().build().unwrap();
    let _ = WATCHDOG.set(Watchdog::start(args.out.clone(), std::time::Duration::from_secs(90), "session-never-returns"));
    if args.mode == "replay" {
        let text = std::fs::read_to_string(args.replay.as_ref().expect("replay file")).unwrap();
        let v: hc::serde_json::Value = hc::serde_json::from_str(&text).unwrap();
        let req = v["request"].as_str().unwrap().to_string();
        let id = req.split_whitespace().find(|t| t.starts_with('#')).unwrap().trim_start_matches('#').to_string();
        let seed: u64 = id.split('.').next().unwrap().parse().unwrap();
        // thorough sizes are a superset; the tier of the failing run is kept in the file
        let tier = if v["tier"].as_str() == Some("quick") || seed % 2 == 0 { Tier::Quick } else { Tier::Thorough };
        emit(&mut out, &rtm, seed, &tier);
        out.finish("replay", false);
        return;
    }
    let n = match args.tier {
        Tier::Quick => 300,
        Tier::Thorough => 5000,
        Tier::Search => 1500,
    };
    let mut rng = Rng::new(args.seed);
    for _ in 0..n {
        // the parity of the seed encodes the size class so that a replay regenerates the same case
        let mut seed = rng.next_u64() % 1_000_000_000;
        let quick = args.tier == Tier::Quick;
        if (seed % 2 == 0) != quick {
            seed += 1;
        }
        let tier = if quick { Tier::Quick } else { Tier::Thorough };
        emit(&mut out, &rtm, seed, &tier);
    }
    out.finish(
        "random pairs of replicas: 1-4 authors x 1-3 logs, log states {only A, only B, A ahead, B ahead, equal, pruned prefix, hole, neither}, scopes that omit stored logs or name unstored ones, one side empty, dedup capacity 1-4 or 1024. non-trivial = the pair has at least one log in each of the states only-A, only-B, A-ahead, B-ahead, equal, pruned",
        false,
    );
}
