//! C32 — Group state merge is commutative, associative and idempotent.
//! Drives the real `p2panda_auth` `state::merge` (crate-private; reached through the cfg hook
//! `p2panda_auth::verif`) on `GroupMembersState<u8, C>` for `C = ()` and a totally ordered
//! `C = Cond(u8)`.
//!
//! Request lines (see lean/Drv/C32.lean): `p <A> <B>` and `t <A> <B> <C>`; a state is `_` or
//! `k:mc:ac:lvl:cond` entries joined by `,` (`cond` `-` = None; `()` is sent as `0`).
use hc::{Args, Out, Rng, Tier};
use p2panda_auth::group::GroupMembersState;
use p2panda_auth::traits::Conditions;
use p2panda_auth::verif;
use p2panda_auth::{Access, AccessLevel};

/// (key, member_counter, access_counter, level 0..3, condition)
type Entry = (u8, usize, usize, u8, Option<u8>);
type Spec = Vec<Entry>;

trait CondT: Conditions {
    fn from_u8(x: u8) -> Self;
    fn to_u8(&self) -> u8;
}
impl CondT for () {
    fn from_u8(_: u8) -> Self {}
    fn to_u8(&self) -> u8 {
        0
    }
}
/// A totally ordered conditions type (derived `PartialOrd` on a `u8`), e.g. an expiry time.
#[derive(Clone, Debug, PartialEq, PartialOrd)]
struct Cond(u8);
impl Conditions for Cond {}
impl CondT for Cond {
    fn from_u8(x: u8) -> Self {
        Cond(x)
    }
    fn to_u8(&self) -> u8 {
        self.0
    }
}

fn level(l: u8) -> AccessLevel {
    match l {
        0 => AccessLevel::Pull,
        1 => AccessLevel::Read,
        2 => AccessLevel::Write,
        _ => AccessLevel::Manage,
    }
}
fn level_no(l: &AccessLevel) -> u8 {
    match l {
        AccessLevel::Pull => 0,
        AccessLevel::Read => 1,
        AccessLevel::Write => 2,
        AccessLevel::Manage => 3,
    }
}

fn build<C: CondT>(spec: &Spec) -> GroupMembersState<u8, C> {
    verif::members_state(
        spec.iter()
            .map(|(k, mc, ac, l, c)| {
                let access = Access {
                    conditions: c.map(C::from_u8),
                    level: level(*l),
                };
                (*k, verif::member_state(*mc, access, *ac))
            })
            .collect(),
    )
}

fn dump<C: CondT>(s: &GroupMembersState<u8, C>) -> Spec {
    let mut v: Spec = verif::members_state_entries(s)
        .into_iter()
        .map(|(k, (mc, a, ac))| (k, mc, ac, level_no(&a.level), a.conditions.map(|c| c.to_u8())))
        .collect();
    v.sort();
    v
}

fn show(s: &Spec) -> String {
    if s.is_empty() {
        return "_".into();
    }
    let mut s = s.clone();
    s.sort();
    s.iter()
        .map(|(k, mc, ac, l, c)| {
            format!(
                "{k}:{mc}:{ac}:{l}:{}",
                match c {
                    None => "-".to_string(),
                    Some(c) => c.to_string(),
                }
            )
        })
        .collect::<Vec<_>>()
        .join(",")
}

fn parse_state(t: &str) -> Option<Spec> {
    if t == "_" {
        return Some(vec![]);
    }
    let mut v = vec![];
    for e in t.split(',') {
        let f: Vec<&str> = e.split(':').collect();
        if f.len() != 5 {
            return None;
        }
        let c = if f[4] == "-" { None } else { Some(f[4].parse().ok()?) };
        v.push((f[0].parse().ok()?, f[1].parse().ok()?, f[2].parse().ok()?, f[3].parse().ok()?, c));
    }
    Some(v)
}

fn mg<C: CondT>(a: &Spec, b: &Spec) -> Spec {
    dump(&verif::merge(build::<C>(a), build::<C>(b)))
}

fn get(s: &Spec, k: u8) -> Option<Entry> {
    s.iter().find(|e| e.0 == k).cloned()
}

/// First key on which two canonical states differ.
fn diff_key(x: &Spec, y: &Spec) -> Option<u8> {
    let mut keys: Vec<u8> = x.iter().chain(y.iter()).map(|e| e.0).collect();
    keys.sort();
    keys.dedup();
    keys.into_iter().find(|k| get(x, *k) != get(y, *k))
}

/// nt rule: some member present on both sides with equal counters and different accesses.
fn tie(a: &Spec, b: &Spec) -> bool {
    a.iter().any(|x| {
        b.iter()
            .any(|y| x.0 == y.0 && x.1 == y.1 && x.2 == y.2 && (x.3, x.4) != (y.3, y.4))
    })
}

fn has_cond(es: &[Option<Entry>]) -> bool {
    es.iter().flatten().any(|e| e.4.is_some())
}

struct Verdict {
    answer: String,
    fail: Option<(String, String)>,
}

fn pair_on<C: CondT>(a: &Spec, b: &Spec) -> Verdict {
    let ab = mg::<C>(a, b);
    let ba = mg::<C>(b, a);
    let aa = mg::<C>(a, a);
    let answer = format!("{}|{}|{}", show(&ab), show(&ba), show(&aa));
    let mut fail = None;
    if let Some(k) = diff_key(&ab, &ba) {
        let (x, y) = (get(a, k), get(b, k));
        let tag = match (&x, &y) {
            (Some(x), Some(y)) if x.1 == y.1 && x.2 == y.2 => {
                if x.4.is_some() || y.4.is_some() {
                    "comm-equal-counters-conditions"
                } else {
                    "comm-equal-counters-levels"
                }
            }
            _ => "comm-counters",
        };
        fail = Some((
            tag.to_string(),
            format!("merge(A,B) != merge(B,A) at member {k}: {:?} vs {:?}", get(&ab, k), get(&ba, k)),
        ));
    } else {
        let mut a_sorted = a.clone();
        a_sorted.sort();
        if aa != a_sorted {
            fail = Some(("idem".to_string(), format!("merge(A,A) = {} != A", show(&aa))));
        }
    }
    Verdict { answer, fail }
}

fn triple_on<C: CondT>(a: &Spec, b: &Spec, c: &Spec) -> Verdict {
    let l = dump(&verif::merge(verif::merge(build::<C>(a), build::<C>(b)), build::<C>(c)));
    let r = dump(&verif::merge(build::<C>(a), verif::merge(build::<C>(b), build::<C>(c))));
    let answer = format!("{}|{}", show(&l), show(&r));
    let mut fail = None;
    if let Some(k) = diff_key(&l, &r) {
        let tag = if has_cond(&[get(a, k), get(b, k), get(c, k)]) {
            "assoc-conditions"
        } else {
            "assoc"
        };
        fail = Some((
            tag.to_string(),
            format!("(AB)C != A(BC) at member {k}: {:?} vs {:?}", get(&l, k), get(&r, k)),
        ));
    }
    Verdict { answer, fail }
}

/// `unit`: run on `C = ()` (only condition value 0 may occur), else on `C = Cond(u8)`.
fn emit_pair(out: &mut Out, unit: bool, a: &Spec, b: &Spec) {
    let req = format!("p {} {}", show(a), show(b));
    let r = hc::catch(|| if unit { pair_on::<()>(a, b) } else { pair_on::<Cond>(a, b) });
    let nt = tie(a, b);
    out.count(if unit { "pairs C=()" } else { "pairs C=u8" });
    if nt {
        out.count("pairs with a tie (equal counters, different accesses)");
    }
    match r {
        Ok(v) => {
            let n = out.case(&req, &v.answer, nt);
            if let Some((tag, what)) = v.fail {
                out.oracle_fail(n, &tag, &what, &req, &v.answer);
            }
        }
        Err(e) => {
            let n = out.case(&req, "PANIC", nt);
            out.oracle_fail(n, "panic", &e, &req, "PANIC");
        }
    }
}

fn emit_triple(out: &mut Out, unit: bool, a: &Spec, b: &Spec, c: &Spec) {
    let req = format!("t {} {} {}", show(a), show(b), show(c));
    let r = hc::catch(|| if unit { triple_on::<()>(a, b, c) } else { triple_on::<Cond>(a, b, c) });
    let nt = tie(a, b) || tie(b, c) || tie(a, c);
    out.count(if unit { "triples C=()" } else { "triples C=u8" });
    if nt {
        out.count("triples with a tie");
    }
    match r {
        Ok(v) => {
            let n = out.case(&req, &v.answer, nt);
            if let Some((tag, what)) = v.fail {
                out.oracle_fail(n, &tag, &what, &req, &v.answer);
            }
        }
        Err(e) => {
            let n = out.case(&req, "PANIC", nt);
            out.oracle_fail(n, "panic", &e, &req, "PANIC");
        }
    }
}

/// All member states over the given small domains (plus "absent" as `None`).
fn domain(key: u8, mcs: &[usize], acs: &[usize], lvls: &[u8], conds: &[Option<u8>]) -> Vec<Option<Entry>> {
    let mut v = vec![None];
    for &mc in mcs {
        for &ac in acs {
            for &l in lvls {
                for &c in conds {
                    v.push(Some((key, mc, ac, l, c)));
                }
            }
        }
    }
    v
}

fn st(es: &[&Option<Entry>]) -> Spec {
    es.iter().filter_map(|e| **e).collect()
}

fn random_state(rng: &mut Rng, nkeys: u64, maxc: u64, conds: &[Option<u8>]) -> Spec {
    let mut s = vec![];
    for k in 0..nkeys {
        if rng.chance(3, 4) {
            let c = *rng.pick(conds);
            s.push((k as u8, rng.below(maxc + 1) as usize, rng.below(maxc) as usize, rng.below(4) as u8, c));
        }
    }
    rng.shuffle(&mut s);
    s
}

const UNIT_CONDS: [Option<u8>; 2] = [None, Some(0)];

fn main() {
    let args = Args::parse();
    let mut out = Out::new(&args.out);
    if args.mode == "replay" {
        let text = std::fs::read_to_string(args.replay.as_ref().expect("replay file")).unwrap();
        let v: hc::serde_json::Value = hc::serde_json::from_str(&text).unwrap();
        let req = v["request"].as_str().unwrap().to_string();
        let t: Vec<&str> = req.split_whitespace().collect();
        let states: Vec<Spec> = t[1..].iter().map(|s| parse_state(s).expect("state")).collect();
        let unit_ok = states.iter().flatten().all(|e| e.4.is_none() || e.4 == Some(0));
        for unit in [false, true] {
            if unit && !unit_ok {
                continue;
            }
            match (t[0], states.len()) {
                ("p", 2) => emit_pair(&mut out, unit, &states[0], &states[1]),
                ("t", 3) => emit_triple(&mut out, unit, &states[0], &states[1], &states[2]),
                _ => panic!("bad replay request"),
            }
        }
        out.finish("replay", false);
        return;
    }
    let mut rng = Rng::new(args.seed);
    let quick = args.tier == Tier::Quick;

    // The witness of the defect found on the pinned tree (DESIGN.md §5) always runs first.
    emit_pair(&mut out, false, &vec![(0, 1, 0, 1, None)], &vec![(0, 1, 0, 1, Some(0))]);
    emit_pair(&mut out, true, &vec![(0, 1, 0, 1, None)], &vec![(0, 1, 0, 1, Some(0))]);
    emit_pair(&mut out, false, &vec![(0, 1, 0, 1, Some(5))], &vec![(0, 1, 0, 2, Some(3))]);
    emit_triple(
        &mut out,
        false,
        &vec![(0, 1, 0, 1, None)],
        &vec![(0, 1, 0, 2, Some(3))],
        &vec![(0, 1, 0, 1, Some(5))],
    );

    // ---- exhaustive, one member: every pair and every triple of member states ---------------
    let lv = [0u8, 1, 2, 3];
    let (mcs, acs, conds): (Vec<usize>, Vec<usize>, Vec<Option<u8>>) = if quick {
        (vec![0, 1, 2], vec![0, 1], vec![None, Some(0), Some(1)])
    } else {
        (vec![0, 1, 2, 3], vec![0, 1, 2], vec![None, Some(0), Some(1), Some(2)])
    };
    let d1 = domain(0, &mcs, &acs, &lv, &conds);
    let d1u = domain(0, &mcs, &acs, &lv, &UNIT_CONDS);
    for (unit, d) in [(false, &d1), (true, &d1u)] {
        for x in d.iter() {
            for y in d.iter() {
                emit_pair(&mut out, unit, &st(&[x]), &st(&[y]));
            }
        }
    }
    // triples: exhaustive over a domain chosen so that the count stays within the tier budget
    let (tm, ta): (Vec<usize>, Vec<usize>) = (vec![0, 1, 2], vec![0, 1]);
    let d3 = domain(0, &tm, &ta, &lv, &conds);
    let d3u = domain(0, &tm, &ta, &lv, &UNIT_CONDS);
    for (unit, d) in [(false, &d3), (true, &d3u)] {
        for x in d.iter() {
            for y in d.iter() {
                for z in d.iter() {
                    emit_triple(&mut out, unit, &st(&[x]), &st(&[y]), &st(&[z]));
                }
            }
        }
    }
    out.extra.insert("exhaustive_one_member_pairs_domain".into(), (d1.len() as u64).into());
    out.extra.insert("exhaustive_one_member_triples_domain".into(), (d3.len() as u64).into());

    // ---- exhaustive, two members, reduced domains: every pair of states ---------------------
    let e0 = domain(0, &[1, 2], &[0, 1], &[1, 2], &[None, Some(0), Some(1)]);
    let e1 = domain(1, &[1, 2], &[0], &[1, 3], &[None, Some(1)]);
    for x0 in e0.iter() {
        for x1 in e1.iter() {
            for y0 in e0.iter() {
                for y1 in e1.iter() {
                    // members stored in both insertion orders
                    emit_pair(&mut out, false, &st(&[x1, x0]), &st(&[y0, y1]));
                }
            }
        }
    }

    // ---- random: 1–4 members (thorough: up to 6), larger counters ----------------------------
    let (npairs, ntriples) = match args.tier {
        Tier::Quick => (30_000, 60_000),
        Tier::Thorough => (600_000, 2_500_000),
        Tier::Search => (400_000, 1_200_000),
    };
    let all_conds: Vec<Option<u8>> = vec![None, None, Some(0), Some(1), Some(2), Some(7)];
    for i in 0..npairs {
        let unit = i % 4 == 0;
        let cs: &[Option<u8>] = if unit { &UNIT_CONDS } else { &all_conds };
        let nk = rng.range(1, if quick { 4 } else { 6 });
        let maxc = if rng.chance(1, 5) { 6 } else { 2 };
        let a = random_state(&mut rng, nk, maxc, cs);
        let b = random_state(&mut rng, nk, maxc, cs);
        emit_pair(&mut out, unit, &a, &b);
    }
    for i in 0..ntriples {
        let unit = i % 4 == 0;
        let cs: &[Option<u8>] = if unit { &UNIT_CONDS } else { &all_conds };
        let nk = rng.range(1, 3);
        // few distinct counter values so that ties (the interesting branch) are frequent
        let maxc = if rng.chance(1, 5) { 4 } else { 1 };
        let a = random_state(&mut rng, nk, maxc, cs);
        let b = random_state(&mut rng, nk, maxc, cs);
        let c = random_state(&mut rng, nk, maxc, cs);
        emit_triple(&mut out, unit, &a, &b, &c);
    }

    // ---- malformed stream: the model driver must answer `bad-op`, never a default ------------
    for bad in ["p 0:1:0:9:- _", "p 0:1:0:1:-,0:2:0:1:- _", "t _ _", "q _ _", "p 0:1:0:1 _", "p 0:x:0:1:- _"] {
        out.case(bad, "bad-op", false);
        out.count("malformed requests");
    }

    out.finish(
        "exhaustive: every pair (commutativity, idempotence) and every triple (associativity) of single-member states over the listed counter / access-counter / level / condition domains (absent included) for C = () and C = u8, plus every pair of two-member states over reduced domains; random: 1-6 members, counters up to 6. non-trivial = some member present on both sides with equal counters and different accesses (the tie-break branch)",
        true,
    );
}
