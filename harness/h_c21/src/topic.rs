//! Part C of the C21 harness: `TopicLogSync` pairs (live mode on and off) over a **buffering**
//! transport, the shape of p2panda-net's codec (`FramedWrite`) over a byte pipe: `start_send`
//! only appends to a local buffer, `poll_flush` moves buffered messages into a bounded pipe while
//! it has room and is `Pending` otherwise, `poll_ready` insists on the buffer being below a
//! high-water mark.  The sessions reach this sink through `LogSyncSink`, the adapter of
//! `topic_log_sync.rs`; a `send` of the inner `LogSync` may therefore only resolve once the
//! transport's flush completed — otherwise the tail of the sync phase (the last operations and
//! `Done`) stays in the local buffer of a side that has moved on to live mode and only reads.
//!
//! In the LTS (`P2/Model/SyncSched.lean`) this transport is the channel with capacity
//! `c = pipe size`: a send resolves iff all of the sender's messages fit into the pipe.
use std::cell::RefCell;
use std::collections::VecDeque;
use std::pin::Pin;
use std::rc::Rc;
use std::sync::Arc;
use std::task::{Context, Poll};

use futures::channel::mpsc;
use futures::{Sink, SinkExt, Stream, StreamExt};
use h_synclib::*;
use hc::{Out, Rng};
use p2panda_core::Topic;
use p2panda_sync::ToSync;
use p2panda_sync::protocols::{TopicLogSync, TopicLogSyncEvent, TopicLogSyncMessage};
use p2panda_sync::traits::Protocol;
use tokio::sync::broadcast;

use crate::{Sched, btok, static_verdict, sync_total};

type TMsg = TopicLogSyncMessage<L, E>;

#[derive(Default)]
struct Probe {
    enq: usize,
    waiting: bool,
    recvd: usize,
    buffered: usize,
}

struct BufSink {
    buf: VecDeque<TMsg>,
    pipe: mpsc::Sender<TMsg>,
    hw: usize,
    sched: Sched,
    name: char,
    probe: Rc<RefCell<Probe>>,
}

impl BufSink {
    /// the session is back in the sink although the last sync send was not reported flushed:
    /// that send has resolved (through the adapter) without our flush completing
    fn resolved(&mut self) {
        if self.probe.borrow().waiting {
            self.probe.borrow_mut().waiting = false;
            let n = self.name;
            self.sched.borrow_mut().push(format!("{n}f"));
        }
    }
    fn drain(&mut self, cx: &mut Context<'_>) -> Poll<Result<(), mpsc::SendError>> {
        while !self.buf.is_empty() {
            match self.pipe.poll_ready_unpin(cx) {
                Poll::Ready(Ok(())) => {
                    let m = self.buf.pop_front().unwrap();
                    self.probe.borrow_mut().buffered = self.buf.len();
                    self.pipe.start_send_unpin(m)?;
                }
                Poll::Ready(Err(e)) => return Poll::Ready(Err(e)),
                Poll::Pending => return Poll::Pending,
            }
        }
        Poll::Ready(Ok(()))
    }
}

impl Sink<TMsg> for BufSink {
    type Error = mpsc::SendError;
    fn poll_ready(self: Pin<&mut Self>, cx: &mut Context<'_>) -> Poll<Result<(), Self::Error>> {
        let this = self.get_mut();
        this.resolved();
        if this.buf.len() >= this.hw {
            futures::ready!(this.drain(cx))?;
        }
        Poll::Ready(Ok(()))
    }
    fn start_send(self: Pin<&mut Self>, item: TMsg) -> Result<(), Self::Error> {
        let this = self.get_mut();
        this.resolved();
        if matches!(item, TopicLogSyncMessage::Sync(_)) {
            let n = this.name;
            this.sched.borrow_mut().push(format!("{n}e"));
            let mut p = this.probe.borrow_mut();
            p.enq += 1;
            p.waiting = true;
        }
        this.buf.push_back(item);
        this.probe.borrow_mut().buffered = this.buf.len();
        Ok(())
    }
    fn poll_flush(self: Pin<&mut Self>, cx: &mut Context<'_>) -> Poll<Result<(), Self::Error>> {
        let this = self.get_mut();
        futures::ready!(this.drain(cx))?;
        this.resolved();
        Poll::Ready(Ok(()))
    }
    fn poll_close(self: Pin<&mut Self>, cx: &mut Context<'_>) -> Poll<Result<(), Self::Error>> {
        let this = self.get_mut();
        futures::ready!(this.drain(cx))?;
        this.resolved();
        this.pipe.poll_close_unpin(cx)
    }
}

struct PipeRx {
    inner: mpsc::Receiver<TMsg>,
    sched: Sched,
    name: char,
    probe: Rc<RefCell<Probe>>,
}
impl Stream for PipeRx {
    type Item = Result<TMsg, ()>;
    fn poll_next(mut self: Pin<&mut Self>, cx: &mut Context<'_>) -> Poll<Option<Self::Item>> {
        match self.inner.poll_next_unpin(cx) {
            Poll::Ready(Some(m)) => {
                if matches!(m, TopicLogSyncMessage::Sync(_)) {
                    let n = self.name;
                    self.sched.borrow_mut().push(format!("{n}r"));
                    self.probe.borrow_mut().recvd += 1;
                }
                Poll::Ready(Some(Ok(m)))
            }
            Poll::Ready(None) => Poll::Ready(None),
            Poll::Pending => Poll::Pending,
        }
    }
}

#[derive(Clone, Debug)]
pub struct TConfig {
    /// messages the pipe holds
    pub pipe: usize,
    /// high-water mark of the local buffer (messages)
    pub hw: usize,
    pub live: bool,
    pub logs: Vec<(usize, usize, usize)>,
    pub b_first: bool,
}

impl TConfig {
    pub fn batches(&self) -> (Vec<usize>, Vec<usize>) {
        (
            self.logs.iter().filter(|l| l.1 > 0).map(|l| l.1).collect(),
            self.logs.iter().filter(|l| l.2 > 0).map(|l| l.2).collect(),
        )
    }
    pub fn id(&self) -> String {
        let ls: Vec<String> = self.logs.iter().map(|(p, a, b)| format!("{p}.{a}.{b}")).collect();
        format!("#T{}:{}:{}:{}:{}", self.pipe, self.hw, if self.live { 1 } else { 0 }, ls.join("_"), if self.b_first { 1 } else { 0 })
    }
    pub fn parse(id: &str) -> TConfig {
        let parts: Vec<&str> = id.trim_start_matches("#T").split(':').collect();
        let logs = if parts[3].is_empty() {
            vec![]
        } else {
            parts[3]
                .split('_')
                .map(|t| {
                    let v: Vec<usize> = t.split('.').map(|x| x.parse().unwrap()).collect();
                    (v[0], v[1], v[2])
                })
                .collect()
        };
        TConfig { pipe: parts[0].parse().unwrap(), hw: parts[1].parse().unwrap(), live: parts[2] == "1", logs, b_first: parts[4] == "1" }
    }
}

async fn wait_sync_finished(rx: &mut broadcast::Receiver<TopicLogSyncEvent<E>>) -> bool {
    loop {
        match rx.recv().await {
            Ok(TopicLogSyncEvent::SyncFinished { .. }) => return true,
            Ok(TopicLogSyncEvent::Failed { .. }) | Err(_) => return false,
            Ok(_) => {}
        }
    }
}

pub fn emit_topic(out: &mut Out, uni: &Arc<Universe>, cfg: &TConfig) {
    let rt = tokio::runtime::Builder::new_current_thread().enable_all().start_paused(true).build().unwrap();
    let sched: Sched = Rc::new(RefCell::new(vec![]));
    let (ba, bb) = cfg.batches();
    let stores = [MemStore::default(), MemStore::default()];
    for (x, (base, ea, eb)) in cfg.logs.iter().enumerate() {
        for s in 0..(base + ea) {
            stores[0].insert(uni.op(x, 0, s as u32));
        }
        for s in 0..(base + eb) {
            stores[1].insert(uni.op(x, 0, s as u32));
        }
        for st in &stores {
            st.scope.lock().unwrap().insert(uni.vk(x), vec![0]);
        }
    }
    let (a_tx, b_rx) = mpsc::channel::<TMsg>(cfg.pipe - 1);
    let (b_tx, a_rx) = mpsc::channel::<TMsg>(cfg.pipe - 1);
    let probes = [Rc::new(RefCell::new(Probe::default())), Rc::new(RefCell::new(Probe::default()))];
    let mut tx_a = BufSink { buf: VecDeque::new(), pipe: a_tx, hw: cfg.hw, sched: sched.clone(), name: 'A', probe: probes[0].clone() };
    let mut tx_b = BufSink { buf: VecDeque::new(), pipe: b_tx, hw: cfg.hw, sched: sched.clone(), name: 'B', probe: probes[1].clone() };
    let mut rx_a = PipeRx { inner: a_rx, sched: sched.clone(), name: 'A', probe: probes[0].clone() };
    let mut rx_b = PipeRx { inner: b_rx, sched: sched.clone(), name: 'B', probe: probes[1].clone() };
    let (ev_a, mut evrx_a) = broadcast::channel::<TopicLogSyncEvent<E>>(4096);
    let (ev_b, mut evrx_b) = broadcast::channel::<TopicLogSyncEvent<E>>(4096);
    let (mut live_a, live_rx_a) = mpsc::channel::<ToSync<Op>>(4);
    let (_live_b, live_rx_b) = mpsc::channel::<ToSync<Op>>(4);
    let topic = Topic::from([5u8; 32]);
    let sa: TopicLogSync<Topic, MemStore, L, E> = TopicLogSync::new(topic, stores[0].clone(), if cfg.live { Some(live_rx_a) } else { None }, ev_a);
    let sb: TopicLogSync<Topic, MemStore, L, E> = TopicLogSync::new(topic, stores[1].clone(), if cfg.live { Some(live_rx_b) } else { None }, ev_b);
    let sf = Rc::new(RefCell::new([false, false]));
    let ended = Rc::new(RefCell::new([false, false]));
    let (sf2, e_a, e_b) = (sf.clone(), ended.clone(), ended.clone());
    let live = cfg.live;
    let b_first = cfg.b_first;
    rt.block_on(async {
        let fa = async {
            let _ = sa.run(&mut tx_a, &mut rx_a).await;
            e_a.borrow_mut()[0] = true;
        };
        let fb = async {
            let _ = sb.run(&mut tx_b, &mut rx_b).await;
            e_b.borrow_mut()[1] = true;
        };
        // the application does nothing until both sync phases are over; then (live mode) it closes
        let controller = async {
            let a = wait_sync_finished(&mut evrx_a).await;
            sf2.borrow_mut()[0] = a;
            let b = wait_sync_finished(&mut evrx_b).await;
            sf2.borrow_mut()[1] = b;
            if live {
                let _ = live_a.send(ToSync::Close).await;
            }
        };
        let _ = tokio::time::timeout(std::time::Duration::from_secs(3600), async {
            if b_first {
                tokio::join!(fb, fa, controller);
            } else {
                tokio::join!(fa, fb, controller);
            }
        })
        .await;
    });
    // a side whose SyncFinished was not awaited yet by the controller may still have it queued
    let mut sfv = *sf.borrow();
    if !sfv[1] {
        while let Ok(e) = evrx_b.try_recv() {
            if matches!(e, TopicLogSyncEvent::SyncFinished { .. }) {
                sfv[1] = true;
            }
        }
    }
    let endv = *ended.borrow();
    let side = |i: usize| {
        let p = probes[i].borrow();
        if sfv[i] && !p.waiting {
            "done".to_string()
        } else if p.waiting {
            format!("send#{}", p.enq)
        } else {
            format!("at#{}/{}", p.enq, p.recvd)
        }
    };
    let request = format!(
        "{} c={} hw={} live={} A={} B={} | {}",
        cfg.id(),
        cfg.pipe,
        cfg.hw,
        if cfg.live { 1 } else { 0 },
        btok(&ba),
        btok(&bb),
        sched.borrow().join(" ")
    );
    let verdict = static_verdict(cfg.pipe, &ba, &bb);
    let all_sf = sfv[0] && sfv[1];
    let answer = format!("final={} A={} B={} static={}", if all_sf { "done" } else { "stuck" }, side(0), side(1), verdict);
    let nt = sync_total(&ba).max(sync_total(&bb)) > cfg.pipe;
    let n = out.case(&request, &answer, nt);
    out.count(&format!("topic:pipe={}", cfg.pipe));
    out.count(&format!("topic:live={}", cfg.live));
    out.count(&format!("topic:static={verdict}"));
    out.count(if all_sf { "topic:outcome=sync-finished" } else { "topic:outcome=stuck" });
    if !all_sf {
        let both_waiting = probes[0].borrow().waiting && probes[1].borrow().waiting;
        let tail_left = (0..2).any(|i| sfv[i] && probes[i].borrow().buffered > 0) || (0..2).any(|i| sfv[i] && probes[i].borrow().waiting);
        let tag = if verdict == "may-deadlock" && both_waiting {
            "send-send-deadlock"
        } else if tail_left {
            "sync-tail-not-flushed"
        } else {
            "stuck-other"
        };
        out.count(&format!("topic:stuck:{tag}"));
        out.oracle_fail(
            n,
            tag,
            &format!(
                "TopicLogSync pair over a buffering transport (pipe {} messages, high-water {}, live mode {}): sync phase finished A={} B={}; messages left in the local send buffers A={} B={}; batches A {:?} B {:?}",
                cfg.pipe, cfg.hw, cfg.live, sfv[0], sfv[1], probes[0].borrow().buffered, probes[1].borrow().buffered, ba, bb
            ),
            &request,
            &answer,
        );
    } else if !(endv[0] && endv[1]) {
        out.oracle_fail(n, "session-not-terminated", "both sync phases finished but the sessions did not return after Close / without live mode", &request, &answer);
    }
}

pub fn gen_topic(rng: &mut Rng) -> TConfig {
    let pipe = *rng.pick(&[1usize, 2, 4, 16, 64]);
    let hw = *rng.pick(&[1usize, 2, 8]);
    let live = rng.chance(2, 3);
    // mostly configurations the characterisation says terminate: one side idle / small, the other
    // below, at or far above the pipe size
    let big = match rng.below(3) {
        0 => rng.range(0, pipe as u64) as usize,
        1 => pipe + rng.range(0, 3) as usize,
        _ => pipe + rng.range(3, 30) as usize,
    }
    .min(44);
    let small = if rng.chance(1, 2) { 0 } else { rng.range(0, pipe.saturating_sub(1).min(6) as u64) as usize };
    let (va, vb) = if rng.chance(1, 2) { (big, small) } else { (small, big) };
    let mut logs = vec![];
    for (v, a_side) in [(va, true), (vb, false)] {
        let mut left = v;
        let k = rng.range(1, 2) as usize;
        for i in 0..k {
            let n = if i + 1 == k { left } else { rng.range(0, left as u64) as usize };
            left -= n;
            if n > 0 {
                let base = rng.range(0, 3) as usize;
                logs.push(if a_side { (base, n, 0) } else { (base, 0, n) });
            }
        }
    }
    rng.shuffle(&mut logs);
    TConfig { pipe, hw, live, logs, b_first: rng.chance(1, 2) }
}
