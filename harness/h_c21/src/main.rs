//! C21 — Sync sessions terminate for any data volume and transport buffer size.
//!
//! Real `LogSync` pairs over `futures::channel::mpsc::channel(cap)` for cap in {0,1,2,3,4,8,64,512}
//! and data volumes of 0–40 operations per side in 1–3 author batches, on a paused current-thread
//! runtime with a session deadline: when every task is blocked tokio auto-advances the clock, so a
//! deadlock is detected deterministically and without waiting.  The stores are in-memory
//! `LogStore`s (every store future is ready at once: the only suspension points are the channel
//! operations).  Instrumented channel ends record the schedule the pair actually executed
//! (`Xe` enqueue = `start_send`, `Xf` the `send` future resolved, `Xr` a message was taken); the
//! Lean LTS (`P2/Model/SyncSched.lean`) replays it action by action and says whether the state
//! reached is finished or stuck.
//!
//! Request: `c=<cap> A=<batch sizes|-> B=<…> | <schedule>`
//! Answer:  `final=<done|stuck> A=<peer> B=<peer> static=<cap0|may-deadlock|must-complete>`
use std::cell::RefCell;
use std::pin::Pin;
use std::rc::Rc;
use std::sync::Arc;
use std::task::{Context, Poll};

use futures::channel::mpsc;
use futures::{Sink, SinkExt, Stream, StreamExt};
use h_synclib::*;
use hc::{Args, Out, Rng, Tier};
use p2panda_sync::protocols::{LogSync, LogSyncEvent, Logs};
use p2panda_sync::traits::Protocol;
use tokio::sync::broadcast;

mod topic;

pub type Sched = Rc<RefCell<Vec<String>>>;

struct EvTx {
    inner: mpsc::Sender<Msg>,
    sched: Sched,
    name: char,
    pending: bool,
    enq: Rc<RefCell<usize>>,
    waiting: Rc<RefCell<bool>>,
}
impl Sink<Msg> for EvTx {
    type Error = mpsc::SendError;
    fn poll_ready(mut self: Pin<&mut Self>, cx: &mut Context<'_>) -> Poll<Result<(), Self::Error>> {
        self.inner.poll_ready_unpin(cx)
    }
    fn start_send(mut self: Pin<&mut Self>, item: Msg) -> Result<(), Self::Error> {
        let n = self.name;
        self.sched.borrow_mut().push(format!("{n}e"));
        self.pending = true;
        *self.enq.borrow_mut() += 1;
        *self.waiting.borrow_mut() = true;
        self.inner.start_send_unpin(item)
    }
    fn poll_flush(mut self: Pin<&mut Self>, cx: &mut Context<'_>) -> Poll<Result<(), Self::Error>> {
        let r = self.inner.poll_flush_unpin(cx);
        if r.is_ready() && self.pending {
            self.pending = false;
            *self.waiting.borrow_mut() = false;
            let n = self.name;
            self.sched.borrow_mut().push(format!("{n}f"));
        }
        r
    }
    fn poll_close(mut self: Pin<&mut Self>, cx: &mut Context<'_>) -> Poll<Result<(), Self::Error>> {
        self.inner.poll_close_unpin(cx)
    }
}

struct EvRx {
    inner: mpsc::Receiver<Msg>,
    sched: Sched,
    name: char,
    recvd: Rc<RefCell<usize>>,
}
impl Stream for EvRx {
    type Item = Result<Msg, ()>;
    fn poll_next(mut self: Pin<&mut Self>, cx: &mut Context<'_>) -> Poll<Option<Self::Item>> {
        match self.inner.poll_next_unpin(cx) {
            Poll::Ready(Some(m)) => {
                let n = self.name;
                self.sched.borrow_mut().push(format!("{n}r"));
                *self.recvd.borrow_mut() += 1;
                Poll::Ready(Some(Ok(m)))
            }
            Poll::Ready(None) => Poll::Ready(None),
            Poll::Pending => Poll::Pending,
        }
    }
}

const AUTHORS: usize = 6;
const CHAIN: usize = 48;

#[derive(Clone, Debug)]
struct Config {
    cap: usize,
    /// per author: (common prefix length, extra on A, extra on B)
    logs: Vec<(usize, usize, usize)>,
    b_first: bool,
    /// the sessions' own `buffer_capacity` (de-duplication buffer size, `new_with_capacity`); the
    /// liveness verdict must not depend on it
    ncap: usize,
}

impl Config {
    fn batches(&self) -> (Vec<usize>, Vec<usize>) {
        let a = self.logs.iter().filter(|l| l.1 > 0).map(|l| l.1).collect();
        let b = self.logs.iter().filter(|l| l.2 > 0).map(|l| l.2).collect();
        (a, b)
    }
    fn id(&self) -> String {
        let ls: Vec<String> = self.logs.iter().map(|(p, a, b)| format!("{p}.{a}.{b}")).collect();
        format!("#{}:{}:{}:{}", self.cap, ls.join("_"), if self.b_first { 1 } else { 0 }, self.ncap)
    }
    fn parse(id: &str) -> Config {
        let parts: Vec<&str> = id.trim_start_matches('#').split(':').collect();
        let logs = if parts[1].is_empty() {
            vec![]
        } else {
            parts[1]
                .split('_')
                .map(|t| {
                    let v: Vec<usize> = t.split('.').map(|x| x.parse().unwrap()).collect();
                    (v[0], v[1], v[2])
                })
                .collect()
        };
        let ncap = parts.get(3).and_then(|x| x.parse().ok()).unwrap_or(1024);
        Config { cap: parts[0].parse().unwrap(), logs, b_first: parts[2] == "1", ncap }
    }
}

pub fn btok(b: &[usize]) -> String {
    if b.is_empty() { "-".into() } else { b.iter().map(|x| x.to_string()).collect::<Vec<_>>().join(",") }
}

pub fn sync_total(b: &[usize]) -> usize {
    if b.is_empty() { 0 } else { b.iter().sum::<usize>() + 1 }
}

pub fn static_verdict(cap: usize, a: &[usize], b: &[usize]) -> &'static str {
    if cap == 0 {
        "cap0"
    } else if sync_total(a) > cap && sync_total(b) > cap {
        "may-deadlock"
    } else {
        "must-complete"
    }
}

/// `select!` fairness accounting over a recorded schedule: at every select point of the Sync state
/// where both arms were ready (something to send and a message waiting), which arm ran?
fn select_choices(cap_batches: (&[usize], &[usize]), sched: &[String]) -> (u64, u64) {
    let totals = [2 + sync_total(cap_batches.0), 2 + sync_total(cap_batches.1)];
    let bounds = |b: &[usize]| -> Vec<usize> {
        let mut v = vec![2];
        let mut acc = 2;
        for (i, n) in b.iter().enumerate() {
            acc += n;
            if i + 1 < b.len() {
                v.push(acc);
            }
        }
        v.push(2 + sync_total(b));
        v
    };
    let bd = [bounds(cap_batches.0), bounds(cap_batches.1)];
    let (mut s, mut r, mut w) = ([0usize; 2], [0usize; 2], [false; 2]);
    let (mut both, mut recv_chosen) = (0u64, 0u64);
    for ev in sched {
        let x = if ev.starts_with('A') { 0 } else { 1 };
        let y = 1 - x;
        let kind = ev.chars().nth(1).unwrap();
        if kind == 'e' || kind == 'r' {
            let at_select = s[x] >= 2 && r[x] >= 2 && !w[x] && bd[x].contains(&s[x]);
            let send_ready = s[x] < totals[x];
            let recv_ready = s[y] > r[x] && r[x] < totals[y];
            if at_select && send_ready && recv_ready {
                both += 1;
                if kind == 'r' {
                    recv_chosen += 1;
                }
            }
        }
        match kind {
            'e' => {
                s[x] += 1;
                w[x] = true;
            }
            'f' => w[x] = false,
            _ => r[x] += 1,
        }
    }
    (both, recv_chosen)
}

struct Outcome {
    sched: Vec<String>,
    request: String,
    answer: String,
    done: [bool; 2],
    waiting: [bool; 2],
    enq: [usize; 2],
    results_ok: bool,
}

fn run_config(uni: &Arc<Universe>, cfg: &Config) -> Outcome {
    let rt = tokio::runtime::Builder::new_current_thread().enable_all().start_paused(true).build().unwrap();
    let sched: Sched = Rc::new(RefCell::new(vec![]));
    let (ba, bb) = cfg.batches();
    let stores = [MemStore::default(), MemStore::default()];
    let mut logs: Logs<L> = Logs::default();
    for (x, (base, ea, eb)) in cfg.logs.iter().enumerate() {
        for s in 0..(base + ea) {
            stores[0].insert(uni.op(x, 0, s as u32));
        }
        for s in 0..(base + eb) {
            stores[1].insert(uni.op(x, 0, s as u32));
        }
        logs.insert(uni.vk(x), vec![0]);
    }
    let (a_tx, b_rx) = mpsc::channel::<Msg>(cfg.cap);
    let (b_tx, a_rx) = mpsc::channel::<Msg>(cfg.cap);
    let cnt = || (Rc::new(RefCell::new(0usize)), Rc::new(RefCell::new(false)), Rc::new(RefCell::new(0usize)));
    let (enq_a, wait_a, rec_a) = cnt();
    let (enq_b, wait_b, rec_b) = cnt();
    let mut tx_a = EvTx { inner: a_tx, sched: sched.clone(), name: 'A', pending: false, enq: enq_a.clone(), waiting: wait_a.clone() };
    let mut tx_b = EvTx { inner: b_tx, sched: sched.clone(), name: 'B', pending: false, enq: enq_b.clone(), waiting: wait_b.clone() };
    let mut rx_a = EvRx { inner: a_rx, sched: sched.clone(), name: 'A', recvd: rec_a.clone() };
    let mut rx_b = EvRx { inner: b_rx, sched: sched.clone(), name: 'B', recvd: rec_b.clone() };
    let (ev_a, _keep_a) = broadcast::channel::<LogSyncEvent<E>>(4096);
    let (ev_b, _keep_b) = broadcast::channel::<LogSyncEvent<E>>(4096);
    let sa: LogSync<L, E, MemStore, LogSyncEvent<E>> = LogSync::new_with_capacity(stores[0].clone(), logs.clone(), ev_a, cfg.ncap);
    let sb: LogSync<L, E, MemStore, LogSyncEvent<E>> = LogSync::new_with_capacity(stores[1].clone(), logs.clone(), ev_b, cfg.ncap);
    let done = [Rc::new(RefCell::new(None)), Rc::new(RefCell::new(None))];
    let (da, db) = (done[0].clone(), done[1].clone());
    let b_first = cfg.b_first;
    rt.block_on(async {
        let fa = async {
            let r = sa.run(&mut tx_a, &mut rx_a).await;
            *da.borrow_mut() = Some(r.is_ok());
        };
        let fb = async {
            let r = sb.run(&mut tx_b, &mut rx_b).await;
            *db.borrow_mut() = Some(r.is_ok());
        };
        // session deadline: reached only when both tasks are blocked (the paused clock auto-advances)
        let _ = tokio::time::timeout(std::time::Duration::from_secs(3600), async {
            if b_first {
                tokio::join!(fb, fa);
            } else {
                tokio::join!(fa, fb);
            }
        })
        .await;
    });
    let d = [done[0].borrow().is_some(), done[1].borrow().is_some()];
    let ok = done.iter().all(|x| x.borrow().unwrap_or(true));
    let side = |i: usize, enq: &Rc<RefCell<usize>>, w: &Rc<RefCell<bool>>, r: &Rc<RefCell<usize>>| {
        if d[i] {
            "done".to_string()
        } else if *w.borrow() {
            format!("send#{}", enq.borrow())
        } else {
            format!("at#{}/{}", enq.borrow(), r.borrow())
        }
    };
    let request = format!("{} c={} n={} A={} B={} | {}", cfg.id(), cfg.cap, cfg.ncap, btok(&ba), btok(&bb), sched.borrow().join(" "));
    let answer = format!(
        "final={} A={} B={} static={}",
        if d[0] && d[1] { "done" } else { "stuck" },
        side(0, &enq_a, &wait_a, &rec_a),
        side(1, &enq_b, &wait_b, &rec_b),
        static_verdict(cfg.cap, &ba, &bb)
    );
    Outcome { sched: sched.borrow().clone(), request, answer, done: d, waiting: [*wait_a.borrow(), *wait_b.borrow()], enq: [*enq_a.borrow(), *enq_b.borrow()], results_ok: ok }
}

static WATCHDOG: std::sync::OnceLock<Watchdog> = std::sync::OnceLock::new();

static FAIR: std::sync::Mutex<(u64, u64)> = std::sync::Mutex::new((0, 0));

fn emit(out: &mut Out, uni: &Arc<Universe>, cfg: &Config) {
    let (ba, bb) = cfg.batches();
    if let Some(w) = WATCHDOG.get() {
        w.begin(&format!("{} c={} A={} B={} | (no answer: a session loops without reaching an await point)", cfg.id(), cfg.cap, btok(&ba), btok(&bb)));
    }
    let o = run_config(uni, cfg);
    // nt = both sides sending more than the capacity, or capacity 0
    let nt = cfg.cap == 0 || (sync_total(&ba) > cfg.cap && sync_total(&bb) > cfg.cap);
    let n = out.case(&o.request, &o.answer, nt);
    {
        let (both, recv) = select_choices((&ba, &bb), &o.sched);
        let mut f = FAIR.lock().unwrap();
        f.0 += both;
        f.1 += recv;
    }
    out.count(&format!("cap={}", cfg.cap));
    out.count(&format!("session-buffer={}", cfg.ncap));
    {
        let (va, vb): (usize, usize) = (ba.iter().sum(), bb.iter().sum());
        let rel = |v: usize| if v > cfg.ncap { "above" } else if v == cfg.ncap { "at" } else { "below" };
        if cfg.ncap < 1024 {
            out.count(&format!("volume-vs-session-buffer:A-{}/B-{}/transport-{}", rel(va), rel(vb), if cfg.cap >= 64 { "large" } else { "small" }));
        }
    }
    out.count(&format!("static={}", static_verdict(cfg.cap, &ba, &bb)));
    out.count(&format!("batches={}+{}", ba.len(), bb.len()));
    out.count(if o.done[0] && o.done[1] { "outcome=completed" } else { "outcome=stuck" });
    if !o.results_ok {
        out.oracle_fail(n, "session-error", "an honest session returned an error", &o.request, &o.answer);
    }
    if !(o.done[0] && o.done[1]) {
        // the property's predicate is false: classify the stuck configuration
        let both_in_sync_send = o.waiting[0] && o.waiting[1] && o.enq[0] >= 3 && o.enq[1] >= 3;
        let tag = if cfg.cap == 0 {
            "cap0-deadlock"
        } else if both_in_sync_send && sync_total(&ba) > cfg.cap && sync_total(&bb) > cfg.cap {
            "send-send-deadlock"
        } else {
            "stuck-other"
        };
        out.count(&format!("stuck:{tag}"));
        out.oracle_fail(
            n,
            tag,
            &format!("sessions did not complete within the deadline (cap {}, batches A {:?} B {:?}): {}", cfg.cap, ba, bb, o.answer),
            &o.request,
            &o.answer,
        );
    }
}

fn gen_config(rng: &mut Rng, caps: &[usize]) -> Config {
    let cap = *rng.pick(caps);
    let mut logs = vec![];
    let na = rng.range(0, 3) as usize;
    let nb = rng.range(0, 3) as usize;
    let mut budget_a = rng.range(0, 40) as usize;
    let mut budget_b = rng.range(0, 40) as usize;
    if rng.chance(1, 3) && cap > 0 && cap < 64 {
        // around the capacity boundary
        budget_a = (cap + rng.range(0, 2) as usize).saturating_sub(1).min(40);
        budget_b = (cap + rng.range(0, 2) as usize).saturating_sub(1).min(40);
    }
    let mut who = vec![];
    for _ in 0..na {
        who.push(true);
    }
    for _ in 0..nb {
        who.push(false);
    }
    rng.shuffle(&mut who);
    let (mut left_a, mut left_b) = (na, nb);
    for w in who {
        let base = rng.range(0, 4) as usize;
        if w {
            let n = if left_a == 1 { budget_a } else { rng.range(0, budget_a as u64) as usize };
            budget_a -= n;
            left_a -= 1;
            logs.push((base, n.min(CHAIN - base), 0));
        } else {
            let n = if left_b == 1 { budget_b } else { rng.range(0, budget_b as u64) as usize };
            budget_b -= n;
            left_b -= 1;
            logs.push((base, 0, n.min(CHAIN - base)));
        }
    }
    Config { cap, logs, b_first: rng.chance(1, 2), ncap: 1024 }
}

/// Volumes chosen relative to the sessions' own buffer capacity N (below / at / above on either
/// side, all combinations), over small and comfortably large transports.
fn gen_buffer_config(rng: &mut Rng) -> Config {
    let ncap = *rng.pick(&[1usize, 2, 3, 8, 16]);
    let cap = *rng.pick(&[1usize, 2, 3, 4, 64, 512, 512]);
    let vol = |rng: &mut Rng| -> usize {
        match rng.below(3) {
            0 => rng.range(0, ncap as u64 - 1) as usize,
            1 => ncap,
            _ => ncap + rng.range(1, 6) as usize,
        }
    };
    let (va, vb) = (vol(rng), vol(rng));
    let mut logs = vec![];
    // split each side's volume over 1-3 authors
    for (v, a_side) in [(va, true), (vb, false)] {
        let mut left = v;
        let k = rng.range(1, 3) as usize;
        for i in 0..k {
            let n = if i + 1 == k { left } else { rng.range(0, left as u64) as usize };
            left -= n;
            if n > 0 {
                let base = rng.range(0, 3) as usize;
                logs.push(if a_side { (base, n, 0) } else { (base, 0, n) });
            }
        }
    }
    rng.shuffle(&mut logs);
    Config { cap, logs, b_first: rng.chance(1, 2), ncap }
}

fn main() {
    let args = Args::parse();
    let mut out = Out::new(&args.out);
    let _ = WATCHDOG.set(Watchdog::start(args.out.clone(), std::time::Duration::from_secs(30), "session-never-returns"));
    let mut urng = Rng::new(0xC21);
    let mut uni = Universe::new(&mut urng, AUTHORS);
    for a in 0..AUTHORS {
        uni.extend(&mut urng, a, 0, CHAIN);
    }
    let uni = Arc::new(uni);
    if args.mode == "replay" {
        let text = std::fs::read_to_string(args.replay.as_ref().expect("replay file")).unwrap();
        let v: hc::serde_json::Value = hc::serde_json::from_str(&text).unwrap();
        let req = v["request"].as_str().unwrap().to_string();
        let first = req.split_whitespace().next().unwrap();
        if first.starts_with("#T") {
            let cfg = topic::TConfig::parse(first);
            for _ in 0..5 {
                topic::emit_topic(&mut out, &uni, &cfg);
            }
            out.finish("replay (TopicLogSync pair over the buffering transport)", false);
            return;
        }
        let cfg = Config::parse(first);
        // the select! of the sessions is randomised: a stuck outcome may need several attempts
        for _ in 0..20 {
            emit(&mut out, &uni, &cfg);
        }
        out.finish("replay (20 attempts: the select! inside the sessions picks its arm at random)", false);
        return;
    }
    let caps = [0usize, 1, 2, 3, 4, 8, 64, 512];
    // witnesses of the known finding, run first in every tier
    emit(&mut out, &uni, &Config { cap: 0, logs: vec![], b_first: false, ncap: 1024 });
    emit(&mut out, &uni, &Config { cap: 1, logs: vec![(0, 40, 0), (0, 0, 40)], b_first: false, ncap: 1024 });
    // the measured table of DESIGN.md C21
    for (c, a, b) in [(1, 3, 0), (1, 0, 3), (2, 9, 0), (2, 2, 1), (3, 2, 2), (4, 3, 3), (1, 1, 1), (1, 2, 2), (4, 6, 6)] {
        let mut logs = vec![];
        if a > 0 {
            logs.push((0, a, 0));
        }
        if b > 0 {
            logs.push((0, 0, b));
        }
        emit(&mut out, &uni, &Config { cap: c, logs, b_first: false, ncap: 1024 });
    }
    let n = match args.tier {
        Tier::Quick => 2000,
        Tier::Thorough => 60000,
        Tier::Search => 20000,
    };
    // session buffer capacity N x volumes {N-1, N, N+1, N+4} on either side x small / large transport
    for ncap in [1usize, 2, 3, 8, 16] {
        for va in [ncap.saturating_sub(1), ncap, ncap + 1, ncap + 4] {
            for vb in [ncap.saturating_sub(1), ncap, ncap + 1, ncap + 4] {
                for cap in [2usize, 512] {
                    let mut logs = vec![];
                    if va > 0 {
                        logs.push((0, va, 0));
                    }
                    if vb > 0 {
                        logs.push((0, 0, vb));
                    }
                    emit(&mut out, &uni, &Config { cap, logs, b_first: false, ncap });
                }
            }
        }
    }
    emit(&mut out, &uni, &Config { cap: 512, logs: vec![(0, 12, 0), (0, 0, 20)], b_first: false, ncap: 8 });
    let mut rng = Rng::new(args.seed);
    for i in 0..n {
        let cfg = if i % 2 == 0 { gen_config(&mut rng, &caps) } else { gen_buffer_config(&mut rng) };
        emit(&mut out, &uni, &cfg);
    }
    // part C: TopicLogSync pairs over a buffering transport (through the LogSyncSink adapter)
    for pipe in [1usize, 2, 8] {
        for hw in [1usize, 4] {
            for live in [true, false] {
                for (va, vb) in [(0, 0), (pipe + 3, 0), (0, pipe + 3), (pipe + 9, 1), (1, pipe + 9), (pipe, pipe)] {
                    let mut logs = vec![];
                    if va > 0 {
                        logs.push((0, va, 0));
                    }
                    if vb > 0 {
                        logs.push((0, 0, vb));
                    }
                    topic::emit_topic(&mut out, &uni, &topic::TConfig { pipe, hw, live, logs, b_first: false });
                }
            }
        }
    }
    let n_topic = match args.tier {
        Tier::Quick => 600,
        Tier::Thorough => 15000,
        Tier::Search => 5000,
    };
    for _ in 0..n_topic {
        let cfg = topic::gen_topic(&mut rng);
        topic::emit_topic(&mut out, &uni, &cfg);
    }
    // select! fairness: where both arms of the Sync-state select! were ready, the receive arm must
    // get its share (tokio picks the first arm to poll at random); a starved receive arm turns
    // every "may deadlock" configuration into a certain deadlock
    let (both, recv) = *FAIR.lock().unwrap();
    out.extra.insert("select_points_both_arms_ready".into(), both.into());
    out.extra.insert("receive_arm_chosen".into(), recv.into());
    if both >= 200 && (recv * 5 < both || recv * 5 > both * 4) {
        out.oracle_fail(
            out.cases.saturating_sub(1),
            "select-arm-starved",
            &format!("at {both} select points with both arms ready the receive arm ran {recv} times (expected about half)"),
            "#1:0.40.0_0.0.40:0 c=1 A=40 B=40 | (aggregate over the run)",
            "",
        );
    }
    out.finish(
        "channel capacity in {0,1,2,3,4,8,64,512} x 0-40 operations per side in 0-3 author batches each (a third of the cases sized around the capacity boundary), either session polled first; half of the cases (and a fixed grid) vary the sessions' own buffer_capacity N in {1,2,3,8,16} with per-side volumes below / at / above N in all combinations over small and large transports (the verdict must not depend on N); part C: TopicLogSync pairs, live mode on/off, over a buffering transport (local send buffer with high-water mark 1-8 + pipe of 1-64 messages, reached through the LogSyncSink adapter), one side idle or small and the other below / at / far above the pipe size. non-trivial = capacity 0, or both sides have more Sync-phase messages (operations + Done) than the capacity",
        false,
    );
}
