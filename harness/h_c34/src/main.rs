//! C34 — Message ratchet yields the sender's key for any delivery order.
//! Drives the real `RatchetSecret` / `DecryptionRatchet` (real HKDF) and reports, for every answer,
//! WHICH sender generation's key material it equals.
//!
//! Request: `[@<base>] <fwd> <ooo> <tok>*`, tok = `<g>` | `<g>/<fwd>/<ooo>`. With `@<base>` the receiver
//! (and the sender chain) start at head generation `base` with an empty past queue — the state a single
//! accepted jump to `base - 1` with tolerance 0 leaves behind; built through serde so that histories at
//! the edge of the `u32` domain are reachable without 2^32 HKDF steps.
//! Answer:  per tok `k<n>` | `E:future|E:past|E:oob|E:reuse`, then `| h<head> <past queue>`.
use hc::serde_json::{self, Value};
use hc::{Args, Out, Rng, Tier};
use p2panda_encryption::crypto::Secret;
use p2panda_encryption::message_scheme::ratchet::{DecryptionRatchet, RatchetError, RatchetSecret};
use std::collections::{BTreeSet, HashMap};

#[derive(Clone, Copy, Debug)]
struct Req {
    g: u32,
    fwd: u32,
    ooo: u32,
    own: bool,
}

fn secret_from(bytes: [u8; 32]) -> Secret<32> {
    // `Secret::from_bytes` is crate-private; the type is (de)serialisable.
    serde_json::from_value(Value::from(bytes.to_vec())).expect("secret via serde")
}

/// Sender side: key material (as canonical json text) of generations 0..n → generation.
fn sender_keys(seed: [u8; 32], base: u32, n: u32) -> HashMap<String, u32> {
    let mut m = HashMap::new();
    let mut s = RatchetSecret::init(secret_from(seed));
    if base > 0 {
        let mut v = serde_json::to_value(&s).unwrap();
        v["generation"] = Value::from(base);
        s = serde_json::from_value(v).expect("sender state via serde");
    }
    for i in base..base.saturating_add(n) {
        let (s2, generation, km) = RatchetSecret::ratchet_forward(s).expect("hkdf");
        assert_eq!(generation, i);
        m.insert(serde_json::to_string(&km).unwrap(), i);
        s = s2;
    }
    m
}

fn key_name(keys: &HashMap<String, u32>, km: &Value) -> String {
    match keys.get(&serde_json::to_string(km).unwrap()) {
        Some(g) => format!("k{g}"),
        None => "k?".into(),
    }
}

struct CaseResult {
    answer: String,
    nontrivial: bool,
    fail: Option<(String, String)>,
    stats: Vec<&'static str>,
}

fn run_case(seed: [u8; 32], base: u32, reqs: &[Req], fixed: bool) -> CaseResult {
    // Enough sender generations to name every key the receiver can possibly produce.
    let mut top: u64 = 0;
    {
        let mut head: u64 = base as u64;
        for r in reqs {
            if (r.g as u64) <= head + r.fwd as u64 && r.g as u64 >= head {
                head = r.g as u64 + 1;
            }
            top = top.max(head);
        }
    }
    let keys = sender_keys(seed, base, (top.max(base as u64) - base as u64) as u32 + 2);
    let mut y = DecryptionRatchet::init(secret_from(seed));
    if base > 0 {
        let mut v = serde_json::to_value(&y).unwrap();
        v["ratchet_head"]["generation"] = Value::from(base);
        y = serde_json::from_value(v).expect("receiver state via serde");
    }
    let mut out = vec![];
    // Oracle state, judged on the implementation's own answers only.
    let mut handed: BTreeSet<u32> = BTreeSet::new();
    let mut head: u64 = base as u64; // 1 + largest generation handed out (`base` at the start)
    let mut fail: Option<(String, String)> = None;
    let mut stats = vec![];
    let mut ooo_success = false;
    let mut rejected = false;
    for (i, r) in reqs.iter().enumerate() {
        let res = DecryptionRatchet::secret_for_decryption(y.clone(), r.g, r.fwd, r.ooo);
        let g = r.g as u64;
        let in_future = g <= head + r.fwd as u64;
        let in_past = g >= head || head - g <= r.ooo as u64;
        let fresh = !handed.contains(&r.g);
        match res {
            Ok((y2, km)) => {
                let name = key_name(&keys, &serde_json::to_value(&km).unwrap());
                if name != format!("k{}", r.g) && fail.is_none() {
                    fail = Some(("wrong-key".into(), format!("req {i}: generation {} answered with {name}", r.g)));
                }
                if !fresh && fail.is_none() {
                    fail = Some(("handed-out-twice".into(), format!("req {i}: generation {} handed out a second time", r.g)));
                }
                if !(in_future && in_past) && fail.is_none() {
                    fail = Some((
                        "outside-window-accepted".into(),
                        format!("req {i}: generation {} accepted with head {head} fwd {} ooo {}", r.g, r.fwd, r.ooo),
                    ));
                }
                if g < head {
                    ooo_success = true;
                    stats.push("ok-past");
                } else if g > head {
                    stats.push("ok-skip");
                } else {
                    stats.push("ok-head");
                }
                handed.insert(r.g);
                head = head.max(g + 1);
                out.push(name);
                y = y2;
            }
            Err(e) => {
                rejected = true;
                let w = match e {
                    RatchetError::TooDistantInTheFuture => "E:future",
                    RatchetError::TooDistantInThePast => "E:past",
                    RatchetError::IndexOutOfBounds => "E:oob",
                    RatchetError::SecretReuse => "E:reuse",
                    RatchetError::Hkdf(_) => "E:hkdf",
                };
                stats.push(match w {
                    "E:future" => "err-future",
                    "E:past" => "err-past",
                    "E:oob" => "err-oob",
                    "E:reuse" => "err-reuse",
                    _ => "err-hkdf",
                });
                if fixed && fail.is_none() {
                    // With one window configuration for the whole history a request must succeed
                    // exactly when it is fresh and inside both windows.
                    if fresh && in_future && in_past {
                        fail = Some((
                            "inside-window-rejected".into(),
                            format!("req {i}: fresh generation {} inside the windows (head {head}) rejected with {w}", r.g),
                        ));
                    } else {
                        let expect = if !in_future {
                            "E:future"
                        } else if !in_past {
                            "E:past"
                        } else {
                            "E:reuse"
                        };
                        if w != expect {
                            fail = Some(("wrong-error".into(), format!("req {i}: generation {} rejected with {w}, expected {expect}", r.g)));
                        }
                    }
                }
                if !fixed && fail.is_none() && (w == "E:future") != !in_future {
                    fail = Some(("wrong-error".into(), format!("req {i}: generation {} future-window verdict {w}", r.g)));
                }
                out.push(w.to_string());
            }
        }
    }
    // final state through serde (fields are private)
    let st = serde_json::to_value(&y).unwrap();
    let hd = st["ratchet_head"]["generation"].as_u64().unwrap();
    out.push("|".into());
    out.push(format!("h{hd}"));
    for p in st["past_secrets"].as_array().unwrap() {
        out.push(if p.is_null() { "-".into() } else { key_name(&keys, p) });
    }
    // forward secrecy bound: with one configured tolerance no more than `ooo` (and no more than
    // `head`) past entries may be retained, and a retained key must be one still inside the window
    if fixed && fail.is_none() {
        if let Some(r) = reqs.first() {
            let n = st["past_secrets"].as_array().unwrap().len() as u64;
            if n > (r.ooo as u64).min(hd) {
                fail = Some(("retained-beyond-window".into(), format!("{n} past entries retained with ooo {} head {hd}", r.ooo)));
            }
        }
    }
    if hd != head && fail.is_none() {
        fail = Some(("head".into(), format!("final head generation {hd}, expected {head}")));
    }
    CaseResult { answer: out.join(" "), nontrivial: ooo_success && rejected, fail, stats }
}

fn req_line(base: u32, fwd: u32, ooo: u32, reqs: &[Req]) -> String {
    let mut s = if base > 0 { format!("@{base} {fwd} {ooo}") } else { format!("{fwd} {ooo}") };
    for r in reqs {
        if r.own {
            s.push_str(&format!(" {}/{}/{}", r.g, r.fwd, r.ooo));
        } else {
            s.push_str(&format!(" {}", r.g));
        }
    }
    s
}

fn parse_line(line: &str) -> Option<(u32, u32, u32, Vec<Req>)> {
    let mut it = line.split_whitespace().peekable();
    let mut base: u32 = 0;
    if let Some(t) = it.peek() {
        if let Some(b) = t.strip_prefix('@') {
            base = b.parse().ok()?;
            it.next();
        }
    }
    let fwd: u32 = it.next()?.parse().ok()?;
    let ooo: u32 = it.next()?.parse().ok()?;
    let mut reqs = vec![];
    for t in it {
        let p: Vec<&str> = t.split('/').collect();
        match p.len() {
            1 => reqs.push(Req { g: p[0].parse().ok()?, fwd, ooo, own: false }),
            3 => reqs.push(Req { g: p[0].parse().ok()?, fwd: p[1].parse().ok()?, ooo: p[2].parse().ok()?, own: true }),
            _ => return None,
        }
    }
    Some((base, fwd, ooo, reqs))
}

fn emit(out: &mut Out, seed: [u8; 32], fwd: u32, ooo: u32, reqs: &[Req], kind: &str) {
    emit_at(out, seed, 0, fwd, ooo, reqs, kind)
}

fn emit_at(out: &mut Out, seed: [u8; 32], base: u32, fwd: u32, ooo: u32, reqs: &[Req], kind: &str) {
    let line = req_line(base, fwd, ooo, reqs);
    let fixed = reqs.iter().all(|r| !r.own);
    let r = match hc::catch(|| run_case(seed, base, reqs, fixed)) {
        Ok(r) => r,
        Err(p) => CaseResult { answer: "PANIC".into(), nontrivial: false, fail: Some(("panic".into(), p)), stats: vec![] },
    };
    let n = out.case(&line, &r.answer, r.nontrivial);
    out.count(&format!("kind={kind}"));
    for s in r.stats {
        out.count(s);
    }
    out.count_n("requests", reqs.len() as u64);
    if let Some((tag, what)) = r.fail {
        out.oracle_fail(n, &tag, &what, &line, &r.answer);
    }
}

fn permutations(n: u32, f: &mut dyn FnMut(&[u32])) {
    fn go(cur: &mut Vec<u32>, used: &mut Vec<bool>, n: u32, f: &mut dyn FnMut(&[u32])) {
        if cur.len() as u32 == n {
            f(cur);
            return;
        }
        for i in 0..n {
            if !used[i as usize] {
                used[i as usize] = true;
                cur.push(i);
                go(cur, used, n, f);
                cur.pop();
                used[i as usize] = false;
            }
        }
    }
    go(&mut vec![], &mut vec![false; n as usize], n, f);
}

fn exhaustive(out: &mut Out, seed: [u8; 32], n: u32, wmax: u32) {
    for fwd in 0..=wmax {
        for ooo in 0..=wmax {
            permutations(n, &mut |p| {
                // the permutation, then every generation once more (duplicates / late arrivals)
                let mut reqs: Vec<Req> = p.iter().map(|g| Req { g: *g, fwd, ooo, own: false }).collect();
                for g in 0..=n {
                    reqs.push(Req { g, fwd, ooo, own: false });
                }
                emit(out, seed, fwd, ooo, &reqs, "perm");
            });
        }
    }
}

fn random_case(out: &mut Out, rng: &mut Rng, wide: bool) {
    let mut seed = [0u8; 32];
    seed.copy_from_slice(&rng.bytes(32));
    let wmax = if wide { 64 } else { 8 };
    let fwd = rng.range(0, wmax) as u32;
    let ooo = rng.range(0, wmax) as u32;
    let gmax = if wide { 400 } else { 30 };
    let len = rng.range(1, if wide { 120 } else { 40 }) as usize;
    let vary = rng.chance(1, 4);
    // a mostly increasing delivery with local reordering, losses and duplicates
    let mut cur: u64 = 0;
    let mut reqs = vec![];
    let mut seen: Vec<u32> = vec![];
    for _ in 0..len {
        let g = match rng.below(10) {
            0 if !seen.is_empty() => *rng.pick(&seen),                        // duplicate
            1 => rng.range(0, gmax) as u32,                                    // anywhere
            2 => (cur + rng.range(0, wmax as u64 + 2)) as u32,                 // jump (maybe too far)
            3 | 4 => cur.saturating_sub(rng.range(1, wmax as u64 + 2)) as u32, // late (maybe too late)
            5 => {
                // adversarial: huge generation
                if rng.chance(1, 2) { u32::MAX - rng.below(3) as u32 } else { rng.range(1 << 20, 1 << 31) as u32 }
            }
            _ => cur as u32,
        };
        let (f, o, own) = if vary && rng.chance(1, 3) {
            (rng.range(0, wmax) as u32, rng.range(0, wmax) as u32, true)
        } else {
            (fwd, ooo, false)
        };
        // keep the head inside the modelled domain (no u32 wrap) and the sender table small
        let g = if g as u64 > cur + f as u64 || g as u64 <= gmax + 64 { g } else { cur as u32 };
        reqs.push(Req { g, fwd: f, ooo: o, own });
        seen.push(g);
        if (g as u64) >= cur && g as u64 <= cur + f as u64 {
            cur = g as u64 + 1;
        } else if g as u64 == cur {
            cur += 1;
        }
        if cur > gmax {
            break;
        }
    }
    emit(out, seed, fwd, ooo, &reqs, if vary { "random-varying-windows" } else if wide { "random-wide" } else { "random-small" });
}

/// Histories at the edge of the `u32` domain: the receiver starts `d` generations below `u32::MAX`
/// (state via serde), every requested generation is in `base ..= u32::MAX - 1` (the claim's domain:
/// `c34_u32_head_bounded`), forward distances are chosen on both sides of the headroom conjunct
/// `generation_head < u32::MAX - maximum_forward_distance` (small, exactly at the edge, `u32::MAX`).
fn edge_case(out: &mut Out, rng: &mut Rng) {
    let mut seed = [0u8; 32];
    seed.copy_from_slice(&rng.bytes(32));
    let d = rng.range(1, 12) as u32;
    let base = u32::MAX - d;
    let fwd = match rng.below(5) {
        0 => rng.range(0, 3) as u32,
        1 => d.saturating_sub(rng.below(3) as u32),
        2 => d + rng.below(3) as u32,
        3 => u32::MAX - rng.below(2) as u32,
        _ => rng.range(0, 16) as u32,
    };
    let ooo = rng.range(0, 12) as u32;
    let len = rng.range(1, 14) as usize;
    let mut reqs = vec![];
    for _ in 0..len {
        // any generation of the domain from `base` to `u32::MAX - 1`, repeated ones included
        let g = base + rng.below(d as u64) as u32;
        reqs.push(Req { g, fwd, ooo, own: false });
    }
    emit_at(out, seed, base, fwd, ooo, &reqs, "u32-edge");
}

fn main() {
    let args = Args::parse();
    let mut out = Out::new(&args.out);
    let seed0 = [7u8; 32];
    if args.mode == "replay" {
        let text = std::fs::read_to_string(args.replay.as_ref().expect("replay file")).unwrap();
        let v: Value = serde_json::from_str(&text).unwrap();
        let req = v["request"].as_str().unwrap().to_string();
        match parse_line(&req) {
            Some((b, f, o, reqs)) => emit_at(&mut out, seed0, b, f, o, &reqs, "replay"),
            None => {
                out.case(&req, "bad-op", false);
            }
        }
        out.finish("replay", false);
        return;
    }
    let mut rng = Rng::new(args.seed);
    // corpus-like fixed cases first (the crate's own out-of-order test, window edges)
    for (f, o, gs) in [
        (3u32, 3u32, vec![0u32, 4, 3, 2, 1, 8, 12, 0, 4]),
        (100, 4, vec![0, 0, 10, 7, 7, 8, 9, 6, 5]),
        (0, 0, vec![0, 1, 1, 0, 3, 2]),
        (2, 1, vec![2, 1, 0, 5, 6, 4, 3]),
    ] {
        let reqs: Vec<Req> = gs.iter().map(|g| Req { g: *g, fwd: f, ooo: o, own: false }).collect();
        emit(&mut out, seed0, f, o, &reqs, "fixed");
    }
    let (n, w, nsmall, nwide) = match args.tier {
        Tier::Quick => (6, 4, 3000, 1500),
        Tier::Thorough => (8, 6, 120_000, 80_000),
        Tier::Search => (7, 5, 60_000, 40_000),
    };
    exhaustive(&mut out, seed0, n, w);
    for _ in 0..nsmall {
        random_case(&mut out, &mut rng, false);
    }
    for _ in 0..nwide {
        random_case(&mut out, &mut rng, true);
    }
    // the edge of the u32 domain, incl. the last admissible generation u32::MAX - 1 from head u32::MAX - 1
    emit_at(&mut out, seed0, u32::MAX - 1, 0, 0, &[Req { g: u32::MAX - 1, fwd: 0, ooo: 0, own: false }], "u32-edge");
    emit_at(&mut out, seed0, u32::MAX - 3, 1, 2, &[u32::MAX - 2, u32::MAX - 3, u32::MAX - 1, u32::MAX - 1].map(|g| Req { g, fwd: 1, ooo: 2, own: false }), "u32-edge");
    for _ in 0..nsmall / 2 {
        edge_case(&mut out, &mut rng);
    }
    // malformed request stream: the model driver must answer `bad-op`, never a default
    for bad in ["", "x 1 2", "3", "2 2 1/2", "2 2 1/a/3", "2 2 -1", "@ 1 1 0", "@x 1 1 0"] {
        out.case(bad, "bad-op", false);
        out.count("kind=malformed-line");
    }
    out.finish(
        "exhaustive: every permutation of generations {0..n-1} followed by a second request for every generation 0..n, for every (fwd, ooo) in {0..w}^2 (quick n=6 w=4, thorough n=8 w=6); random: mostly-increasing deliveries with reordering, loss, duplicates, too-far jumps, too-late arrivals and huge generations, windows up to 64, generations up to 400, a quarter with per-call windows; u32-edge: receiver and sender started (through serde) 1..12 generations below u32::MAX, requests anywhere in base..=u32::MAX-1 in any order with repeats, forward distances below / at / above the headroom guard and u32::MAX itself. non-trivial = history with at least one successful out-of-order (past) request and at least one rejection",
        true,
    );
}
