//! C38 — Expired or invalid key bundles are never accepted or used.
//! Drives the real `KeyRegistry` with real XEdDSA signatures and the REAL clock: lifetimes are built
//! relative to the second in which a batch of cases runs (`Lifetime::from_range`), every batch runs
//! its first phase inside one clock second (clock = 1000 in the request lines), the run then waits
//! `D` (>= 3) seconds once and runs every batch's second phase inside one later second
//! (clock = 1000 + D). A phase that straddles a second boundary is repeated from a clone.
//!
//! Request line: see lean/Drv/C38.lean.
use hc::serde_json::{self, Value};
use hc::{Args, Out, Rng, Tier};
use p2panda_encryption::crypto::x25519::{PublicKey, SecretKey};
use p2panda_encryption::crypto::xeddsa::XSignature;
use p2panda_encryption::key_bundle::{Lifetime, LongTermKeyBundle, OneTimeKeyBundle, OneTimePreKey, PreKey, latest_key_bundle};
use p2panda_encryption::key_registry::{KeyRegistry, KeyRegistryError, KeyRegistryState};
use p2panda_encryption::traits::{KeyBundle, PreKeyRegistry};
use std::collections::HashMap;
use std::panic::AssertUnwindSafe;
use std::time::{SystemTime, UNIX_EPOCH};

const T1: u64 = 1000;
type Reg = KeyRegistryState<usize>;

fn unix_now() -> u64 {
    SystemTime::now().duration_since(UNIX_EPOCH).unwrap().as_secs()
}

fn wait_until(t: u64) {
    while unix_now() < t {
        std::thread::sleep(std::time::Duration::from_millis(2));
    }
}

#[derive(Clone, Debug, PartialEq)]
struct BSpec {
    ident: usize,
    prekey: usize,
    nb: u64,
    na: u64,
    sig_by: usize,  // 0 = corrupted bytes
    sig_msg: usize, // which pre-key the signature covers
    otk: Option<u64>,
}

impl BSpec {
    fn tok(&self) -> String {
        format!(
            "{}.{}.{}.{}.{}.{}.{}",
            self.ident,
            self.prekey,
            self.nb,
            self.na,
            self.sig_by,
            self.sig_msg,
            self.otk.map(|o| o.to_string()).unwrap_or("-".into())
        )
    }
    fn genuine(&self) -> bool {
        self.sig_by == self.ident && self.sig_msg == self.prekey
    }
    fn life_at(&self, now: u64) -> bool {
        self.nb < now && now < self.na
    }
    fn valid_at(&self, now: u64) -> bool {
        self.nb < now && now < self.na && self.genuine()
    }
}

#[derive(Clone, Debug)]
enum Op {
    AddL(usize, BSpec),
    AddO(usize, BSpec),
    QL(usize),
    QO(usize),
    Rx,
    /// restore the member's long-term list from persistence (serde), nothing verified on the way in
    SetL(usize, Vec<BSpec>),
    /// the public `latest_key_bundle` on an arbitrary list
    LatestOf(Vec<BSpec>),
}

fn list_tok(l: &[BSpec]) -> String {
    if l.is_empty() { "-".into() } else { l.iter().map(|b| b.tok()).collect::<Vec<_>>().join(";") }
}

impl Op {
    fn tok(&self) -> String {
        match self {
            Op::AddL(id, b) => format!("al{id}:{}", b.tok()),
            Op::AddO(id, b) => format!("ao{id}:{}", b.tok()),
            Op::QL(id) => format!("ql{id}"),
            Op::QO(id) => format!("qo{id}"),
            Op::Rx => "rx".into(),
            Op::SetL(id, l) => format!("sl{id}:{}", list_tok(l)),
            Op::LatestOf(l) => format!("lk:{}", list_tok(l)),
        }
    }
}

/// Real key material for the small numbers of a case (deterministic from the numbers).
struct Keys {
    erng: p2panda_encryption::Rng,
    ident: HashMap<usize, SecretKey>,
    prekey: HashMap<usize, SecretKey>,
    by_pub: HashMap<[u8; 32], usize>,
    sigs: HashMap<(usize, usize), XSignature>,
}

impl Keys {
    fn new() -> Keys {
        Keys { erng: p2panda_encryption::Rng::from_seed([3; 32]), ident: HashMap::new(), prekey: HashMap::new(), by_pub: HashMap::new(), sigs: HashMap::new() }
    }
    fn secret(n: usize, salt: u8) -> SecretKey {
        let mut b = [salt; 32];
        b[..8].copy_from_slice(&(n as u64).to_le_bytes());
        b[9] = salt.wrapping_mul(31).wrapping_add(n as u8);
        SecretKey::from_bytes(b)
    }
    fn ident_pub(&mut self, n: usize) -> PublicKey {
        self.ident.entry(n).or_insert_with(|| Keys::secret(n, 0x11)).verifying_key().unwrap()
    }
    fn prekey_pub(&mut self, n: usize) -> PublicKey {
        let p = self.prekey.entry(n).or_insert_with(|| Keys::secret(n, 0x77)).verifying_key().unwrap();
        self.by_pub.insert(p.to_bytes(), n);
        p
    }
    fn signature(&mut self, by: usize, msg: usize) -> XSignature {
        if let Some(s) = self.sigs.get(&(by, msg)) {
            return *s;
        }
        let pk = self.prekey_pub(msg);
        self.ident_pub(by);
        let s = PreKey::new(pk, Lifetime::from_range(0, 1)).sign(&self.ident[&by], &self.erng).expect("sign");
        self.sigs.insert((by, msg), s);
        s
    }
    /// The signature bytes of a bundle spec. `sig_by == 0` = a forgery derived from the GENUINE signature
    /// of this bundle's identity over this bundle's pre-key; `sig_msg` selects the corruption:
    /// 0 = all-zero signature, k = one bit flipped in byte (7k mod 64) (and one more for large k).
    fn sig_of(&mut self, b: &BSpec) -> XSignature {
        if b.sig_by != 0 {
            return self.signature(b.sig_by, b.sig_msg);
        }
        if b.sig_msg == 0 {
            return XSignature::from_bytes([0u8; 64]);
        }
        let mut x = self.signature(b.ident, b.prekey).to_bytes();
        x[(b.sig_msg * 7) % 64] ^= 0x40;
        if b.sig_msg > 64 {
            x[63 - (b.sig_msg % 5)] ^= 0x01;
        }
        XSignature::from_bytes(x)
    }
    fn longterm(&mut self, b: &BSpec, base: u64) -> LongTermKeyBundle {
        let pre = PreKey::new(self.prekey_pub(b.prekey), Lifetime::from_range(base + b.nb, base + b.na));
        let sig = self.sig_of(b);
        LongTermKeyBundle::new(self.ident_pub(b.ident), pre, sig)
    }
    fn onetime(&mut self, b: &BSpec, base: u64) -> OneTimeKeyBundle {
        let pre = PreKey::new(self.prekey_pub(b.prekey), Lifetime::from_range(base + b.nb, base + b.na));
        let otk = b.otk.map(|o| OneTimePreKey::new(self.prekey_pub(100_000 + o as usize), o));
        { let sig = self.sig_of(b); OneTimeKeyBundle::new(self.ident_pub(b.ident), pre, sig, otk) }
    }
}

/// Independent signature verdict on a bundle handed out by the registry (fields are private: serde).
fn sig_genuine<T: serde::Serialize>(keys: &mut Keys, kb: &T, ident: usize, prekey: usize) -> bool {
    let v = serde_json::to_value(kb).unwrap();
    let got: Vec<u8> = v["prekey_signature"].as_array().map(|a| a.iter().map(|x| x.as_u64().unwrap() as u8).collect()).unwrap_or_default();
    let msg: Vec<u8> = keys.prekey_pub(prekey).to_bytes().to_vec();
    match <[u8; 64]>::try_from(got.as_slice()) {
        Ok(bytes) => p2panda_encryption::crypto::xeddsa::xeddsa_verify(&msg, &keys.ident_pub(ident), &XSignature::from_bytes(bytes)).is_ok(),
        Err(_) => false,
    }
}

/// Shadow state for the oracle: what was accepted, per member, judged with the property's own
/// notion of validity (never with the registry's answers).
#[derive(Clone, Default)]
struct Shadow {
    longterm: HashMap<usize, Vec<BSpec>>,
    onetime: HashMap<usize, Vec<BSpec>>,
    identities: HashMap<usize, usize>,
    restored: std::collections::HashSet<usize>,
    expired_while_stored: bool,
}

struct PhaseOut {
    reg: Reg,
    shadow: Shadow,
    answers: Vec<String>,
    fails: Vec<(String, String)>,
    stats: Vec<String>,
}

fn add_err(e: KeyRegistryError) -> &'static str {
    use p2panda_encryption::key_bundle::KeyBundleError as K;
    match e {
        KeyRegistryError::KeyBundle(K::Lifetime(_)) => "E:lifetime",
        KeyRegistryError::KeyBundle(K::XEdDSA(_)) => "E:sig",
        _ => "E:other",
    }
}

fn run_phase(keys: &mut Keys, reg: &Reg, shadow: &Shadow, ops: &[Op], base: u64, now: u64) -> PhaseOut {
    let mut reg = reg.clone();
    let mut sh = shadow.clone();
    let mut answers = vec![];
    let mut fails = vec![];
    let mut stats = vec![];
    for (n, op) in ops.iter().enumerate() {
        match op {
            Op::AddL(id, b) | Op::AddO(id, b) => {
                let is_l = matches!(op, Op::AddL(..));
                let r = if is_l {
                    let kb = keys.longterm(b, base);
                    let y = reg.clone();
                    hc::catch(AssertUnwindSafe(|| KeyRegistry::add_longterm_bundle(y, *id, kb)))
                } else {
                    let kb = keys.onetime(b, base);
                    let y = reg.clone();
                    hc::catch(AssertUnwindSafe(|| KeyRegistry::add_onetime_bundle(y, *id, kb)))
                };
                let a = match r {
                    Ok(Ok(y)) => {
                        reg = y;
                        // oracle: only currently valid, genuinely signed bundles may be accepted
                        if !(b.nb < now) {
                            fails.push(("accepted-not-yet-valid".into(), format!("op {n}: bundle {} accepted at {now}", b.tok())));
                        } else if !(now < b.na) {
                            fails.push(("accepted-expired".into(), format!("op {n}: bundle {} accepted at {now}", b.tok())));
                        } else if !b.genuine() {
                            let has_genuine = sh.longterm.get(id).into_iter().chain(sh.onetime.get(id)).flatten().any(|g| g.genuine() && g.ident == b.ident && g.prekey == b.prekey);
                            let tag = if has_genuine { "forged-signature-accepted-after-genuine" } else { "accepted-bad-signature" };
                            fails.push((tag.into(), format!("op {n}: bundle {} accepted", b.tok())));
                        }
                        sh.identities.insert(*id, b.ident);
                        let l = if is_l { sh.longterm.entry(*id).or_default() } else { sh.onetime.entry(*id).or_default() };
                        if !(is_l && l.contains(b)) {
                            l.push(b.clone());
                        }
                        stats.push(format!("add-{}-ok", if is_l { "lt" } else { "ot" }));
                        "ok"
                    }
                    Ok(Err(e)) => {
                        let w = add_err(e);
                        if b.valid_at(now) {
                            fails.push(("valid-rejected".into(), format!("op {n}: valid bundle {} rejected with {w} at {now}", b.tok())));
                        }
                        stats.push(format!("add-{w}"));
                        w
                    }
                    Err(_) => {
                        // the documented `assert_eq!` on a changed identity key: not part of C38, but
                        // any other panic is a failure
                        let known = sh.identities.get(id).copied();
                        if known.is_none() || known == Some(b.ident) || !b.valid_at(now) {
                            fails.push(("panic".into(), format!("op {n}: add panicked for {}", b.tok())));
                        }
                        stats.push("add-identity-panic".into());
                        "PANIC"
                    }
                };
                answers.push(a.to_string());
            }
            Op::QL(id) => {
                let mut forged_mark = "";
                let r = <KeyRegistry<usize> as PreKeyRegistry<usize, LongTermKeyBundle>>::key_bundle(reg.clone(), id);
                let stored = sh.longterm.get(id).cloned().unwrap_or_default();
                // the query path consults lifetimes only (signatures are checked when a bundle is added;
                // a list restored from persistence is taken as it is)
                let best = stored.iter().filter(|b| b.life_at(now)).map(|b| b.na).max();
                if stored.iter().any(|b| !b.life_at(now)) {
                    sh.expired_while_stored = true;
                }
                let a = match r {
                    Ok((y, Some(kb))) => {
                        reg = y;
                        let pk = keys.by_pub.get(&kb.signed_prekey().to_bytes()).copied().unwrap_or(0);
                        let ident_no = stored.iter().find(|b| b.prekey == pk).map(|b| b.ident).unwrap_or(0);
                        let ok_sig = sig_genuine(keys, &kb, ident_no, pk);
                        if !ok_sig && !sh.restored.contains(id) {
                            fails.push(("returned-forged-signature".into(), format!("op {n}: long-term query returned a bundle with an invalid signature (pre-key {pk})")));
                        }
                        forged_mark = if ok_sig { "" } else { "!" };
                        match stored.iter().find(|b| b.prekey == pk && b.genuine() == ok_sig) {
                            None => fails.push(("returned-unknown".into(), format!("op {n}: long-term query returned a bundle never accepted for member {id}"))),
                            Some(b) => {
                                if !b.life_at(now) {
                                    let tag = if !(b.nb < now) { "returned-not-yet-valid-longterm" } else { "returned-expired-longterm" };
                                    fails.push((tag.into(), format!("op {n}: long-term bundle {} returned at {now}", b.tok())));
                                } else if Some(b.na) != best {
                                    fails.push(("not-latest".into(), format!("op {n}: returned {} but a valid bundle with not_after {best:?} is stored", b.tok())));
                                }
                            }
                        }
                        stats.push("ql-some".into());
                        format!("b{pk}{forged_mark}")
                    }
                    Ok((y, None)) => {
                        reg = y;
                        if best.is_some() {
                            fails.push(("valid-not-returned".into(), format!("op {n}: member {id} has a valid long-term bundle but none was returned")));
                        }
                        stats.push("ql-none".into());
                        "-".into()
                    }
                    Err(_) => {
                        if best.is_some() {
                            fails.push(("valid-not-returned".into(), format!("op {n}: member {id} has a valid long-term bundle but KeyBundlesExpired was returned")));
                        }
                        stats.push("ql-expired".into());
                        "E:expired".into()
                    }
                };
                answers.push(a);
            }
            Op::QO(id) => {
                let mut forged_o = "";
                let (y, got) = <KeyRegistry<usize> as PreKeyRegistry<usize, OneTimeKeyBundle>>::key_bundle(reg.clone(), id).unwrap();
                reg = y;
                let stored = sh.onetime.entry(*id).or_default();
                if stored.iter().any(|b| !b.valid_at(now)) {
                    sh.expired_while_stored = true;
                }
                let any_valid = stored.iter().any(|b| b.valid_at(now));
                let a = match got {
                    Some(kb) => {
                        let pk = keys.by_pub.get(&kb.signed_prekey().to_bytes()).copied().unwrap_or(0);
                        let ident_no = stored.iter().find(|b| b.prekey == pk).map(|b| b.ident).unwrap_or(0);
                        let ok_sig = sig_genuine(keys, &kb, ident_no, pk);
                        if !ok_sig {
                            fails.push(("returned-forged-signature".into(), format!("op {n}: one-time query handed out a bundle with an invalid signature (pre-key {pk})")));
                        }
                        forged_o = if ok_sig { "" } else { "!" };
                        match stored.iter().rposition(|b| b.prekey == pk && b.genuine() == ok_sig) {
                            None => fails.push(("returned-unknown".into(), format!("op {n}: one-time query returned a bundle not (or no longer) stored for member {id}"))),
                            Some(i) => {
                                let b = stored.remove(i);
                                if !b.life_at(now) {
                                    fails.push(("returned-expired-onetime".into(), format!("op {n}: one-time bundle {} handed out at {now}", b.tok())));
                                }
                            }
                        }
                        stats.push("qo-some".into());
                        format!("b{pk}{forged_o}")
                    }
                    None => {
                        if any_valid {
                            fails.push(("valid-not-returned".into(), format!("op {n}: member {id} has a valid one-time bundle but none was returned")));
                        }
                        stats.push("qo-none".into());
                        "-".into()
                    }
                };
                // expired bundles that were skipped are gone from the registry: nothing to track for
                // soundness; drop them from the shadow when a valid one behind them was returned
                answers.push(a);
            }
            Op::SetL(id, l) => {
                // patch the serialised state and read it back (fields are private)
                let mut v = serde_json::to_value(&reg).expect("registry to json");
                let bundles: Vec<Value> = l.iter().map(|b| serde_json::to_value(keys.longterm(b, base)).unwrap()).collect();
                v["longterm_bundles"][id.to_string()] = Value::Array(bundles);
                reg = serde_json::from_value(v).expect("registry from json");
                sh.longterm.insert(*id, l.clone());
                sh.restored.insert(*id);
                stats.push("restore-longterm-list".into());
                answers.push("ok".into());
            }
            Op::LatestOf(l) => {
                let bundles: Vec<LongTermKeyBundle> = l.iter().map(|b| keys.longterm(b, base)).collect();
                let got = latest_key_bundle(&bundles);
                let best = l.iter().filter(|b| b.life_at(now)).map(|b| b.na).max();
                let a = match got {
                    Some(kb) => {
                        let pk = keys.by_pub.get(&kb.signed_prekey().to_bytes()).copied().unwrap_or(0);
                        match l.iter().find(|b| b.prekey == pk) {
                            None => fails.push(("returned-unknown".into(), format!("op {n}: latest_key_bundle returned a bundle that is not in the list"))),
                            Some(b) => {
                                if !b.life_at(now) {
                                    let tag = if !(b.nb < now) { "latest-not-yet-valid" } else { "latest-expired" };
                                    fails.push((tag.into(), format!("op {n}: latest_key_bundle returned {} at {now}", b.tok())));
                                } else if Some(b.na) != best {
                                    fails.push(("not-latest".into(), format!("op {n}: latest_key_bundle returned {} but not_after {best:?} is available", b.tok())));
                                }
                            }
                        }
                        stats.push("lk-some".into());
                        let ident_no = l.iter().find(|b| b.prekey == pk).map(|b| b.ident).unwrap_or(0);
                        format!("b{pk}{}", if sig_genuine(keys, kb, ident_no, pk) { "" } else { "!" })
                    }
                    None => {
                        if best.is_some() {
                            fails.push(("valid-not-returned".into(), format!("op {n}: latest_key_bundle returned nothing although a bundle inside its lifetime is in the list")));
                        }
                        stats.push("lk-none".into());
                        "-".into()
                    }
                };
                answers.push(a);
            }
            Op::Rx => {
                reg = KeyRegistry::remove_expired(reg);
                for l in sh.longterm.values_mut().chain(sh.onetime.values_mut()) {
                    l.retain(|b| b.valid_at(now));
                }
                stats.push("remove-expired".into());
                answers.push("ok".into());
            }
        }
    }
    PhaseOut { reg, shadow: sh, answers, fails, stats }
}

struct Case {
    p1: Vec<Op>,
    p2: Vec<Op>,
    kind: &'static str,
}

/// Lifetime classes relative to the two clock readings T1 and T2 = T1 + D.
fn rand_lifetime(rng: &mut Rng, d: u64) -> (u64, u64) {
    let t2 = T1 + d;
    match rng.below(12) {
        0 => (800, *rng.pick(&[990, T1 - 1, T1])),                          // expired already (edge: not_after == now)
        1 => (*rng.pick(&[T1, T1 + 1, t2 - 1]), 3000),                      // not yet valid at T1, valid at T2
        2 => (*rng.pick(&[t2, t2 + 1, 2000]), 3000),                        // not yet valid at either
        3 | 4 | 5 => (*rng.pick(&[900, T1 - 1]), *rng.pick(&[T1 + 1, T1 + 2, t2 - 1, t2])), // valid at T1, expired at T2
        6 => (900, t2 + 1),                                                 // valid at both, edge
        7 => (T1 - 1, *rng.pick(&[t2 + 1, t2 + 2])),
        _ => (*rng.pick(&[500, 900]), *rng.pick(&[5000, 5001, 6000, 6000])), // valid long (colliding not_after)
    }
}

fn gen_case(rng: &mut Rng, d: u64, next_prekey: &mut usize) -> Case {
    let members = rng.range(1, 2) as usize;
    let nb = rng.range(3, 9);
    let mut bundles: Vec<(bool, usize, BSpec)> = vec![];
    for _ in 0..nb {
        let id = rng.range(1, members as u64) as usize;
        let prekey = *next_prekey;
        *next_prekey += 1;
        let (nbf, naf) = rand_lifetime(rng, d);
        let (ident, sig_by, sig_msg) = match rng.below(14) {
            0 => (id, 0, prekey),                              // corrupted signature bytes
            1 => (id, 3, prekey),                              // signed by somebody else
            2 => (id, id, prekey.saturating_sub(1).max(1)),    // genuine signature over another pre-key
            3 => (3, 3, prekey),                               // foreign identity key, consistently signed
            _ => (id, id, prekey),
        };
        let is_l = rng.chance(1, 2);
        let otk = if !is_l && rng.chance(3, 4) { Some(rng.range(1, 50)) } else { None };
        bundles.push((is_l, id, BSpec { ident, prekey, nb: nbf, na: naf, sig_by, sig_msg, otk }));
    }
    let add = |x: &(bool, usize, BSpec)| if x.0 { Op::AddL(x.1, x.2.clone()) } else { Op::AddO(x.1, x.2.clone()) };
    // forged copies of genuine bundles: same identity key and signed pre-key, corrupted signature, valid
    // lifetime — handed to registries that do (copy placed after the genuine add) or do not (placed before it,
    // or the genuine one never added) already hold the genuine bundle
    let mut forged_after: Vec<(usize, (bool, usize, BSpec))> = vec![];
    let mut forged_alone: Vec<(bool, usize, BSpec)> = vec![];
    for (i, x) in bundles.clone().iter().enumerate() {
        if x.2.genuine() && x.2.valid_at(T1) && rng.chance(1, 2) {
            for _ in 0..rng.range(1, 2) {
                let mut f = x.2.clone();
                f.sig_by = 0;
                f.sig_msg = *rng.pick(&[0usize, 1, 2, 5, 9, 63, 70]);
                f.na = *rng.pick(&[x.2.na, 5000, 6001]);
                f.nb = 900;
                if let Some(o) = f.otk { f.otk = Some(o + 100); }
                if rng.chance(3, 4) { forged_after.push((i, (x.0, x.1, f))); } else { forged_alone.push((x.0, x.1, f)); }
            }
        }
    }
    let mut p1: Vec<Op> = bundles.iter().map(add).collect();
    if rng.chance(1, 3) {
        let x = rng.pick(&bundles).clone();
        p1.push(add(&x)); // the same bundle again
    }
    rng.shuffle(&mut p1);
    for (i, f) in &forged_after {
        // somewhere after the genuine add
        let genuine_tok = add(&bundles[*i]).tok();
        let pos = p1.iter().position(|o| o.tok() == genuine_tok).unwrap_or(0);
        let at = rng.range(pos as u64 + 1, p1.len() as u64) as usize;
        p1.insert(at, add(f));
    }
    for f in &forged_alone {
        p1.insert(0, add(f));
    }
    if !forged_after.is_empty() {
        for m in 1..=members {
            for _ in 0..rng.range(1, 3) {
                p1.push(Op::QO(m));
            }
        }
    }
    for m in 1..=members {
        if rng.chance(2, 3) {
            p1.push(Op::QL(m));
        }
        if rng.chance(1, 3) {
            p1.push(Op::QO(m));
        }
    }
    if rng.chance(1, 6) {
        p1.push(Op::Rx);
        p1.push(Op::QL(1));
    }
    // a member whose long-term list comes from persistence: any mix, any order, nothing verified
    let restored: Option<(usize, Vec<BSpec>)> = if rng.chance(1, 2) {
        let id = 4;
        let l: Vec<BSpec> = (0..rng.range(1, 5))
            .map(|_| {
                let prekey = *next_prekey;
                *next_prekey += 1;
                let (nbf, naf) = rand_lifetime(rng, d);
                let bad = rng.chance(1, 5);
                BSpec { ident: id, prekey, nb: nbf, na: naf, sig_by: if bad { 0 } else { id }, sig_msg: prekey, otk: None }
            })
            .collect();
        p1.push(Op::SetL(id, l.clone()));
        p1.push(Op::QL(id));
        p1.push(Op::LatestOf(l.clone()));
        Some((id, l))
    } else {
        None
    };
    let mut p2: Vec<Op> = vec![];
    if let Some((id, l)) = &restored {
        p2.push(Op::QL(*id));
        p2.push(Op::LatestOf(l.clone()));
    }
    for x in &bundles {
        if rng.chance(1, 3) {
            p2.push(add(x)); // re-announce at the later time
        }
    }
    for m in 1..=members {
        p2.push(Op::QL(m));
        for _ in 0..rng.range(1, 4) {
            p2.push(Op::QO(m));
        }
    }
    if rng.chance(1, 2) {
        p2.push(Op::Rx);
        for m in 1..=members {
            p2.push(Op::QL(m));
            p2.push(Op::QO(m));
        }
    }
    Case { p1, p2, kind: "random" }
}

/// The witness of the defect found by reading: a one-time bundle valid when added, expired when popped.
fn witness_cases(d: u64, next_prekey: &mut usize) -> Vec<Case> {
    let mut mk = |nb, na, otk| {
        let p = *next_prekey;
        *next_prekey += 1;
        BSpec { ident: 1, prekey: p, nb, na, sig_by: 1, sig_msg: p, otk }
    };
    let t2 = T1 + d;
    let g1 = mk(900, 5000, Some(1));
    let g2 = mk(900, 5000, None);
    let forge = |g: &BSpec, variant: usize, otk: Option<u64>| BSpec { sig_by: 0, sig_msg: variant, otk, ..g.clone() };
    let mut out = vec![
        // genuine one-time bundle, then copies with the same identity key + signed pre-key and corrupted signatures
        Case { p1: vec![Op::AddO(1, g1.clone()), Op::AddO(1, forge(&g1, 0, Some(2))), Op::AddO(1, forge(&g1, 1, Some(3))), Op::AddO(1, forge(&g1, 9, Some(4))), Op::QO(1), Op::QO(1)],
               p2: vec![Op::AddO(1, forge(&g1, 63, Some(5))), Op::QO(1), Op::QO(1)], kind: "fixed-forged-after-genuine" },
        Case { p1: vec![Op::AddO(1, forge(&g1, 1, Some(2))), Op::AddO(1, g1.clone()), Op::QO(1), Op::QO(1)], p2: vec![Op::QO(1)], kind: "fixed-forged-after-genuine" },
        Case { p1: vec![Op::AddL(1, g2.clone()), Op::AddL(1, forge(&g2, 0, None)), Op::AddL(1, forge(&g2, 2, None)), Op::QL(1)],
               p2: vec![Op::AddL(1, forge(&g2, 70, None)), Op::QL(1)], kind: "fixed-forged-after-genuine" },
    ];
    out.extend(vec![
        Case { p1: vec![Op::AddO(1, mk(900, T1 + 1, Some(1)))], p2: vec![Op::QO(1), Op::QO(1)], kind: "witness-onetime-expired" },
        Case {
            p1: vec![Op::AddO(1, mk(900, 5000, Some(1))), Op::AddO(1, mk(900, t2, Some(2))), Op::AddO(1, mk(900, t2 - 1, None))],
            p2: vec![Op::QO(1), Op::QO(1), Op::QO(1)],
            kind: "witness-onetime-expired",
        },
        Case {
            p1: vec![Op::AddL(1, mk(900, T1 + 1, None)), Op::AddL(1, mk(900, 5000, None)), Op::AddL(1, mk(900, 6000, None)), Op::QL(1)],
            p2: vec![Op::QL(1), Op::Rx, Op::QL(1)],
            kind: "fixed-longterm",
        },
        Case { p1: vec![Op::AddL(1, mk(900, T1 + 2, None)), Op::QL(1)], p2: vec![Op::QL(1), Op::Rx, Op::QL(1), Op::QL(2)], kind: "fixed-longterm" },
    ]);
    out
}

fn line_of(c: &Case, now2: u64) -> String {
    let mut v = vec![format!("t{T1}")];
    v.extend(c.p1.iter().map(|o| o.tok()));
    v.push(format!("t{now2}"));
    v.extend(c.p2.iter().map(|o| o.tok()));
    v.join(" ")
}

struct Mid {
    reg: Reg,
    shadow: Shadow,
    answers: Vec<String>,
    fails: Vec<(String, String)>,
    stats: Vec<String>,
}

fn run_batches(out: &mut Out, cases: Vec<Case>, d: u64, batch: usize) {
    let mut keys = Keys::new();
    // pre-build every key and signature outside the timed windows
    for c in &cases {
        for op in c.p1.iter().chain(c.p2.iter()) {
            if let Op::AddL(_, b) | Op::AddO(_, b) = op {
                keys.longterm(b, 0);
                keys.onetime(b, 0);
            }
            if let Op::SetL(_, l) | Op::LatestOf(l) = op {
                for b in l {
                    keys.longterm(b, 0);
                }
            }
        }
    }
    let mut done: Vec<(usize, u64, Vec<Mid>)> = vec![]; // (first case index, base, per-case state)
    let mut i = 0;
    while i < cases.len() {
        let j = (i + batch).min(cases.len());
        loop {
            let t = unix_now() + 1;
            wait_until(t);
            let base = t - T1;
            let mut mids = vec![];
            for c in &cases[i..j] {
                let p = run_phase(&mut keys, &KeyRegistry::init(), &Shadow::default(), &c.p1, base, T1);
                mids.push(Mid { reg: p.reg, shadow: p.shadow, answers: p.answers, fails: p.fails, stats: p.stats });
            }
            if unix_now() == t {
                done.push((i, base, mids));
                break;
            }
            out.count("phase1-batch-retry(clock ticked)");
        }
        i = j;
    }
    // the one sleep of the run happens here: the first batch's second phase is due D seconds after
    // its first phase
    for (first, base, mids) in done {
        let mut target = base + T1 + d;
        loop {
            wait_until(target);
            let t = unix_now();
            let now2 = t - base;
            if now2 != T1 + d {
                out.count("phase2-off-schedule");
            }
            let mut results = vec![];
            for (k, m) in mids.iter().enumerate() {
                let c = &cases[first + k];
                let p = run_phase(&mut keys, &m.reg, &m.shadow, &c.p2, base, now2);
                results.push(p);
            }
            if unix_now() != t {
                out.count("phase2-batch-retry(clock ticked)");
                target = unix_now() + 1;
                continue;
            }
            for (k, (m, p)) in mids.iter().zip(results).enumerate() {
                let c = &cases[first + k];
                let line = line_of(c, now2);
                let mut ans = m.answers.clone();
                ans.extend(p.answers);
                let answer = ans.join(" ");
                let nt = p.shadow.expired_while_stored;
                let n = out.case(&line, &answer, nt);
                out.count(&format!("kind={}", c.kind));
                for s in m.stats.iter().chain(p.stats.iter()) {
                    out.count(s);
                }
                for (tag, what) in m.fails.iter().chain(p.fails.iter()) {
                    out.oracle_fail(n, tag, what, &line, &answer);
                }
            }
            break;
        }
    }
}

fn parse_bundle(t: &str) -> Option<BSpec> {
    let p: Vec<&str> = t.split('.').collect();
    if p.len() != 7 {
        return None;
    }
    Some(BSpec {
        ident: p[0].parse().ok()?,
        prekey: p[1].parse().ok()?,
        nb: p[2].parse().ok()?,
        na: p[3].parse().ok()?,
        sig_by: p[4].parse().ok()?,
        sig_msg: p[5].parse().ok()?,
        otk: if p[6] == "-" { None } else { Some(p[6].parse().ok()?) },
    })
}

fn parse_list(t: &str) -> Option<Vec<BSpec>> {
    if t == "-" {
        return Some(vec![]);
    }
    t.split(';').map(parse_bundle).collect()
}

/// Every sequence (so: every multiset in every order) of up to `maxlen` bundles drawn from the classes
/// valid / valid with a later expiry / expired / not yet valid with the latest expiry of all / valid
/// with a corrupted signature, as a restored long-term list and as a direct `latest_key_bundle` call.
/// Single clock reading; a case that straddles a second boundary is repeated.
fn exhaustive_lists(out: &mut Out, maxlen: usize) {
    let classes: [(u64, u64, bool); 5] = [
        (900, 5000, true),   // valid
        (T1 - 1, 6000, true), // valid, later expiry (edge: not_before == now - 1)
        (800, T1, true),     // expired (edge: not_after == now)
        (T1, 7000, true),    // not yet valid (edge: not_before == now), latest expiry of all
        (900, 6500, false),  // inside its lifetime, corrupted signature
    ];
    let mut keys = Keys::new();
    let spec = |pos: usize, c: usize| {
        let (nb, na, good) = classes[c];
        let prekey = 900_000 + pos * 10 + c;
        BSpec { ident: 5, prekey, nb, na, sig_by: if good { 5 } else { 0 }, sig_msg: prekey, otk: None }
    };
    for pos in 0..maxlen {
        for c in 0..classes.len() {
            keys.longterm(&spec(pos, c), 0);
        }
    }
    for len in 0..=maxlen {
        for code in 0..(classes.len() as u64).pow(len as u32) {
            let mut c = code;
            let l: Vec<BSpec> = (0..len)
                .map(|pos| {
                    let k = (c % classes.len() as u64) as usize;
                    c /= classes.len() as u64;
                    spec(pos, k)
                })
                .collect();
            let ops = vec![Op::LatestOf(l.clone()), Op::SetL(5, l), Op::QL(5)];
            loop {
                let t = unix_now();
                let base = t - T1;
                let p = run_phase(&mut keys, &KeyRegistry::init(), &Shadow::default(), &ops, base, T1);
                if unix_now() != t {
                    out.count("exhaustive-list-retry(clock ticked)");
                    continue;
                }
                let line = format!("t{T1} {}", ops.iter().map(|o| o.tok()).collect::<Vec<_>>().join(" "));
                let answer = p.answers.join(" ");
                let n = out.case(&line, &answer, p.shadow.expired_while_stored);
                out.count("kind=exhaustive-restored-list");
                for s in &p.stats {
                    out.count(s);
                }
                for (tag, what) in &p.fails {
                    out.oracle_fail(n, tag, what, &line, &answer);
                }
                break;
            }
        }
    }
}

/// Replay: phases are the `t<now>` sections of the line; the real clock is waited for.
fn replay(out: &mut Out, line: &str) {
    let mut phases: Vec<(u64, Vec<Op>)> = vec![];
    for t in line.split_whitespace() {
        let op = if let Some(r) = t.strip_prefix("t") {
            match r.parse() {
                Ok(n) => {
                    phases.push((n, vec![]));
                    continue;
                }
                Err(_) => None,
            }
        } else if let Some(r) = t.strip_prefix("al") {
            r.split_once(':').and_then(|(i, b)| Some(Op::AddL(i.parse().ok()?, parse_bundle(b)?)))
        } else if let Some(r) = t.strip_prefix("ao") {
            r.split_once(':').and_then(|(i, b)| Some(Op::AddO(i.parse().ok()?, parse_bundle(b)?)))
        } else if let Some(r) = t.strip_prefix("ql") {
            r.parse().ok().map(Op::QL)
        } else if let Some(r) = t.strip_prefix("qo") {
            r.parse().ok().map(Op::QO)
        } else if let Some(r) = t.strip_prefix("sl") {
            r.split_once(':').and_then(|(i, bs)| Some(Op::SetL(i.parse().ok()?, parse_list(bs)?)))
        } else if let Some(r) = t.strip_prefix("lk:") {
            parse_list(r).map(Op::LatestOf)
        } else if t == "rx" {
            Some(Op::Rx)
        } else {
            None
        };
        match (op, phases.last_mut()) {
            (Some(op), Some(p)) => p.1.push(op),
            _ => {
                out.case(line, "bad-op", false);
                return;
            }
        }
    }
    if phases.is_empty() || phases.windows(2).any(|w| w[1].0 < w[0].0 || w[1].0 - w[0].0 > 60) {
        out.case(line, "unsupported-replay-clock", false);
        return;
    }
    let mut keys = Keys::new();
    for (_, ops) in &phases {
        for op in ops {
            if let Op::AddL(_, b) | Op::AddO(_, b) = op {
                keys.longterm(b, 0);
                keys.onetime(b, 0);
            }
        }
    }
    'again: loop {
        let t = unix_now() + 1;
        let base = t.saturating_sub(phases[0].0);
        let mut reg = KeyRegistry::init();
        let mut sh = Shadow::default();
        let mut answers = vec![];
        let mut fails = vec![];
        for (now, ops) in &phases {
            wait_until(base + now);
            let p = run_phase(&mut keys, &reg, &sh, ops, base, *now);
            if unix_now() != base + now {
                continue 'again;
            }
            reg = p.reg;
            sh = p.shadow;
            answers.extend(p.answers);
            fails.extend(p.fails);
        }
        let answer = answers.join(" ");
        let n = out.case(line, &answer, sh.expired_while_stored);
        for (tag, what) in fails {
            out.oracle_fail(n, &tag, &what, line, &answer);
        }
        return;
    }
}

fn main() {
    let args = Args::parse();
    let mut out = Out::new(&args.out);
    if args.mode == "replay" {
        let text = std::fs::read_to_string(args.replay.as_ref().expect("replay file")).unwrap();
        let v: Value = serde_json::from_str(&text).unwrap();
        replay(&mut out, v["request"].as_str().unwrap());
        out.finish("replay", false);
        return;
    }
    let mut rng = Rng::new(args.seed);
    let (ncases, batch) = match args.tier {
        Tier::Quick => (240, 122),
        Tier::Thorough => (3000, 250),
        Tier::Search => (1500, 250),
    };
    let nbatches = (ncases + 4 + batch - 1) / batch;
    let d = (nbatches as u64 + 2).max(3);
    let mut next_prekey = 1usize;
    let mut cases = witness_cases(d, &mut next_prekey);
    for _ in 0..ncases {
        cases.push(gen_case(&mut rng, d, &mut next_prekey));
    }
    out.extra.insert("clock_gap_seconds".into(), d.into());
    exhaustive_lists(&mut out, match args.tier { Tier::Quick => 4, _ => 5 });
    run_batches(&mut out, cases, d, batch);
    for bad in ["al1:1.2.3", "t", "qx1", "t1000 ao1:1.2.3.4.5.6", "ql"] {
        out.case(bad, "bad-op", false);
        out.count("kind=malformed-line");
    }
    out.finish(
        "exhaustive: every sequence of up to 4 (thorough 5) long-term bundles over the classes valid / valid with later expiry / expired (not_after == now) / not yet valid (not_before == now) with the latest expiry of all / corrupted signature — as a registry state restored through serde (nothing verified on the way in) queried with key_bundle, and as a direct latest_key_bundle call; random: the same with random lifetimes at two clock readings; random registries for 1-2 members with 3-9 real signed bundles each (long-term and one-time): lifetimes already expired / not yet valid / valid at the first clock reading and expired at the second (edges not_before == now, not_after == now at both readings) / valid long with colliding not_after; corrupted signature bytes, signature by another identity, genuine signature over another pre-key, foreign identity key; adds in random order with duplicates, queries, remove_expired, then the real clock advances D seconds and bundles are re-announced, queried (one-time queries until empty) and expired ones removed. non-trivial = at a query the member had a stored bundle that was valid when added and is no longer valid",
        false,
    );
}
