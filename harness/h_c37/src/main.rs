//! C37 — Two-party messaging decrypts in any interleaving and rejects replays.
//! Drives the real `OneTimeTwoParty` (real X3DH, HPKE, XEdDSA) with both parties initiating, as
//! /repo/fuzz's `groups_2sm` target does, extended with re-delivery of earlier messages.
//!
//! Request: action tokens `a` `b` `A` `B` `rA<k>` `rB<k>` (see lean/Drv/C37.lean).
use hc::serde_json::{self, Value};
use hc::{Args, Out, Rng, Tier};
use p2panda_encryption::crypto::x25519::SecretKey;
use p2panda_encryption::key_bundle::{Lifetime, OneTimeKeyBundle};
use p2panda_encryption::key_manager::{KeyManager, KeyManagerState};
use p2panda_encryption::traits::PreKeyManager;
use p2panda_encryption::two_party::{OneTimeTwoParty, TwoPartyError, TwoPartyMessage, TwoPartyState};
use std::panic::AssertUnwindSafe;

#[derive(Clone, Copy, Debug, PartialEq)]
enum Act {
    SendA,
    SendB,
    RecvA,
    RecvB,
    ReplayA(usize),
    ReplayB(usize),
}

impl Act {
    fn tok(&self) -> String {
        match self {
            Act::SendA => "a".into(),
            Act::SendB => "b".into(),
            Act::RecvA => "A".into(),
            Act::RecvB => "B".into(),
            Act::ReplayA(k) => format!("rA{k}"),
            Act::ReplayB(k) => format!("rB{k}"),
        }
    }
}

type St = TwoPartyState<OneTimeKeyBundle>;

#[derive(Clone)]
struct Setup {
    a_mgr: KeyManagerState,
    b_mgr: KeyManagerState,
    a_2sm: St,
    b_2sm: St,
}

fn setup(erng: &p2panda_encryption::Rng) -> Setup {
    let a_id = SecretKey::from_bytes(erng.random_array().unwrap());
    let a_mgr = KeyManager::init_and_generate_prekey(&a_id, Lifetime::default(), erng).unwrap();
    let (a_mgr, a_bundle) = KeyManager::generate_onetime_bundle(a_mgr, erng).unwrap();
    let b_id = SecretKey::from_bytes(erng.random_array().unwrap());
    let b_mgr = KeyManager::init_and_generate_prekey(&b_id, Lifetime::default(), erng).unwrap();
    let (b_mgr, b_bundle) = KeyManager::generate_onetime_bundle(b_mgr, erng).unwrap();
    Setup { a_mgr, b_mgr, a_2sm: OneTimeTwoParty::init_to_send(b_bundle), b_2sm: OneTimeTwoParty::init_to_send(a_bundle) }
}

fn err_word(e: &TwoPartyError) -> &'static str {
    match e {
        TwoPartyError::PreKeyReuse => "E:reuse",
        TwoPartyError::InvalidCiphertextType => "E:type",
        TwoPartyError::UnknownSecretUsed(_) => "E:unknown",
        TwoPartyError::Hpke(_) | TwoPartyError::X3dh(_) => "E:decrypt",
        TwoPartyError::UnknownPreKeyUsed(_) => "E:prekey",
        _ => "E:other",
    }
}

fn key_used(m: &TwoPartyMessage) -> String {
    let v = serde_json::to_value(m).unwrap();
    match &v["key_used"] {
        Value::String(s) if s == "PreKey" => "P".into(),
        Value::String(s) if s == "ReceivedKey" => "R".into(),
        Value::Object(o) => format!("O{}", o["OwnKey"].as_u64().unwrap()),
        x => format!("?{x}"),
    }
}

fn party_str(y: &St) -> String {
    let v = serde_json::to_value(y).unwrap();
    let ku = match &v["their_next_key_used"] {
        Value::String(s) if s == "PreKey" => "P".to_string(),
        Value::String(s) if s == "ReceivedKey" => "R".to_string(),
        Value::Object(o) => format!("O{}", o["OwnKey"].as_u64().unwrap()),
        x => format!("?{x}"),
    };
    format!(
        "{} {} {} {}",
        v["our_next_key_index"].as_u64().unwrap(),
        v["our_min_key_index"].as_u64().unwrap(),
        v["our_secret_keys"].as_object().map(|o| o.len()).unwrap_or(0),
        ku
    )
}

struct Ran {
    answer: String,
    nontrivial: bool,
    fails: Vec<(String, String)>,
    stats: Vec<String>,
}

fn run_case(su: &Setup, erng: &p2panda_encryption::Rng, acts: &[Act]) -> Ran {
    let Setup { mut a_mgr, mut b_mgr, mut a_2sm, mut b_2sm } = su.clone();
    let mut sent_ab: Vec<(u64, TwoPartyMessage)> = vec![];
    let mut sent_ba: Vec<(u64, TwoPartyMessage)> = vec![];
    let (mut proc_ab, mut proc_ba) = (0usize, 0usize);
    let mut plain_no: u64 = 0;
    let mut out = vec![];
    let mut fails = vec![];
    let mut stats = vec![];
    let mut tainted = false; // an out-of-order delivery happened: FIFO claims no longer apply
    let (mut own_used, mut replay_rejected, mut crossed) = (false, 0, false);
    for (n, act) in acts.iter().enumerate() {
        match act {
            Act::SendA | Act::SendB => {
                let is_a = *act == Act::SendA;
                let mut pt = plain_no.to_le_bytes().to_vec();
                pt.extend_from_slice(&[0xAB; 24]);
                let r = if is_a {
                    OneTimeTwoParty::send(a_2sm.clone(), &a_mgr, &pt, erng)
                } else {
                    OneTimeTwoParty::send(b_2sm.clone(), &b_mgr, &pt, erng)
                };
                match r {
                    Ok((y, m)) => {
                        let ku = key_used(&m);
                        stats.push(format!("sent-{}", &ku[..1]));
                        out.push(format!("S:{ku}"));
                        if is_a {
                            a_2sm = y;
                            sent_ab.push((plain_no, m));
                        } else {
                            b_2sm = y;
                            sent_ba.push((plain_no, m));
                        }
                        plain_no += 1;
                    }
                    Err(e) => {
                        fails.push(("send-failed".into(), format!("action {n}: send failed: {e}")));
                        out.push(err_word(&e).into());
                    }
                }
            }
            Act::RecvA | Act::RecvB | Act::ReplayA(_) | Act::ReplayB(_) => {
                let to_a = matches!(act, Act::RecvA | Act::ReplayA(_));
                let (list, proc) = if to_a { (&sent_ba, proc_ba) } else { (&sent_ab, proc_ab) };
                let (k, fifo) = match act {
                    Act::RecvA | Act::RecvB => (proc, true),
                    Act::ReplayA(k) | Act::ReplayB(k) => (*k, false),
                    _ => unreachable!(),
                };
                let Some((expect, m)) = list.get(k).cloned() else {
                    out.push("-".into());
                    stats.push("idle".into());
                    continue;
                };
                let is_replay = !fifo && k < proc;
                if !fifo && k >= proc {
                    tainted = true;
                    stats.push("out-of-order-delivery".into());
                }
                let ku = key_used(&m);
                let r = if to_a {
                    OneTimeTwoParty::receive(a_2sm.clone(), a_mgr.clone(), m)
                } else {
                    OneTimeTwoParty::receive(b_2sm.clone(), b_mgr.clone(), m)
                };
                match r {
                    Ok((y, mgr, pt)) => {
                        let got = if pt.len() == 32 && pt[8..] == [0xAB; 24] { u64::from_le_bytes(pt[..8].try_into().unwrap()) } else { u64::MAX };
                        out.push(format!("G{got}"));
                        if is_replay {
                            fails.push(("replay-accepted".into(), format!("action {n}: message {k} (key_used {ku}) was processed before and is accepted again")));
                        } else if got != expect {
                            fails.push(("wrong-plaintext".into(), format!("action {n}: message {k} decrypted to plaintext {got}, sent {expect}")));
                        }
                        if fifo {
                            if ku.starts_with('O') {
                                own_used = true;
                            }
                            if ku == "P" && k == 0 && (if to_a { !sent_ab.is_empty() && key_used(&sent_ab[0].1) == "P" } else { !sent_ba.is_empty() && key_used(&sent_ba[0].1) == "P" }) {
                                crossed = true;
                            }
                            stats.push(format!("recv-ok-{}", &ku[..1]));
                        }
                        if to_a {
                            a_2sm = y;
                            a_mgr = mgr;
                            if fifo { proc_ba += 1 }
                        } else {
                            b_2sm = y;
                            b_mgr = mgr;
                            if fifo { proc_ab += 1 }
                        }
                    }
                    Err(e) => {
                        let w = err_word(&e);
                        out.push(w.into());
                        if fifo && !tainted {
                            fails.push(("decrypt-failed".into(), format!("action {n}: in-order message {k} (key_used {ku}) rejected: {e}")));
                        }
                        if is_replay {
                            replay_rejected += 1;
                            stats.push(format!("replay-rejected-{}-{w}", &ku[..1]));
                        }
                    }
                }
            }
        }
    }
    out.push("|".into());
    out.push("A".into());
    out.push(party_str(&a_2sm));
    out.push("B".into());
    out.push(party_str(&b_2sm));
    Ran { answer: out.join(" "), nontrivial: own_used && replay_rejected > 0 && crossed, fails, stats }
}

fn emit(out: &mut Out, su: &Setup, erng: &p2panda_encryption::Rng, acts: &[Act], kind: &str) {
    let line = acts.iter().map(|a| a.tok()).collect::<Vec<_>>().join(" ");
    let r = match hc::catch(AssertUnwindSafe(|| run_case(su, erng, acts))) {
        Ok(r) => r,
        Err(p) => Ran { answer: "PANIC".into(), nontrivial: false, fails: vec![("panic".into(), p)], stats: vec![] },
    };
    let n = out.case(&line, &r.answer, r.nontrivial);
    out.count(&format!("kind={kind}"));
    for s in &r.stats {
        out.count(s);
    }
    out.count_n("actions", acts.len() as u64);
    for (tag, what) in r.fails {
        out.oracle_fail(n, &tag, &what, &line, &r.answer);
    }
}

/// Every action string over {a, b, A, B} up to `maxlen`, each followed by a re-delivery of every
/// message ever sent (processed ones are replays; the rest is ignored by putting replays of
/// unprocessed messages last is avoided: only processed indices are replayed).
fn exhaustive(out: &mut Out, su: &Setup, erng: &p2panda_encryption::Rng, maxlen: usize) {
    let base = [Act::SendA, Act::SendB, Act::RecvA, Act::RecvB];
    for len in 0..=maxlen {
        for code in 0..4u64.pow(len as u32) {
            let mut c = code;
            let mut acts = vec![];
            let (mut sa, mut sb, mut pa, mut pb) = (0usize, 0usize, 0usize, 0usize);
            for _ in 0..len {
                let a = base[(c % 4) as usize];
                c /= 4;
                match a {
                    Act::SendA => sa += 1,
                    Act::SendB => sb += 1,
                    Act::RecvA => pa = (pa + 1).min(sb),
                    Act::RecvB => pb = (pb + 1).min(sa),
                    _ => {}
                }
                acts.push(a);
            }
            for k in 0..pa {
                acts.push(Act::ReplayA(k));
            }
            for k in 0..pb {
                acts.push(Act::ReplayB(k));
            }
            emit(out, su, erng, &acts, "exhaustive");
        }
    }
}

fn random_case(out: &mut Out, su: &Setup, erng: &p2panda_encryption::Rng, rng: &mut Rng, maxlen: u64, adversarial: bool) {
    let len = rng.range(1, maxlen);
    let mut acts = vec![];
    let (mut sa, mut sb, mut pa, mut pb) = (0usize, 0usize, 0usize, 0usize);
    // a bias per session so that queues build up in some sessions and stay short in others
    let send_bias = rng.range(1, 5);
    for _ in 0..len {
        let r = rng.below(10 + send_bias);
        let a = if r < 2 && (pa > 0 || pb > 0) {
            // replay an already processed message at any later point
            if pa > 0 && (pb == 0 || rng.chance(1, 2)) { Act::ReplayA(rng.below(pa as u64) as usize) } else { Act::ReplayB(rng.below(pb as u64) as usize) }
        } else if adversarial && r == 2 {
            // deliver out of order (a not yet processed message) or out of range
            if rng.chance(1, 2) { Act::ReplayA(rng.below(sb as u64 + 2) as usize) } else { Act::ReplayB(rng.below(sa as u64 + 2) as usize) }
        } else {
            match rng.below(4 + send_bias) {
                0 => Act::RecvA,
                1 => Act::RecvB,
                x if x % 2 == 0 => Act::SendA,
                _ => Act::SendB,
            }
        };
        match a {
            Act::SendA => sa += 1,
            Act::SendB => sb += 1,
            Act::RecvA => pa = (pa + 1).min(sb),
            Act::RecvB => pb = (pb + 1).min(sa),
            _ => {}
        }
        acts.push(a);
    }
    // drain both queues, then replay a few
    if rng.chance(1, 2) {
        for _ in pa..sb {
            acts.push(Act::RecvA);
        }
        for _ in pb..sa {
            acts.push(Act::RecvB);
        }
        if sb > 0 {
            acts.push(Act::ReplayA(rng.below(sb as u64) as usize));
        }
        if sa > 0 {
            acts.push(Act::ReplayB(rng.below(sa as u64) as usize));
        }
    }
    emit(out, su, erng, &acts, if adversarial { "random-adversarial" } else { "random" });
}

fn parse_line(line: &str) -> Option<Vec<Act>> {
    line.split_whitespace()
        .map(|t| match t {
            "a" => Some(Act::SendA),
            "b" => Some(Act::SendB),
            "A" => Some(Act::RecvA),
            "B" => Some(Act::RecvB),
            _ => {
                if let Some(r) = t.strip_prefix("rA") {
                    r.parse().ok().map(Act::ReplayA)
                } else if let Some(r) = t.strip_prefix("rB") {
                    r.parse().ok().map(Act::ReplayB)
                } else {
                    None
                }
            }
        })
        .collect()
}

fn main() {
    let args = Args::parse();
    let mut out = Out::new(&args.out);
    let erng = p2panda_encryption::Rng::from_seed([(args.seed % 251) as u8; 32]);
    let su = setup(&erng);
    if args.mode == "replay" {
        let text = std::fs::read_to_string(args.replay.as_ref().expect("replay file")).unwrap();
        let v: Value = serde_json::from_str(&text).unwrap();
        let req = v["request"].as_str().unwrap().to_string();
        match parse_line(&req) {
            Some(acts) => emit(&mut out, &su, &erng, &acts, "replay"),
            None => {
                out.case(&req, "bad-op", false);
            }
        }
        out.finish("replay", false);
        return;
    }
    let mut rng = Rng::new(args.seed);
    // the crate's own scripted session and the crossing-initiation case first
    for l in ["a B b A a B b A rA0 rB0 rA1 rB1", "a b A B a b B A rA0 rB0", "a a a b B B A B b A a B rB0 rB1 rB2 rB3 rA0 rA1"] {
        emit(&mut out, &su, &erng, &parse_line(l).unwrap(), "fixed");
    }
    let (exh, nrand, nadv, maxlen) = match args.tier {
        Tier::Quick => (5, 500, 120, 60),
        Tier::Thorough => (8, 12_000, 2_000, 120),
        Tier::Search => (7, 6_000, 1_500, 90),
    };
    exhaustive(&mut out, &su, &erng, exh);
    for _ in 0..nrand {
        random_case(&mut out, &su, &erng, &mut rng, maxlen, false);
    }
    for _ in 0..nadv {
        random_case(&mut out, &su, &erng, &mut rng, maxlen, true);
    }
    for bad in ["x", "a c", "rA", "rBx", "rC1"] {
        out.case(bad, "bad-op", false);
        out.count("kind=malformed-line");
    }
    out.finish(
        "exhaustive: every action string over {A sends, B sends, A receives, B receives} up to length 5 (thorough 8), each followed by a re-delivery of every already processed message to its receiver; random: sessions of up to 60 (thorough 120) actions with a per-session send bias, replays of earlier processed messages at arbitrary later points, final drain + replays; adversarial: also out-of-order / out-of-range deliveries (compared with the model only). non-trivial = both first messages crossed (both X3DH), some message under an OwnKey was received and at least one replay was rejected",
        true,
    );
}
