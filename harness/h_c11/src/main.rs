//! C11 — Causal orderer releases items only after, and always after, their dependencies.
//!
//! Drives the real `CausalOrderer<Hash, SqliteStore>` (p2panda-stream, re-exported through the verif
//! hook) on the real SQLite `OrdererStore`, every `process` / `next` inside its own transaction as
//! `Orderer::process` / `Orderer::next` do.
//!
//! Request line: `cur <op>*`, op = `p<k>:<d>,<d>,…` (process item k with that dependency list) | `D`
//! (call `next` until `None`).  Answer: per `p` `r<ready_len>q<queue_len>w<pending_len>`, per `D`
//! `[a,b|c]` = drained ids split into the groups queued by one process call each, each group sorted
//! (the order inside a group is HashSet-iteration dependent; the oracle judges the raw order).
use hc::{Args, Out, Rng, Tier};
use p2panda_core::Hash;
use p2panda_store::orderer::OrdererTestExt;
use p2panda_store::{SqliteStore, Transaction};
use p2panda_stream::orderer::VerifCausalOrderer as CausalOrderer;
use std::collections::{BTreeMap, BTreeSet};

#[derive(Clone, Debug, PartialEq)]
enum Op {
    P(u32, Vec<u32>),
    D,
}

fn hash_of(k: u32) -> Hash {
    Hash::digest(format!("item-{k}").as_bytes())
}

fn fmt_req(ops: &[Op]) -> String {
    let mut s = String::from("cur");
    for op in ops {
        match op {
            Op::P(k, ds) => {
                let d: Vec<String> = ds.iter().map(|d| d.to_string()).collect();
                s.push_str(&format!(" p{}:{}", k, d.join(",")));
            }
            Op::D => s.push_str(" D"),
        }
    }
    s
}

fn parse_req(req: &str) -> Vec<Op> {
    let mut ops = vec![];
    for t in req.split_whitespace().skip(1) {
        if t == "D" {
            ops.push(Op::D);
        } else {
            let (k, ds) = t[1..].split_once(':').expect("op");
            let ds: Vec<u32> = if ds.is_empty() { vec![] } else { ds.split(',').map(|d| d.parse().unwrap()).collect() };
            ops.push(Op::P(k.parse().unwrap(), ds));
        }
    }
    ops
}

struct Obs {
    answer: String,
    /// raw released ids per drain (implementation order)
    drains: Vec<(usize, Vec<u32>)>, // (index of the D op, ids)
    error: Option<String>,
}

async fn run_impl(ops: &[Op]) -> Obs {
    let store = SqliteStore::temporary().await;
    let orderer: CausalOrderer<Hash, SqliteStore> = CausalOrderer::new(store.clone());
    let mut back: BTreeMap<Hash, u32> = BTreeMap::new();
    let mut ans: Vec<String> = vec![];
    let mut drains = vec![];
    let mut groups: Vec<usize> = vec![];
    let mut qlen = 0usize;
    let mut error = None;
    for (i, op) in ops.iter().enumerate() {
        match op {
            Op::P(k, ds) => {
                let key = hash_of(*k);
                back.insert(key, *k);
                let deps: Vec<Hash> = ds.iter().map(|d| hash_of(*d)).collect();
                for (d, h) in ds.iter().zip(&deps) {
                    back.insert(*h, *d);
                }
                let permit = store.begin().await.expect("begin");
                let r = orderer.process(key, &deps).await;
                let (rl, ql, pl) = (store.ready_len().await, store.ready_queue_len().await, store.pending_len().await);
                store.commit(permit).await.expect("commit");
                if let Err(e) = r {
                    error = Some(format!("process error: {e}"));
                    ans.push("ERR".into());
                    break;
                }
                if ql > qlen {
                    groups.push(ql - qlen);
                }
                qlen = ql;
                ans.push(format!("r{rl}q{ql}w{pl}"));
            }
            Op::D => {
                let mut seq = vec![];
                loop {
                    let permit = store.begin().await.expect("begin");
                    let r = orderer.next().await;
                    store.commit(permit).await.expect("commit");
                    match r {
                        Ok(Some(h)) => seq.push(*back.get(&h).unwrap_or(&9999)),
                        Ok(None) => break,
                        Err(e) => {
                            error = Some(format!("next error: {e}"));
                            break;
                        }
                    }
                    if seq.len() > 10_000 {
                        error = Some("next never returns None".into());
                        break;
                    }
                }
                let mut parts = vec![];
                let mut rest: &[u32] = &seq;
                for g in &groups {
                    let g = (*g).min(rest.len());
                    let mut part = rest[..g].to_vec();
                    part.sort();
                    parts.push(part);
                    rest = &rest[g..];
                }
                if !rest.is_empty() {
                    let mut part = rest.to_vec();
                    part.sort();
                    parts.push(part);
                }
                let txt: Vec<String> =
                    parts.iter().map(|p| p.iter().map(|x| x.to_string()).collect::<Vec<_>>().join(",")).collect();
                ans.push(format!("[{}]", txt.join("|")));
                groups.clear();
                qlen = 0;
                drains.push((i, seq));
                if error.is_some() {
                    break;
                }
            }
        }
    }
    Obs { answer: ans.join(" "), drains, error }
}

/// Least fixpoint: delivered items all of whose dependencies are available.
fn available(delivered: &BTreeSet<u32>, deps: &BTreeMap<u32, Vec<u32>>) -> BTreeSet<u32> {
    let mut av: BTreeSet<u32> = BTreeSet::new();
    loop {
        let mut grew = false;
        for x in delivered {
            if !av.contains(x) && deps[x].iter().all(|d| av.contains(d)) {
                av.insert(*x);
                grew = true;
            }
        }
        if !grew {
            return av;
        }
    }
}

struct Verdict {
    nontrivial: bool,
    fail: Option<(String, String)>,
}

/// The property's own predicate, judged on the implementation's raw output (independent of the model).
/// Only for histories in which every id has one dependency list (`functional`).
fn oracle(ops: &[Op], obs: &Obs) -> Verdict {
    let mut deps: BTreeMap<u32, Vec<u32>> = BTreeMap::new();
    let mut functional = true;
    for op in ops {
        if let Op::P(k, ds) = op {
            if let Some(old) = deps.get(k) {
                if old != ds {
                    functional = false;
                }
            }
            deps.insert(*k, ds.clone());
        }
    }
    if let Some(e) = &obs.error {
        return Verdict { nontrivial: false, fail: Some(("impl-error".into(), e.clone())) };
    }
    if !functional {
        return Verdict { nontrivial: false, fail: None };
    }
    let mut fail: Option<(String, String)> = None;
    let mut set_fail = |tag: &str, what: String| {
        if fail.is_none() {
            fail = Some((tag.to_string(), what));
        }
    };
    let mut delivered: BTreeSet<u32> = BTreeSet::new();
    let mut delivered_count: BTreeMap<u32, usize> = BTreeMap::new();
    let mut released: Vec<u32> = vec![];
    let mut released_set: BTreeSet<u32> = BTreeSet::new();
    let mut drain_iter = obs.drains.iter().peekable();
    let (mut has_join, mut dup_ready, mut missing) = (false, false, false);
    // Re-queue rule (documented in mark_ready): processing an item that is ready and has already been
    // taken puts it back into the queue once; processing one that is still queued changes nothing.
    // `queued` = items the next drain has to return (as a set; every item at most once per drain).
    let mut queued: BTreeSet<u32> = BTreeSet::new();
    for (i, op) in ops.iter().enumerate() {
        match op {
            Op::P(k, ds) => {
                let av = available(&delivered, &deps);
                let distinct: BTreeSet<u32> = ds.iter().cloned().collect();
                if distinct.len() >= 2 {
                    has_join = true;
                }
                if distinct.len() < ds.len() {
                    // a repeated entry whose target is already ready
                    for d in &distinct {
                        if ds.iter().filter(|x| *x == d).count() >= 2 && av.contains(d) {
                            dup_ready = true;
                        }
                    }
                }
                delivered.insert(*k);
                *delivered_count.entry(*k).or_insert(0) += 1;
                let av_after = available(&delivered, &deps);
                for x in &av_after {
                    if !av.contains(x) {
                        queued.insert(*x); // newly ready
                    }
                }
                if av.contains(k) {
                    queued.insert(*k); // re-processed: back in the queue unless it still is
                }
            }
            Op::D => {
                let Some((di, seq)) = drain_iter.next() else { break };
                assert_eq!(*di, i);
                let av = available(&delivered, &deps);
                for x in seq {
                    // safety: every dependency was released strictly earlier
                    for d in deps.get(x).map(|v| v.as_slice()).unwrap_or(&[]) {
                        if !released_set.contains(d) {
                            set_fail(
                                "released-before-dependency",
                                format!("item {x} released (position {}) before its dependency {d}", released.len()),
                            );
                        }
                    }
                    if !av.contains(x) {
                        set_fail(
                            "released-while-blocked",
                            format!("item {x} released although its dependency closure has not been delivered"),
                        );
                    }
                    released.push(*x);
                    released_set.insert(*x);
                }
                // re-queue rule: the drain returns exactly the queued set, each item once
                let mut seen: BTreeSet<u32> = BTreeSet::new();
                for x in seq {
                    if !seen.insert(*x) {
                        set_fail("released-twice-in-one-drain", format!("item {x} returned twice by one drain"));
                    }
                }
                for x in &queued {
                    if released_set.contains(x) && !seen.contains(x) && av.contains(x) {
                        set_fail(
                            "requeue-missing",
                            format!("item {x} was re-processed after it had been taken but is not returned again"),
                        );
                    }
                }
                for x in &seen {
                    if !queued.contains(x) {
                        set_fail("released-without-delivery", format!("item {x} returned by next() although nothing queued it"));
                    }
                }
                queued.clear();
                // liveness: everything available has been released once this drain is over
                for x in &av {
                    if !released_set.contains(x) {
                        let dup = {
                            let ds = &deps[x];
                            let d: BTreeSet<u32> = ds.iter().cloned().collect();
                            d.len() < ds.len()
                        };
                        set_fail(
                            if dup { "never-released-repeated-dependency" } else { "never-released" },
                            format!("item {x} (deps {:?}) has all dependencies released but is not returned by next()", deps[x]),
                        );
                    }
                }
            }
        }
    }
    for (x, n) in &delivered_count {
        let r = released.iter().filter(|y| *y == x).count();
        if r > *n {
            set_fail("released-more-often-than-delivered", format!("item {x} delivered {n} times, released {r} times"));
        }
    }
    for (_, ds) in &deps {
        if ds.iter().any(|d| !delivered.contains(d)) {
            missing = true;
        }
    }
    Verdict { nontrivial: has_join && dup_ready && missing, fail }
}

fn emit(rt: &tokio::runtime::Runtime, out: &mut Out, ops: &[Op], kind: &str) {
    let req = fmt_req(ops);
    if std::env::var("VERIF_TRACE").is_ok() {
        eprintln!("{req}");
    }
    let obs = rt.block_on(run_impl(ops));
    let v = oracle(ops, &obs);
    let n = out.case(&req, &obs.answer, v.nontrivial);
    out.count(&format!("kind={kind}"));
    let np = ops.iter().filter(|o| matches!(o, Op::P(..))).count();
    out.count(&format!("deliveries={}", match np { 0..=3 => "0-3", 4..=7 => "4-7", 8..=15 => "8-15", _ => ">15" }));
    out.count_n("released", obs.drains.iter().map(|d| d.1.len() as u64).sum());
    out.count_n("drains", obs.drains.len() as u64);
    if ops.iter().any(|o| matches!(o, Op::P(_, ds) if { let s: BTreeSet<_> = ds.iter().collect(); s.len() < ds.len() })) {
        out.count("has-repeated-dependency");
    }
    if v.nontrivial {
        out.count("nontrivial");
    }
    if let Some((tag, what)) = v.fail {
        out.oracle_fail(n, &tag, &what, &req, &obs.answer);
    }
}

/// Random dependency graph: node i may depend on nodes < i (DAG), plus decorations.
struct Graph {
    deps: Vec<Vec<u32>>,
    never: BTreeSet<u32>,
}

fn random_graph(rng: &mut Rng, n: usize, cyclic: bool) -> Graph {
    let p = rng.range(10, 50);
    let mut deps: Vec<Vec<u32>> = vec![];
    for i in 0..n {
        let mut ds = vec![];
        for j in 0..i {
            if rng.chance(p, 100) {
                ds.push(j as u32);
            }
        }
        if cyclic && rng.chance(1, 6) {
            // a back edge or a self loop: such items (and everything above them) must never be released
            ds.push(rng.range(i as u64, n as u64 - 1) as u32);
        }
        if !ds.is_empty() && rng.chance(20, 100) {
            // repeated entries
            for _ in 0..rng.range(1, 3) {
                let d = *rng.pick(&ds);
                ds.push(d);
            }
        }
        rng.shuffle(&mut ds);
        deps.push(ds);
    }
    // 15 % of the lists reference an id that is never delivered
    let mut never = BTreeSet::new();
    for i in 0..n {
        if rng.chance(15, 100) {
            let ghost = 100 + rng.below(3) as u32;
            deps[i].push(ghost);
            never.insert(ghost);
            rng.shuffle(&mut deps[i]);
        }
    }
    Graph { deps, never }
}

fn delivery(rng: &mut Rng, g: &Graph, order: &[u32], drain_each: bool) -> Vec<Op> {
    let mut ops = vec![];
    for k in order {
        ops.push(Op::P(*k, g.deps[*k as usize].clone()));
        if drain_each || rng.chance(1, 3) {
            ops.push(Op::D);
        }
    }
    ops.push(Op::D);
    ops
}

fn random_order(rng: &mut Rng, n: usize) -> Vec<u32> {
    let mut order: Vec<u32> = (0..n as u32).collect();
    // duplicates
    let extra = if rng.chance(1, 2) { rng.range(0, (n as u64 / 2).max(1)) } else { 0 };
    for _ in 0..extra {
        order.push(rng.below(n as u64) as u32);
    }
    rng.shuffle(&mut order);
    if rng.chance(1, 5) && n > 1 {
        // leave one item out entirely
        let drop = rng.below(n as u64) as u32;
        order.retain(|x| *x != drop);
    }
    order
}

fn permutations(n: usize) -> Vec<Vec<u32>> {
    fn go(cur: &mut Vec<u32>, used: &mut Vec<bool>, n: usize, out: &mut Vec<Vec<u32>>) {
        if cur.len() == n {
            out.push(cur.clone());
            return;
        }
        for i in 0..n {
            if !used[i] {
                used[i] = true;
                cur.push(i as u32);
                go(cur, used, n, out);
                cur.pop();
                used[i] = false;
            }
        }
    }
    let mut out = vec![];
    go(&mut vec![], &mut vec![false; n], n, &mut out);
    out
}

/// Fixed small graphs run under **all** delivery permutations in every tier.
fn fixed_graphs() -> Vec<(&'static str, Vec<Vec<u32>>)> {
    vec![
        // the defect of the pinned tree: repeated dependency
        ("repeated-dep", vec![vec![], vec![0, 0]]),
        // X depends on P and Q, Q depends on P (pending rows of two keys are merged by get_next_pending)
        ("triangle", vec![vec![], vec![0], vec![0, 1]]),
        ("diamond", vec![vec![], vec![0], vec![0], vec![1, 2]]),
        ("diamond-repeated", vec![vec![], vec![0, 0], vec![0], vec![2, 1, 2]]),
        ("chain", vec![vec![], vec![0], vec![1], vec![2]]),
        ("missing", vec![vec![], vec![0, 100], vec![1], vec![0]]),
        ("self-loop", vec![vec![], vec![1, 0], vec![1], vec![0]]),
        ("two-cycle", vec![vec![], vec![2, 0], vec![1], vec![0]]),
        ("wide", vec![vec![], vec![], vec![], vec![0, 1, 2], vec![3, 0]]),
    ]
}

fn main() {
    let args = Args::parse();
    let mut out = Out::new(&args.out);
    let rt = tokio::runtime::Builder::new_current_thread().enable_all().build().unwrap();
    if args.mode == "replay" {
        let text = std::fs::read_to_string(args.replay.as_ref().expect("replay file")).unwrap();
        let v: hc::serde_json::Value = hc::serde_json::from_str(&text).unwrap();
        let ops = parse_req(v["request"].as_str().unwrap());
        emit(&rt, &mut out, &ops, "replay");
        out.finish("replay", false);
        return;
    }
    let mut rng = Rng::new(args.seed);
    // corpus: minimised past failures first
    if let Ok(rd) = std::fs::read_dir("/verif/corpus/C11") {
        let mut files: Vec<_> = rd.filter_map(|e| e.ok()).map(|e| e.path()).collect();
        files.sort();
        for f in files {
            if let Ok(text) = std::fs::read_to_string(&f) {
                if let Ok(v) = hc::serde_json::from_str::<hc::serde_json::Value>(&text) {
                    if let Some(r) = v["request"].as_str() {
                        emit(&rt, &mut out, &parse_req(r), "corpus");
                    }
                }
            }
        }
    }
    // 1. fixed small graphs, all permutations, drain after every delivery and drain only at the end
    for (_name, deps) in fixed_graphs() {
        let g = Graph { deps, never: BTreeSet::new() };
        for perm in permutations(g.deps.len()) {
            for drain_each in [true, false] {
                let mut ops = vec![];
                for k in &perm {
                    ops.push(Op::P(*k, g.deps[*k as usize].clone()));
                    if drain_each {
                        ops.push(Op::D);
                    }
                }
                ops.push(Op::D);
                emit(&rt, &mut out, &ops, "fixed-allperm");
            }
        }
    }
    // 2. re-delivery of released / queued / pending items
    for (_name, deps) in fixed_graphs().into_iter().take(4) {
        let n = deps.len() as u32;
        for again in 0..n {
            for drain_before in [true, false] {
                let mut ops: Vec<Op> = (0..n).map(|k| Op::P(k, deps[k as usize].clone())).collect();
                if drain_before {
                    ops.push(Op::D);
                }
                ops.push(Op::P(again, deps[again as usize].clone()));
                ops.push(Op::D);
                ops.push(Op::P(again, deps[again as usize].clone()));
                ops.push(Op::P(again, deps[again as usize].clone()));
                ops.push(Op::D);
                emit(&rt, &mut out, &ops, "redelivery");
            }
        }
    }
    let (n_graphs, orders, perm_graphs) = match args.tier {
        Tier::Quick => (220, 3, 3),
        Tier::Thorough => (4000, 3, 40),
        Tier::Search => (500, 3, 6),
    };
    // 3. random graphs, random orders with duplicates
    for gi in 0..n_graphs {
        let n = rng.range(3, 14) as usize;
        let cyclic = rng.chance(1, 8);
        let g = random_graph(&mut rng, n, cyclic);
        let _ = &g.never;
        for _ in 0..orders {
            let order = random_order(&mut rng, n);
            let drain_each = rng.chance(2, 3);
            let ops = delivery(&mut rng, &g, &order, drain_each);
            emit(&rt, &mut out, &ops, if cyclic { "random-cyclic" } else { "random-dag" });
        }
        let _ = gi;
    }
    // 4. all permutations of random graphs with <= 5 (quick) / 6 (thorough) nodes
    for _ in 0..perm_graphs {
        let n = match args.tier {
            Tier::Quick => rng.range(3, 4),
            _ => rng.range(4, 6),
        } as usize;
        let g = random_graph(&mut rng, n, false);
        for perm in permutations(n) {
            let ops = delivery(&mut rng, &g, &perm, true);
            emit(&rt, &mut out, &ops, "random-allperm");
        }
    }
    // 5. malformed stream: the same id delivered with *different* dependency lists (impossible for
    //    hash-identified operations; correspondence only, the property speaks about items with one list).
    //    Dependencies point to smaller ids or to never-delivered ids only: with a dependency cycle an id
    //    re-delivered with a second, satisfiable list makes `process_pending` recurse without bound
    //    (`p1:2 p2:1 p1:` overflows the stack of the real code; the model answers FUEL) — noted, outside C11.
    let n_mal = match args.tier {
        Tier::Quick => 60,
        _ => 600,
    };
    for _ in 0..n_mal {
        let n = rng.range(2, 6) as u32;
        let mut ops = vec![];
        for _ in 0..rng.range(2, 12) {
            let k = rng.below(n as u64) as u32;
            let mut ds = vec![];
            for _ in 0..rng.range(0, 4) {
                if k > 0 && rng.chance(5, 6) {
                    ds.push(rng.below(k as u64) as u32);
                } else if rng.chance(1, 2) {
                    ds.push(100);
                }
            }
            ops.push(Op::P(k, ds));
            if rng.chance(1, 2) {
                ops.push(Op::D);
            }
        }
        ops.push(Op::D);
        emit(&rt, &mut out, &ops, "malformed-nonfunctional");
    }
    out.finish(
        "non-trivial = history with an item that has >= 2 distinct dependencies, a repeated dependency entry whose target is already ready when the item is processed, and a dependency that is never delivered",
        false,
    );
}
