//! C02 — Header encoding round-trips and is a deterministic function of the header.
//!
//! Real `Header::{to_bytes, hash, sign, verify}` and `decode_cbor::<Header<E>>` for three
//! extension types: `()`, a user struct (`Custom`, serde-derived map) and the Node API
//! `Extensions` (basic + causal; causal only constructible by decoding CBOR).
//!
//! The encoding is a function of the header value only and decoding is a function of the bytes
//! only — in particular neither may consult the wall clock. `Timestamp::now()` reads
//! `mock_instant`'s thread-local `MockClock` (p2panda-core/test_utils); the harness sets that clock
//! to a fresh NON-ZERO reading before every `to_bytes` and before EVERY decode, and the two
//! decodes of a case run at two different readings (tag `decode-depends-on-clock`).
//!
//! Request lines (see lean/Drv/C02.lean):
//!   rt  <T> <hdr8> ; S <key> <sig> <tok>*      answer  <tok>* | ok same= rest= reenc= verify=   (| err)
//!   dec <T> K=<ids> ; <tok>*                    answer  ok <hdr8> rest=<n> | err
use std::time::Duration;

use h_hdr::*;
use hc::{Args, Out, Rng, Tier};
use mock_instant::thread_local::MockClock;
use p2panda::operation::{Extensions as NodeExt, LogId};
use p2panda_core::cbor::{decode_cbor, encode_cbor};
use p2panda_core::{Extensions, Header, SigningKey, Topic, validate_header};

// ---------------------------------------------------------------------------------------------
// wall clock (what `Timestamp::now()` returns, in µs)
// ---------------------------------------------------------------------------------------------

fn set_clock(micros: u64) {
    MockClock::set_system_time(Duration::from_micros(micros));
}

/// A fresh non-zero clock reading; consecutive readings differ and cycle through four regimes
/// (tiny, around 2^32, "today" ~1.7e15 µs, close to u64::MAX/2). Deterministic (case counter only).
fn next_clock(cx: &mut Ctx) -> u64 {
    cx.clock_n += 1;
    let n = cx.clock_n;
    match n % 4 {
        0 => n,
        1 => 1_700_000_000_000_000 + n * 977,
        2 => (1u64 << 32) + n,
        _ => u64::MAX / 2 - n,
    }
}

// ---------------------------------------------------------------------------------------------
// Node extensions: built by decoding hand-written CBOR, described by re-reading their encoding
// ---------------------------------------------------------------------------------------------

#[derive(Clone, Debug, PartialEq)]
enum NodeKind {
    Basic(bool),
    /// previous hashes, sorted
    Causal(Vec<Vec<u8>>),
}

#[derive(Clone, Debug, PartialEq)]
struct NodeDesc {
    log: Vec<u8>,
    ts: u64,
    kind: NodeKind,
    /// basic variant only: the topic the log id is derived from, so that the value can be built
    /// through the public constructor (`Extensions::from_topic`) instead of through the decoder
    topic: Option<[u8; 32]>,
}

fn same_desc(a: &NodeDesc, b: &NodeDesc) -> bool {
    a.log == b.log && a.ts == b.ts && a.kind == b.kind
}

/// CBOR of a Node extensions value with the elements of `previous` in the given wire order.
fn node_cbor(log: &[u8], ts: u64, kind: &NodeKind, wire_order: Option<&[Vec<u8>]>) -> Vec<u8> {
    let mut t = vec![Tok::Arr(5), Tok::Uint(1)];
    match kind {
        NodeKind::Basic(p) => {
            t.push(Tok::Uint(0));
            t.push(Tok::Bytes(log.to_vec()));
            t.push(Tok::Uint(ts));
            t.push(Tok::Bool(*p));
        }
        NodeKind::Causal(prev) => {
            let prev = wire_order.unwrap_or(prev);
            t.push(Tok::Uint(1));
            t.push(Tok::Bytes(log.to_vec()));
            t.push(Tok::Uint(ts));
            t.push(Tok::Arr(prev.len() as u64));
            for h in prev {
                t.push(Tok::Bytes(h.clone()));
            }
        }
    }
    write_toks(&t)
}

/// Built by decoding hand-written CBOR while the wall clock reads `clock` (non-zero).
fn make_node(log: &[u8], ts: u64, kind: &NodeKind, wire_order: Option<&[Vec<u8>]>, clock: u64) -> NodeExt {
    set_clock(clock);
    decode_cbor::<NodeExt, _>(&node_cbor(log, ts, kind, wire_order)[..]).expect("well-formed node extensions decode")
}

/// Basic extensions built WITHOUT the decoder, through the public API: `from_topic` stamps the
/// value with `Timestamp::now()`, so the clock is put at exactly `ts` (0 included) first.
fn make_basic_api(topic: [u8; 32], ts: u64, prune: bool) -> NodeExt {
    set_clock(ts);
    NodeExt::from_topic(Topic::from(topic)).set_prune_flag(prune)
}

fn log_of_topic(topic: [u8; 32]) -> Vec<u8> {
    LogId::from_topic(Topic::from(topic)).as_bytes().to_vec()
}

/// Describe a Node extensions value through its public accessors and (for the variant and the
/// `previous` set, which have no accessor) its own encoding, with `previous` sorted.
fn describe_node(e: &NodeExt) -> NodeDesc {
    let toks = read_toks(&encode_cbor(e).expect("encode ext")).expect("ext encoding parses");
    let log = e.log_id().as_bytes().to_vec();
    let ts: u64 = e.timestamp().into();
    let kind = match toks.get(2) {
        Some(Tok::Uint(0)) => NodeKind::Basic(e.prune_flag().is_set()),
        _ => {
            let mut prev: Vec<Vec<u8>> = toks[6.min(toks.len())..]
                .iter()
                .filter_map(|t| if let Tok::Bytes(b) = t { Some(b.clone()) } else { None })
                .collect();
            prev.sort();
            NodeKind::Causal(prev)
        }
    };
    NodeDesc { log, ts, kind, topic: None }
}

fn node_ops() -> ExtOps<NodeExt> {
    ExtOps {
        tag: "N",
        collect: |e, out| {
            let d = describe_node(e);
            out.push(d.log);
            if let NodeKind::Causal(p) = d.kind {
                out.extend(p);
            }
        },
        render: |e, ids| {
            let d = describe_node(e);
            match d.kind {
                NodeKind::Basic(p) => format!("B:{}:{}:{}", ids.id(&d.log), d.ts, tf(p)),
                NodeKind::Causal(prev) => {
                    let mut v: Vec<usize> = prev.iter().map(|h| ids.id(h)).collect();
                    v.sort();
                    let s = if v.is_empty() { "-".to_string() } else { v.iter().map(|x| x.to_string()).collect::<Vec<_>>().join(".") };
                    format!("C:{}:{}:{}", ids.id(&d.log), d.ts, s)
                }
            }
        },
    }
}

// ---------------------------------------------------------------------------------------------
// cases
// ---------------------------------------------------------------------------------------------

struct Ctx {
    out: Out,
    last_presence: (bool, bool, bool),
    clock_n: u64,
}

/// Decode with a slice reader so that the number of unread heads can be reported. The wall clock
/// reads `clock` while the decoder runs.
fn decode_rest<E: Extensions>(bytes: &[u8], clock: u64) -> Result<(Header<E>, usize), String> {
    set_clock(clock);
    let mut rd: &[u8] = bytes;
    match decode_cbor::<Header<E>, _>(&mut rd) {
        Ok(h) => Ok((h, read_toks(rd).map(|t| t.len()).unwrap_or(usize::MAX))),
        Err(e) => Err(e.to_string()),
    }
}

/// `rt` case. `twin`: the same header value built a second, independent way (fresh `HashSet`s,
/// other wire order), which must be `==` and encode to the same bytes.
fn run_rt<E: Extensions + PartialEq + std::panic::RefUnwindSafe>(
    cx: &mut Ctx,
    x: &ExtOps<E>,
    h: &Header<E>,
    twin: Option<&Header<E>>,
    prev_len: usize,
) -> Option<(u64, String, String)> {
    let (c0, c1, c2) = (next_clock(cx), next_clock(cx), next_clock(cx));
    let res = hc::catch(|| {
        set_clock(c0);
        let bytes = h.to_bytes();
        let d1 = decode_rest::<E>(&bytes, c1);
        let d2 = decode_rest::<E>(&bytes, c2);
        (bytes, d1, d2)
    });
    let (bytes, d1, d2) = match res {
        Ok(v) => v,
        Err(p) => {
            let n = cx.out.case("rt PANIC", "PANIC", false);
            cx.out.oracle_fail(n, "panic", &format!("to_bytes/decode panicked: {p}"), "rt PANIC", "PANIC");
            return None;
        }
    };
    let toks = read_toks(&bytes);
    let entry = honest_sig_entry(h);
    let mut all = vec![];
    collect_header(h, x, &mut all);
    if let Some(t) = &toks {
        collect_tok_bytes(t, &mut all);
    }
    if let Some(e) = &entry {
        collect_sig_entry(e, &mut all);
    }
    if let Ok((d, _)) = &d1 {
        collect_header(d, x, &mut all);
    }
    if let Ok((d, _)) = &d2 {
        collect_header(d, x, &mut all);
    }
    let ids = IdMap::new(all);
    let mut req = format!("rt {} {}", x.tag, render_header(h, x, &ids));
    if let Some(e) = &entry {
        req.push_str(" ; ");
        req.push_str(&render_sig_entry(e, &ids));
    }
    let tok_text = match &toks {
        Some(t) => render_toks(t, &ids),
        None => "UNPARSABLE".into(),
    };
    let (tail, verdicts) = match (&d1, &d2) {
        (Ok((a, rest)), Ok((b2, _))) => {
            let same = a == h && b2 == h;
            let ra = a.to_bytes();
            let rb = b2.to_bytes();
            let reenc = ra == bytes && rb == bytes;
            let hash_eq = a.hash() == h.hash() && b2.hash() == h.hash();
            let ver = h.verify() && a.verify() && b2.verify();
            (
                format!("ok same={} rest={} reenc={} verify={}", b(same), rest, b(reenc), b(ver)),
                Some((same, reenc, hash_eq, ver, *rest)),
            )
        }
        _ => ("err".to_string(), None),
    };
    let ans = format!("{tok_text} | {tail}");
    let presence = (h.signature.is_some(), h.payload_hash.is_some(), h.backlink.is_some());
    let nt = prev_len >= 2 || presence != cx.last_presence;
    cx.last_presence = presence;
    let n = cx.out.case(&req, &ans, nt);
    cx.out.count(&format!("rt ext={}", x.tag));
    cx.out.count(&format!(
        "rt presence sig={} hash={} backlink={}",
        b(presence.0),
        b(presence.1),
        b(presence.2)
    ));
    if prev_len > 0 || x.tag == "N" {
        cx.out.count(&format!("rt previous={}", if prev_len >= 8 { ">=8".to_string() } else { prev_len.to_string() }));
    }
    // --- oracle: the property's own predicate on the implementation's output -------------------
    match &toks {
        Some(t) if write_toks(t) == bytes => {}
        _ => cx.out.oracle_fail(n, "cbor-not-canonical", "to_bytes() is not the shortest-form definite-length encoding of its own item heads", &req, &ans),
    }
    // decoding is a function of the bytes: the same bytes read at two wall-clock readings give the
    // same header (whether or not the header is valid)
    if let (Ok((a, _)), Ok((b2, _))) = (&d1, &d2) {
        if a != b2 {
            cx.out.oracle_fail(
                n,
                "decode-depends-on-clock",
                &format!(
                    "the same bytes decoded while the local clock reads {c1} and {c2} give two different headers: {} vs {} (encoded: {})",
                    render_header(a, x, &ids),
                    render_header(b2, x, &ids),
                    render_header(h, x, &ids)
                ),
                &req,
                &ans,
            );
        }
    }
    cx.out.count("rt decoded at two different non-zero clock readings");
    // "passes validation" judged from the property's statement, not by calling validate_header:
    // honestly signed (real verify_strict over the real unsigned bytes), supported version,
    // payload hash iff size > 0, backlink iff seq > 0
    let valid = entry.is_some()
        && h.version == 1
        && (h.payload_hash.is_some() == (h.payload_size > 0))
        && (h.backlink.is_some() == (h.seq_num > 0));
    if valid != validate_header(h).is_ok() {
        cx.out.oracle_fail(n, "validate-header-disagrees", &format!("validate_header says {:?} for a header that is {}valid by the property's definition", validate_header(h).err().map(|e| e.to_string()), if valid { "" } else { "in" }), &req, &ans);
    }
    cx.out.count(if valid { "rt validated header" } else { "rt header failing validate_header" });
    if valid {
        let causal = if prev_len >= 2 { "-causal-order" } else { "" };
        match verdicts {
            None => cx.out.oracle_fail(n, "decode-failed", &format!("validated header does not decode: {:?}", d1.as_ref().err()), &req, &ans),
            Some((same, reenc, hash_eq, ver, rest)) => {
                if !same {
                    cx.out.oracle_fail(n, "roundtrip-unequal", "decode(encode(h)) != h", &req, &ans);
                }
                if rest != 0 {
                    cx.out.oracle_fail(n, "decode-leaves-bytes", "decoder did not consume the whole encoding", &req, &ans);
                }
                if !reenc {
                    cx.out.oracle_fail(n, &format!("reencode-differs{causal}"), "re-encoding a decoded header gives different bytes", &req, &ans);
                } else if !hash_eq {
                    cx.out.oracle_fail(n, "hash-differs", "hash of decoded header differs", &req, &ans);
                }
                if !ver {
                    cx.out.oracle_fail(n, &format!("verify-after-decode{causal}"), "a validated header no longer verifies after decoding", &req, &ans);
                }
            }
        }
    }
    if let Some(t) = twin {
        if t != h {
            cx.out.oracle_fail(n, "twin-unequal", "the same value built in two ways compares unequal", &req, &ans);
        } else if t.to_bytes() != bytes || t.hash() != h.hash() {
            let causal = if prev_len >= 2 { "-causal-order" } else { "" };
            cx.out.oracle_fail(n, &format!("nondeterministic-encoding{causal}"), "equal header values encode to different bytes", &req, &ans);
        }
    }
    Some((n, req, ans))
}

/// `dec` case: a (possibly malformed) head stream through the real decoder.
fn run_dec<E: Extensions + PartialEq + std::panic::RefUnwindSafe>(cx: &mut Ctx, x: &ExtOps<E>, toks: &[Tok], what: &str) {
    let bytes = write_toks(toks);
    let (c1, c2) = (next_clock(cx), next_clock(cx));
    let res = hc::catch(|| decode_rest::<E>(&bytes, c1));
    let res2 = hc::catch(|| decode_rest::<E>(&bytes, c2));
    let mut all = vec![];
    collect_tok_bytes(toks, &mut all);
    if let Ok(Ok((h, _))) = &res {
        collect_header(h, x, &mut all);
    }
    if let Ok(Ok((h, _))) = &res2 {
        collect_header(h, x, &mut all);
    }
    let ids = IdMap::new(all);
    let keys: Vec<String> = ids.valid_keys().iter().map(|k| k.to_string()).collect();
    let req = format!(
        "dec {} K={} ; {}",
        x.tag,
        if keys.is_empty() { "-".to_string() } else { keys.join(".") },
        render_toks(toks, &ids)
    );
    let ans = match &res {
        Ok(Ok((h, rest))) => format!("ok {} rest={}", render_header(h, x, &ids), rest),
        Ok(Err(_)) => "err".to_string(),
        Err(_) => "PANIC".to_string(),
    };
    let n = cx.out.case(&req, &ans, false);
    cx.out.count(&format!("dec {what} -> {}", if ans.starts_with("ok") { "ok" } else { "err" }));
    let differs = match (&res, &res2) {
        (Ok(Ok((a, ra))), Ok(Ok((b2, rb)))) => a != b2 || ra != rb,
        (Ok(Err(_)), Ok(Err(_))) => false,
        (Err(_), _) | (_, Err(_)) => false, // reported as a panic below
        _ => true,
    };
    if differs {
        let second = match &res2 {
            Ok(Ok((h, rest))) => format!("ok {} rest={}", render_header(h, x, &ids), rest),
            _ => "err".to_string(),
        };
        cx.out.oracle_fail(n, "decode-depends-on-clock", &format!("the same bytes decoded while the local clock reads {c1} and {c2} give different results: `{ans}` vs `{second}`"), &req, &ans);
    }
    if let Err(p) = res {
        cx.out.oracle_fail(n, "panic", &format!("decoder panicked: {p}"), &req, &ans);
    } else if let Err(p) = res2 {
        cx.out.oracle_fail(n, "panic", &format!("decoder panicked: {p}"), &req, &ans);
    }
}

// ---------------------------------------------------------------------------------------------
// generators
// ---------------------------------------------------------------------------------------------

struct Pools {
    keys: Vec<SigningKey>,
}

/// Header skeleton: presence of the three optional fields as asked, integers around width changes.
fn gen_header<E>(rng: &mut Rng, pools: &Pools, ext: E, presence: Option<(bool, bool, bool)>, wellformed: bool) -> (Header<E>, SigningKey)
where
    E: Extensions,
{
    let key = rng.pick(&pools.keys).clone();
    let (sig, ph, bl) = presence.unwrap_or((true, rng.chance(1, 2), rng.chance(1, 2)));
    let size = if wellformed {
        if ph { boundary_uint(rng, 32).max(1) as u32 } else { 0 }
    } else {
        boundary_uint(rng, 32) as u32
    };
    let seq = if wellformed {
        if bl { boundary_uint(rng, 32).max(1) as u32 } else { 0 }
    } else {
        boundary_uint(rng, 32) as u32
    };
    let version = if wellformed || rng.chance(1, 2) { 1 } else { boundary_uint(rng, 16) as u16 };
    let mut h = Header::<E> {
        version,
        verifying_key: key.verifying_key(),
        signature: None,
        payload_size: size,
        payload_hash: if ph { Some(hash_from(rng)) } else { None },
        seq_num: seq,
        backlink: if bl { Some(hash_from(rng)) } else { None },
        extensions: ext,
    };
    if sig {
        h.sign(&key);
    }
    (h, key)
}

fn gen_custom(rng: &mut Rng) -> Custom {
    Custom { custom_field: boundary_uint(rng, 64), flag: rng.chance(1, 2) }
}

fn gen_node_desc(rng: &mut Rng, max_prev: usize) -> NodeDesc {
    let mut log = hash_from(rng).as_bytes().to_vec();
    let ts = boundary_uint(rng, 64);
    let mut topic = None;
    let kind = if rng.chance(2, 5) {
        // the random 32 bytes become the topic; the log id is its digest
        let t: [u8; 32] = log.clone().try_into().unwrap();
        log = log_of_topic(t);
        topic = Some(t);
        NodeKind::Basic(rng.chance(1, 2))
    } else {
        let n = if rng.chance(1, 6) { rng.range(0, 1) } else { rng.range(2, max_prev as u64) } as usize;
        let mut prev: Vec<Vec<u8>> = if rng.chance(1, 2) {
            (0..n).map(|_| hash_from(rng).as_bytes().to_vec()).collect()
        } else {
            crafted_hashes(rng, n)
        };
        prev.sort();
        prev.dedup();
        NodeKind::Causal(prev)
    };
    NodeDesc { log, ts, kind, topic }
}

/// `n` distinct 32-byte strings that share a common prefix of 1..=31 bytes and differ only in
/// one later byte (the byte right after the prefix, a middle byte, or the last byte): an order
/// that looks only at a prefix of the hashes cannot tell them apart.
fn crafted_hashes(rng: &mut Rng, n: usize) -> Vec<Vec<u8>> {
    let base = rng.bytes(32);
    let prefix = rng.range(1, 31) as usize;
    let pos = match rng.below(3) {
        0 => prefix,
        1 => 31,
        _ => rng.range(prefix as u64, 31) as usize,
    };
    let mut vals: Vec<u8> = (0..=255u8).collect();
    rng.shuffle(&mut vals);
    (0..n.min(200))
        .map(|i| {
            let mut h = base.clone();
            h[pos] = vals[i];
            h
        })
        .collect()
}

fn prev_len(d: &NodeDesc) -> usize {
    match &d.kind {
        NodeKind::Causal(p) => p.len(),
        _ => 0,
    }
}

fn shuffled(rng: &mut Rng, d: &NodeDesc) -> Option<Vec<Vec<u8>>> {
    match &d.kind {
        NodeKind::Causal(p) => {
            let mut q = p.clone();
            rng.shuffle(&mut q);
            Some(q)
        }
        _ => None,
    }
}

/// The extensions value of `d` built twice. First: basic variant through the public constructor
/// (no decoder involved); causal variant (no constructor) by decoding hand-written CBOR. Second
/// (the twin): always by decoding hand-written CBOR, at another non-zero clock reading, other
/// wire order of `previous`. The third component says which of them does not carry the fields
/// that were asked for (judged through the accessors / its own encoding).
fn node_exts(cx: &mut Ctx, d: &NodeDesc, o1: Option<&[Vec<u8>]>, o2: Option<&[Vec<u8>]>) -> (NodeExt, NodeExt, Option<String>) {
    let e1 = match (&d.kind, d.topic) {
        (NodeKind::Basic(p), Some(t)) => make_basic_api(t, d.ts, *p),
        _ => make_node(&d.log, d.ts, &d.kind, o1, next_clock(cx)),
    };
    let c2 = next_clock(cx);
    let e2 = make_node(&d.log, d.ts, &d.kind, o2, c2);
    let mut bad = None;
    for (how, e) in [("built value", &e1), ("value decoded from hand-written CBOR", &e2)] {
        let got = describe_node(e);
        if !same_desc(&got, d) {
            bad = Some(format!("{how} has timestamp {} (wire/asked: {}), log id {}, variant/previous {}", got.ts, d.ts, if got.log == d.log { "as asked" } else { "DIFFERENT" }, if got.kind == d.kind { "as asked" } else { "DIFFERENT" }));
        }
    }
    (e1, e2, bad)
}

/// `rt` case for a Node header pair + distribution counters + the construction check.
fn run_node(cx: &mut Ctx, nx: &ExtOps<NodeExt>, d: &NodeDesc, p: &(Header<NodeExt>, Header<NodeExt>, Option<String>)) {
    let case = run_rt(cx, nx, &p.0, Some(&p.1), prev_len(d));
    let variant = if matches!(d.kind, NodeKind::Basic(_)) { "basic" } else { "causal" };
    let class = match d.ts {
        0 => "0",
        1 => "1",
        2..=0xffff_ffff => "2..2^32-1",
        0x1_0000_0000..=0x7fff_ffff_ffff_ffff => "2^32..2^63-1",
        0x8000_0000_0000_0000..=0xffff_ffff_ffff_fffd => "2^63..u64::MAX-2",
        0xffff_ffff_ffff_fffe => "u64::MAX-1",
        _ => "u64::MAX",
    };
    cx.out.count(&format!("rt N {variant} timestamp={class}"));
    if let (Some(what), Some((n, req, ans))) = (&p.2, &case) {
        cx.out.oracle_fail(*n, "decoded-extensions-differ-from-wire", what, req, ans);
    }
}

/// Node header + an independently built twin (other wire order of `previous`, fresh hash sets).
fn node_pair(cx: &mut Ctx, rng: &mut Rng, pools: &Pools, d: &NodeDesc, presence: Option<(bool, bool, bool)>, wf: bool) -> (Header<NodeExt>, Header<NodeExt>, Option<String>) {
    let o1 = shuffled(rng, d);
    let o2 = shuffled(rng, d);
    let (e1, e2, bad) = node_exts(cx, d, o1.as_deref(), o2.as_deref());
    let (h1, key) = gen_header(rng, pools, e1, presence, wf);
    let mut h2 = Header::<NodeExt> {
        version: h1.version,
        verifying_key: h1.verifying_key,
        signature: None,
        payload_size: h1.payload_size,
        payload_hash: h1.payload_hash,
        seq_num: h1.seq_num,
        backlink: h1.backlink,
        extensions: e2,
    };
    if h1.signature.is_some() {
        // The twin carries the *same* signature: it is the same value. (Ed25519 signing is
        // deterministic, so signing it again would give the same signature iff the bytes agree.)
        h2.signature = h1.signature;
        let _ = key;
    }
    (h1, h2, bad)
}

fn mutate(rng: &mut Rng, toks: &[Tok]) -> (Vec<Tok>, &'static str) {
    let mut t = toks.to_vec();
    let n = t.len();
    let i = rng.below(n as u64) as usize;
    let some_bytes: Vec<u8> = t.iter().find_map(|x| if let Tok::Bytes(b) = x { if b.len() == 32 { Some(b.clone()) } else { None } } else { None }).unwrap_or(vec![7; 32]);
    match rng.below(11) {
        0 => {
            t.remove(i);
            (t, "delete")
        }
        1 => {
            let x = t[i].clone();
            t.insert(i, x);
            (t, "duplicate")
        }
        2 => {
            if i + 1 < n {
                t.swap(i, i + 1);
            }
            (t, "swap")
        }
        3 => {
            let idx: Vec<usize> = (0..n).filter(|k| matches!(t[*k], Tok::Arr(_) | Tok::Map(_))).collect();
            if idx.is_empty() {
                return (t, "noop");
            }
            let k = *rng.pick(&idx);
            let up = rng.chance(1, 2);
            t[k] = match &t[k] {
                Tok::Arr(c) => Tok::Arr(if up { c + 1 } else { c.saturating_sub(1) }),
                Tok::Map(c) => Tok::Map(if up { c + 1 } else { c.saturating_sub(1) }),
                o => o.clone(),
            };
            (t, if up { "count+1" } else { "count-1" })
        }
        4 | 5 => {
            let pool = [
                Tok::Other,
                Tok::Null,
                Tok::Uint(7),
                Tok::Uint(0),
                Tok::Bool(true),
                Tok::Nint(0),
                Tok::Bytes(some_bytes),
                Tok::Bytes(vec![]),
                Tok::Bytes(vec![1, 2, 3]),
                Tok::Text("flag".into()),
                Tok::Text("custom_field".into()),
                Tok::Text("zzz".into()),
                Tok::Arr(0),
                Tok::Map(0),
            ];
            t[i] = rng.pick(&pool).clone();
            (t, "retype")
        }
        6 => {
            let idx: Vec<usize> = (0..n).filter(|k| matches!(t[*k], Tok::Uint(_))).collect();
            if idx.is_empty() {
                return (t, "noop");
            }
            let k = *rng.pick(&idx);
            t[k] = Tok::Uint(*rng.pick(&[0u64, 1, 2, 65535, 65536, (1 << 32) - 1, 1 << 32, u64::MAX]));
            (t, "int-value")
        }
        7 => {
            t.truncate(i);
            (t, "truncate")
        }
        8 => {
            let extra = rng.range(1, 3);
            for _ in 0..extra {
                t.push(rng.pick(&[Tok::Uint(9), Tok::Bool(false), Tok::Null]).clone());
            }
            (t, "append")
        }
        9 => {
            // move one token somewhere else
            let x = t.remove(i);
            let j = rng.below(t.len() as u64 + 1) as usize;
            t.insert(j, x);
            (t, "move")
        }
        _ => {
            // duplicate an element of the innermost trailing array and bump its count (sets with
            // a repeated element, maps with a repeated key)
            if let Some(k) = (0..n).rev().find(|k| matches!(t[*k], Tok::Arr(_) | Tok::Map(_))) {
                if k + 1 < n {
                    let is_map = matches!(t[k], Tok::Map(_));
                    if is_map && k + 2 < n {
                        let (a, b2) = (t[k + 1].clone(), t[k + 2].clone());
                        t.push(a);
                        t.push(b2);
                    } else {
                        let x = t[n - 1].clone();
                        t.push(x);
                    }
                    t[k] = match &t[k] {
                        Tok::Arr(c) => Tok::Arr(c + 1),
                        Tok::Map(c) => Tok::Map(c + 1),
                        o => o.clone(),
                    };
                }
            }
            (t, "repeat-element")
        }
    }
}

fn all_presence() -> Vec<(bool, bool, bool)> {
    let mut v = vec![];
    for s in [true, false] {
        for p in [true, false] {
            for bl in [true, false] {
                v.push((s, p, bl));
            }
        }
    }
    v
}

fn generate(args: &Args, cx: &mut Ctx) {
    let mut rng = Rng::new(args.seed);
    let pools = Pools { keys: (0..6).map(|_| key_from(&mut rng)).collect() };
    let (n_rt, n_dec, max_prev) = match args.tier {
        Tier::Quick => (3_000usize, 3_000usize, 16usize),
        Tier::Thorough => (40_000, 25_000, 40),
        Tier::Search => (8_000, 4_000, 24),
    };
    let (u, k, nx) = (unit_ops(), custom_ops(), node_ops());

    // 0. the documented defect witness: eight `previous` hashes, decoded twice (kept in every run)
    for _ in 0..6 {
        let mut d = gen_node_desc(&mut rng, 8);
        let mut prev: Vec<Vec<u8>> = (0..8).map(|_| hash_from(&mut rng).as_bytes().to_vec()).collect();
        prev.sort();
        d.kind = NodeKind::Causal(prev);
        d.topic = None;
        let pr = node_pair(cx, &mut rng, &pools, &d, Some((true, true, true)), true);
        run_node(cx, &nx, &d, &pr);
    }

    // 0b. crafted `previous` sets: every common-prefix length 1..=31, sets of 2..16 hashes
    for prefix in 1..=31usize {
        for n in [2usize, 3, 8, 16] {
            if args.tier == Tier::Quick && n == 3 {
                continue;
            }
            let mut d = gen_node_desc(&mut rng, 4);
            let base = rng.bytes(32);
            let pos = if (prefix + n) % 2 == 0 { prefix } else { 31 };
            let mut prev: Vec<Vec<u8>> = (0..n)
                .map(|i| {
                    let mut h = base.clone();
                    h[pos] = (i as u8).wrapping_mul(37).wrapping_add(prefix as u8);
                    h
                })
                .collect();
            prev.sort();
            prev.dedup();
            d.kind = NodeKind::Causal(prev);
            d.topic = None;
            let (ph, bl) = (rng.chance(1, 2), rng.chance(1, 2));
            let pr = node_pair(cx, &mut rng, &pools, &d, Some((true, ph, bl)), true);
            run_node(cx, &nx, &d, &pr);
            cx.out.count("rt crafted common-prefix previous set");
        }
    }

    // 0c. boundary timestamps (0, 1, every CBOR width change, "today", 2^63, u64::MAX-1, u64::MAX)
    //     × {basic prune=F/T, causal with 0/1/3 previous} × presence patterns, validated headers;
    //     each decoded at two different non-zero clock readings
    let ts_pool: [u64; 18] = [
        0, 1, 2, 23, 24, 255, 256, 65535, 65536, (1 << 32) - 1, 1 << 32, 1_700_000_000_000_000,
        (1 << 53) + 1, i64::MAX as u64, 1 << 63, u64::MAX - 2, u64::MAX - 1, u64::MAX,
    ];
    for &ts in &ts_pool {
        for variant in 0..5usize {
            let presences: &[(bool, bool, bool)] = if args.tier == Tier::Quick && ts > 2 { &[(true, true, true), (true, false, false)] } else { &[(true, true, true), (true, true, false), (true, false, true), (true, false, false)] };
            for &p in presences {
                let t: [u8; 32] = rng.bytes(32).try_into().unwrap();
                let d = match variant {
                    0 | 1 => NodeDesc { log: log_of_topic(t), ts, kind: NodeKind::Basic(variant == 1), topic: Some(t) },
                    _ => {
                        let n = [0usize, 1, 3][variant - 2];
                        let mut prev: Vec<Vec<u8>> = (0..n).map(|_| hash_from(&mut rng).as_bytes().to_vec()).collect();
                        prev.sort();
                        NodeDesc { log: t.to_vec(), ts, kind: NodeKind::Causal(prev), topic: None }
                    }
                };
                let pr = node_pair(cx, &mut rng, &pools, &d, Some(p), true);
                run_node(cx, &nx, &d, &pr);
                cx.out.count("rt boundary-timestamp sweep");
            }
        }
    }

    // 1. exhaustive: presence combinations × well-formed / not × the three extension types
    for wf in [true, false] {
        for p in all_presence() {
            for _ in 0..(if args.tier == Tier::Quick { 2 } else { 12 }) {
                let (h, _) = gen_header(&mut rng, &pools, (), Some(p), wf);
                let _ = run_rt(cx, &u, &h, None, 0);
                let c = gen_custom(&mut rng);
                let (h, _) = gen_header(&mut rng, &pools, c, Some(p), wf);
                let _ = run_rt(cx, &k, &h, None, 0);
                let d = gen_node_desc(&mut rng, max_prev);
                let pr = node_pair(cx, &mut rng, &pools, &d, Some(p), wf);
                run_node(cx, &nx, &d, &pr);
            }
        }
    }

    // 2. random structured headers
    for _ in 0..n_rt {
        let wf = rng.chance(5, 6);
        let presence = if rng.chance(1, 12) { Some(*rng.pick(&all_presence())) } else { None };
        match rng.below(4) {
            0 => {
                let (h, _) = gen_header(&mut rng, &pools, (), presence, wf);
                let _ = run_rt(cx, &u, &h, None, 0);
            }
            1 => {
                let c = gen_custom(&mut rng);
                let (h, _) = gen_header(&mut rng, &pools, c, presence, wf);
                let _ = run_rt(cx, &k, &h, None, 0);
            }
            _ => {
                let d = gen_node_desc(&mut rng, max_prev);
                let pr = node_pair(cx, &mut rng, &pools, &d, presence, wf);
                run_node(cx, &nx, &d, &pr);
            }
        }
    }

    // 3. malformed / adversarial stream for the decoder: single-token mutations of valid encodings
    for _ in 0..n_dec {
        let depth = if rng.chance(1, 5) { 2 } else { 1 };
        match rng.below(4) {
            0 => {
                let (h, _) = gen_header(&mut rng, &pools, (), None, true);
                let mut t = read_toks(&h.to_bytes()).unwrap();
                let mut what = "none";
                if !rng.chance(1, 15) {
                    for _ in 0..depth {
                        let (t2, w) = mutate(&mut rng, &t);
                        if t2.is_empty() { break; }
                        t = t2;
                        what = w;
                    }
                }
                run_dec(cx, &u, &t, what);
            }
            1 => {
                let c = gen_custom(&mut rng);
                let (h, _) = gen_header(&mut rng, &pools, c, None, true);
                let mut t = read_toks(&h.to_bytes()).unwrap();
                let mut what = "none";
                if !rng.chance(1, 15) {
                    for _ in 0..depth {
                        let (t2, w) = mutate(&mut rng, &t);
                        if t2.is_empty() { break; }
                        t = t2;
                        what = w;
                    }
                }
                run_dec(cx, &k, &t, what);
            }
            _ => {
                let d = gen_node_desc(&mut rng, 5);
                let (h, _, _) = node_pair(cx, &mut rng, &pools, &d, None, true);
                let mut t = read_toks(&h.to_bytes()).unwrap();
                let mut what = "none";
                if !rng.chance(1, 15) {
                    for _ in 0..depth {
                        let (t2, w) = mutate(&mut rng, &t);
                        if t2.is_empty() { break; }
                        t = t2;
                        what = w;
                    }
                }
                run_dec(cx, &nx, &t, what);
            }
        }
    }
}

fn parse_tok(s: &str, bytes_of: &dyn Fn(usize, usize) -> Vec<u8>) -> Tok {
    let num = |x: &str| x.parse::<u64>().unwrap();
    match s.as_bytes()[0] {
        b'A' => Tok::Arr(num(&s[1..])),
        b'M' => Tok::Map(num(&s[1..])),
        b'u' => Tok::Uint(num(&s[1..])),
        b'n' => Tok::Nint(num(&s[1..])),
        b't' => Tok::Text(match num(&s[1..]) { 0 => "custom_field".into(), 1 => "flag".into(), _ => "zzz".into() }),
        b'b' => {
            let (l, i) = s[1..].split_once(':').unwrap();
            Tok::Bytes(bytes_of(l.parse().unwrap(), i.parse().unwrap()))
        }
        b'T' => Tok::Bool(true),
        b'F' => Tok::Bool(false),
        b'N' => Tok::Null,
        _ => Tok::Other,
    }
}

/// Replay of a `dec` request (ids are re-materialised as order-preserving synthetic byte strings;
/// key validity may therefore differ from the recorded case). `rt` requests: see `replay_rt`.
fn replay(args: &Args, cx: &mut Ctx) {
    let text = std::fs::read_to_string(args.replay.as_ref().expect("replay file")).unwrap();
    let v: hc::serde_json::Value = hc::serde_json::from_str(&text).unwrap();
    let req = v["request"].as_str().unwrap_or("").to_string();
    let parts: Vec<&str> = req.split_whitespace().collect();
    if parts.first() == Some(&"dec") {
        let tag = parts[1];
        let toks_text = &parts[4..];
        let bytes_of = |len: usize, id: usize| -> Vec<u8> {
            let mut v = vec![0u8; len];
            if len > 0 {
                v[0] = id as u8;
            }
            v
        };
        let toks: Vec<Tok> = toks_text.iter().map(|s| parse_tok(s, &bytes_of)).collect();
        match tag {
            "U" => run_dec(cx, &unit_ops(), &toks, "replay"),
            "K" => run_dec(cx, &custom_ops(), &toks, "replay"),
            _ => run_dec(cx, &node_ops(), &toks, "replay"),
        }
        println!("note: byte strings were re-materialised synthetically; key validity may differ from the recorded case");
    } else if parts.first() == Some(&"rt") && parts.len() >= 10 {
        replay_rt(cx, &parts);
    } else {
        println!("unrecognised request line");
    }
}

fn field<'a>(tok: &'a str, name: &str) -> &'a str {
    tok.strip_prefix(name).unwrap_or_else(|| panic!("expected {name} in {tok}"))
}

fn synth_hash(id: &str) -> p2panda_core::Hash {
    p2panda_core::Hash::digest(format!("replay-{id}").as_bytes())
}

/// Re-materialise an `rt` request: ids become fresh keys / hashes (same structure, other bytes),
/// the signature is made honestly when the request carried an `S` entry, garbage otherwise.
fn replay_rt(cx: &mut Ctx, parts: &[&str]) {
    let tag = parts[1];
    let version: u16 = field(parts[2], "v=").parse().unwrap();
    let key_id = field(parts[3], "k=");
    let key = key_from(&mut Rng::new(1000 + key_id.parse::<u64>().unwrap()));
    let sig = field(parts[4], "s=");
    let size: u32 = field(parts[5], "z=").parse().unwrap();
    let ph = field(parts[6], "ph=");
    let seq: u32 = field(parts[7], "q=").parse().unwrap();
    let bl = field(parts[8], "bl=");
    let ext = field(parts[9], "x=");
    let honest = parts.len() > 10;
    fn finish<E: Extensions>(mut h: Header<E>, key: &SigningKey, sig: &str, honest: bool) -> Header<E> {
        if sig != "-" {
            if honest {
                h.sign(key);
            } else {
                h.signature = Some(p2panda_core::Signature::from_bytes(&[sig.len() as u8; 64]));
            }
        }
        h
    }
    macro_rules! hdr {
        ($e:expr) => {
            Header {
                version,
                verifying_key: key.verifying_key(),
                signature: None,
                payload_size: size,
                payload_hash: if ph == "-" { None } else { Some(synth_hash(ph)) },
                seq_num: seq,
                backlink: if bl == "-" { None } else { Some(synth_hash(bl)) },
                extensions: $e,
            }
        };
    }
    match tag {
        "U" => {
            let h = finish(hdr!(()), &key, sig, honest);
            let _ = run_rt(cx, &unit_ops(), &h, None, 0);
        }
        "K" => {
            let f: Vec<&str> = ext.split(':').collect();
            let e = Custom { custom_field: f[1].parse().unwrap(), flag: f[2] == "T" };
            let h = finish(hdr!(e), &key, sig, honest);
            let _ = run_rt(cx, &custom_ops(), &h, None, 0);
        }
        _ => {
            let f: Vec<&str> = ext.split(':').collect();
            let mut log = synth_hash(f[1]).as_bytes().to_vec();
            let ts: u64 = f[2].parse().unwrap();
            let mut topic = None;
            let kind = if f[0] == "B" {
                let t: [u8; 32] = log.clone().try_into().unwrap();
                log = log_of_topic(t);
                topic = Some(t);
                NodeKind::Basic(f[3] == "T")
            } else {
                let mut prev: Vec<Vec<u8>> = if f[3] == "-" { vec![] } else { f[3].split('.').map(|i| synth_hash(i).as_bytes().to_vec()).collect() };
                prev.sort();
                NodeKind::Causal(prev)
            };
            let d = NodeDesc { log, ts, kind, topic };
            let mut rng = Rng::new(7);
            let o1 = shuffled(&mut rng, &d);
            let o2 = shuffled(&mut rng, &d);
            let (e1, e2, bad) = node_exts(cx, &d, o1.as_deref(), o2.as_deref());
            let h1 = finish(hdr!(e1), &key, sig, honest);
            let mut h2 = hdr!(e2);
            h2.signature = h1.signature;
            run_node(cx, &node_ops(), &d, &(h1, h2, bad));
        }
    }
}

fn main() {
    let args = Args::parse();
    let mut cx = Ctx { out: Out::new(&args.out), last_presence: (false, false, false), clock_n: 0 };
    if args.mode == "replay" {
        replay(&args, &mut cx);
        cx.out.finish("replay", false);
        return;
    }
    generate(&args, &mut cx);
    cx.out.finish(
        "the mock wall clock (Timestamp::now) is set to a fresh non-zero reading (4 regimes: tiny, ~2^32, ~1.7e15, ~u64::MAX/2) before every to_bytes and before EVERY decode; Node basic extensions are built through Extensions::from_topic at clock = the wanted timestamp (0 included), their twin and all causal values by decoding hand-written CBOR; Node timestamps: boundary sweep 0,1,2,23,24,255,256,65535,65536,2^32-1,2^32,1.7e15,2^53+1,2^63-1,2^63,u64::MAX-2..u64::MAX x {basic F/T, causal 0/1/3} plus random boundary values. rt: header value -> to_bytes -> item heads (compared with the model's encoding) -> decoded twice at two different clock readings -> equal to each other and to the original, re-encoded bytes equal, hash equal, verify true; all 8 presence combinations x well-formed/ill-formed x {(), user struct, Node basic/causal}; integers around every CBOR width change; causal previous sets of 0..16 (thorough 40) hashes — random digests and crafted hashes sharing a common prefix of every length 1..=31 bytes — each built from two different wire orders and decoded twice from the same bytes. dec: single/double token-level mutations of valid encodings through the real decoder. non-trivial = causal header with >= 2 previous hashes, or optional-field presence pattern different from the previous case",
        false,
    );
}
