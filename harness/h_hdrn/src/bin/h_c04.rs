//! C04 — Pruning is authenticated and scoped to the prune operation's own log.
//!
//! A real `p2panda::processor::Pipeline` (Ingest → LogPrune on its own thread, reached through the
//! cfg-guarded re-export) over a `SqliteStore`: victim logs of several authors are filled, then
//! events of every kind — valid / forged / mutated × prune flag on/off × claiming own / another
//! author × seq below / at / above the victim's height / u32::MAX × own / foreign log — go through
//! `Pipeline::process`; after each one *every* log is read back and compared with the model.
//!
//! Request (lean/Drv/C04.lean):
//!   pipe K log=<n> topic=<n> prune=<T|F> ; O <id> <hid> <hdr8> body=… ; (R … | A … | S …)*
//! Answer: <ins|dup|E:…> <noop|p<k>> | <author>.<log>=<seq:id,…> …
use std::collections::{BTreeMap, BTreeSet};

use h_hdr::st::{RowInfo, assoc_of, collect_rows, render_assoc, render_row, rows_of};
use h_hdr::*;
use hc::{Args, Out, Rng, Tier};
use p2panda::processor::verif::{Pipeline, TaskTracker, new_event};
use p2panda::processor::ProcessorError;
use p2panda_core::{Body, Hash, Header, Operation, PruneFlag, Signature, SigningKey, VerifyingKey};
use p2panda_store::SqliteStore;
use p2panda_stream::ingest::IngestError;

type Op = Operation<Custom>;
type SigEntry = (Vec<u8>, Vec<u8>, Vec<u8>);

fn mk_op(rng: &mut Rng, key: &SigningKey, claim: &VerifyingKey, log: u64, seq: u32, backlink: Option<Hash>, flag: bool) -> Op {
    let body = if rng.chance(1, 2) {
        let n = rng.range(1, 10) as usize;
        Some(Body::new(&rng.bytes(n)))
    } else {
        None
    };
    let mut h = Header::<Custom> {
        version: 1,
        verifying_key: key.verifying_key(),
        signature: None,
        payload_size: body.as_ref().map(|b| b.size()).unwrap_or(0),
        payload_hash: body.as_ref().map(|b| b.hash()),
        seq_num: seq,
        backlink,
        extensions: Custom { custom_field: log, flag },
    };
    if key.verifying_key() == *claim {
        h.sign(key);
    } else {
        // forged: signed by `key`, claiming `claim`
        h.verifying_key = *claim;
        let mut u = h.clone();
        u.signature = None;
        h.signature = Some(key.sign(&u.to_bytes()));
    }
    Operation { hash: h.hash(), header: h, body }
}

struct World {
    store: SqliteStore,
    pipeline: Pipeline<u64, Custom, u64>,
    logs: BTreeSet<(VerifyingKey, u64)>,
    topics: BTreeSet<u64>,
    ghost: BTreeMap<Hash, bool>,
    sigs: Vec<SigEntry>,
    /// latest genuine operation per victim log (to build valid continuations)
    tips: BTreeMap<(VerifyingKey, u64), Op>,
    genuine: Vec<Op>,
}

struct Cand {
    op: Op,
    log: u64,
    topic: u64,
    flag: bool,
    kind: String,
    forged: bool,
}

fn parse_debug(dbg: &str) -> (String, String) {
    let ing = if dbg.contains("ingest: Completed(Inserted)") {
        "ins".to_string()
    } else if dbg.contains("ingest: Completed(AlreadyExists)") {
        "dup".to_string()
    } else {
        "?".to_string()
    };
    let pr = if let Some(i) = dbg.find("log_prune: Completed(Pruned { num_entries: ") {
        let rest = &dbg[i + "log_prune: Completed(Pruned { num_entries: ".len()..];
        let n: String = rest.chars().take_while(|c| c.is_ascii_digit()).collect();
        format!("p{n}")
    } else if dbg.contains("log_prune: Completed(Noop)") {
        "noop".to_string()
    } else {
        "?".to_string()
    };
    (ing, pr)
}

fn dump(rows: &[RowInfo], ids: &IdMap) -> String {
    let mut logs: BTreeMap<(usize, u64), Vec<(u32, usize)>> = BTreeMap::new();
    for r in rows {
        logs.entry((ids.id(&r.author), r.log)).or_default().push((r.seq, ids.id(&r.id)));
    }
    if logs.is_empty() {
        return "-".into();
    }
    logs.iter_mut()
        .map(|((a, l), v)| {
            v.sort();
            format!("{a}.{l}={}", v.iter().map(|(s, i)| format!("{s}:{i}")).collect::<Vec<_>>().join(","))
        })
        .collect::<Vec<_>>()
        .join(" ")
}

async fn run_case(out: &mut Out, w: &mut World, c: &Cand) {
    let x = custom_ops();
    w.logs.insert((c.op.header.verifying_key, c.log));
    w.topics.insert(c.topic);
    let before = rows_of::<Custom>(&w.store, &w.logs, &w.ghost).await;
    let before_assoc = assoc_of(&w.store, &w.topics).await;
    let ev = new_event(c.op.clone(), c.log, c.topic, PruneFlag::new(c.flag));
    // a panic on the pipeline's thread leaves `process` waiting forever: bound the wait
    let res = match tokio::time::timeout(std::time::Duration::from_secs(30), w.pipeline.process(ev)).await {
        Ok(r) => r,
        Err(_) => {
            let n = out.case("pipe HANG", "HANG", false);
            out.oracle_fail(n, "pipeline-hang", &format!("Pipeline::process did not return within 30 s (kind: {})", c.kind), "pipe HANG", "HANG");
            return;
        }
    };
    let failed = res.is_failed();
    let dbg = format!("{res:?}");
    let (ing, pr) = if failed {
        let w = match res.failure_reason() {
            Some(ProcessorError::Ingest(IngestError::InvalidOperation(e))) => op_err_word(&e).to_string(),
            Some(ProcessorError::Ingest(IngestError::StoreError(_))) => "E:store".to_string(),
            Some(ProcessorError::LogPrune(_)) => "E:prune-store".to_string(),
            None => "?".to_string(),
        };
        (w, parse_debug(&dbg).1)
    } else {
        parse_debug(&dbg)
    };
    if ing == "ins" {
        w.ghost.insert(c.op.hash, c.flag);
    }
    let after = rows_of::<Custom>(&w.store, &w.logs, &w.ghost).await;

    // ---- request / answer ------------------------------------------------------------------------
    let mut sigs = w.sigs.clone();
    if let Some(e) = honest_sig_entry(&c.op.header) {
        sigs.push(e);
    }
    sigs.sort();
    sigs.dedup();
    let mut all = vec![];
    collect_op_section(&c.op, &x, &mut all);
    collect_rows(&before, &mut all);
    collect_rows(&after, &mut all);
    for a in &before_assoc {
        all.push(a.1.clone());
    }
    for s in &sigs {
        collect_sig_entry(s, &mut all);
    }
    let ids = IdMap::new(all);
    let mut req = format!("pipe K log={} topic={} prune={} ; {}", c.log, c.topic, tf(c.flag), render_op_section(&c.op, &x, &ids));
    for r in &before {
        req.push_str(" ; ");
        req.push_str(&render_row(r, &ids));
    }
    for a in &before_assoc {
        req.push_str(" ; ");
        req.push_str(&render_assoc(a, &ids));
    }
    for s in &sigs {
        req.push_str(" ; ");
        req.push_str(&render_sig_entry(s, &ids));
    }
    let ans = format!("{ing} {pr} | {}", dump(&after, &ids));

    // ---- oracle: rows disappear only as the property allows -----------------------------------------
    let deleted: Vec<&RowInfo> = before.iter().filter(|r| !after.contains(r)).collect();
    let victim_rows_targeted = before
        .iter()
        .filter(|r| r.author == c.op.header.verifying_key.as_bytes().to_vec() && r.log == c.log && r.seq < c.op.header.seq_num)
        .count();
    let nt = c.forged && c.flag && victim_rows_targeted > 0;
    let n = out.case(&req, &ans, nt);
    out.count(&format!("kind {}", c.kind));
    out.count(&format!("result {}", if failed { "failed" } else { ing.as_str() }));
    out.count(&format!("prune stage {}", if pr == "noop" { "noop" } else if pr == "p0" { "pruned 0" } else { "pruned >0" }));
    if failed {
        if !deleted.is_empty() {
            let foreign = deleted.iter().any(|r| r.author == c.op.header.verifying_key.as_bytes().to_vec());
            out.oracle_fail(
                n,
                if c.forged && foreign { "forged-prune-deleted-rows" } else { "failed-event-deleted-rows" },
                &format!("event failed ({ing}) but {} stored rows disappeared (kind: {})", deleted.len(), c.kind),
                &req,
                &ans,
            );
        } else if before != after {
            out.oracle_fail(n, "failed-event-changed-store", "event failed but the store changed", &req, &ans);
        }
        if pr != "noop" {
            // the LogPrune stage must not have been armed for a failed event
            out.oracle_fail(n, "failed-event-ran-prune", &format!("event failed but LogPrune reported {pr}"), &req, &ans);
        }
    } else {
        let expect_deleted: Vec<&RowInfo> = if c.flag {
            before
                .iter()
                .filter(|r| r.author == c.op.header.verifying_key.as_bytes().to_vec() && r.log == c.log && r.seq < c.op.header.seq_num)
                .collect()
        } else {
            vec![]
        };
        if deleted != expect_deleted {
            out.oracle_fail(
                n,
                if c.flag { "prune-scope" } else { "delete-without-flag" },
                &format!(
                    "deleted seqs {:?}, the property allows exactly {:?}",
                    deleted.iter().map(|r| (r.log, r.seq)).collect::<Vec<_>>(),
                    expect_deleted.iter().map(|r| (r.log, r.seq)).collect::<Vec<_>>()
                ),
                &req,
                &ans,
            );
        }
        let added: Vec<&RowInfo> = after.iter().filter(|r| !before.contains(r)).collect();
        let expect_added = if ing == "ins" { 1 } else { 0 };
        if added.len() != expect_added || added.iter().any(|r| r.id != c.op.hash.as_bytes().to_vec()) {
            out.oracle_fail(n, "unexpected-rows", &format!("{} rows appeared", added.len()), &req, &ans);
        }
        if c.forged && !deleted.is_empty() {
            out.oracle_fail(n, "forged-prune-deleted-rows", &format!("a forged event completed ({ing}) and {} stored rows of the claimed author disappeared (kind: {})", deleted.len(), c.kind), &req, &ans);
        }
        if c.forged {
            out.oracle_fail(n, "forged-event-completed", &format!("a forged event completed ({})", c.kind), &req, &ans);
        }
    }
    // bookkeeping for valid continuations
    if ing == "ins" && !c.forged {
        w.tips.insert((c.op.header.verifying_key, c.log), c.op.clone());
        w.genuine.push(c.op.clone());
        if let Some(e) = honest_sig_entry(&c.op.header) {
            w.sigs.push(e);
        }
    }
}

async fn new_world(rng: &mut Rng, keys: &[SigningKey], out: &mut Out) -> World {
    let store = SqliteStore::temporary().await;
    let pipeline = Pipeline::<u64, Custom, u64>::new(store.clone(), TaskTracker::new());
    let mut w = World {
        store,
        pipeline,
        logs: BTreeSet::new(),
        topics: BTreeSet::new(),
        ghost: BTreeMap::new(),
        sigs: vec![],
        tips: BTreeMap::new(),
        genuine: vec![],
    };
    // victims: the first three keys, one or two logs each, 2..6 operations, through the pipeline
    for key in &keys[..3] {
        for log in 1..=rng.range(1, 2) {
            let len = rng.range(2, 6);
            let mut prev: Option<Op> = None;
            for seq in 0..len {
                let op = mk_op(rng, key, &key.verifying_key(), log, seq as u32, prev.as_ref().map(|p| p.header.hash()), false);
                let c = Cand { op: op.clone(), log, topic: 10 + log, flag: false, kind: "fill".into(), forged: false };
                run_case(out, &mut w, &c).await;
                prev = Some(op);
            }
        }
    }
    w
}

fn candidates(rng: &mut Rng, keys: &[SigningKey], w: &World) -> Vec<Cand> {
    let attacker = &keys[3];
    let mut out = vec![];
    let victims: Vec<(VerifyingKey, u64)> = w.tips.keys().filter(|k| k.0 != attacker.verifying_key()).cloned().collect();
    let (vk, vlog) = *rng.pick(&victims);
    let tip = w.tips[&(vk, vlog)].clone();
    let height = tip.header.seq_num;
    let vkey = keys.iter().find(|k| k.verifying_key() == vk).unwrap();
    let seqs: Vec<u32> = vec![0, height.saturating_sub(1), height, height + 1, height + 5, u32::MAX];
    // forged: attacker signs, claims the victim's key — every flag / seq / log combination
    for &seq in &seqs {
        for flag in [true, false] {
            for log in [vlog, 9] {
                let bl = if seq == 0 { None } else { Some(tip.header.hash()) };
                let op = mk_op(rng, attacker, &vk, log, seq, bl, flag);
                out.push(Cand { op, log, topic: 10 + log, flag, kind: format!("forged claim-victim flag={} seq-vs-height={}", tf(flag), rel(seq, height)), forged: true });
            }
        }
    }
    // forged / mutated operations ANNOUNCED UNDER A STORED ID (`Operation.hash` is never compared
    // with the header hash): the id of the head of the victim's log, of a non-head entry, and of
    // another author's entry; attacker-signed claiming the victim, seq below / at / above the head
    let stored: Vec<&Op> = w.genuine.iter().filter(|g| g.header.verifying_key == vk && log_of_op(g) == vlog).collect();
    let mut id_pool: Vec<(Hash, &'static str)> = vec![(tip.hash, "head-id")];
    if let Some(g) = stored.iter().find(|g| g.hash != tip.hash) {
        id_pool.push((g.hash, "non-head-id"));
    }
    if let Some(g) = w.genuine.iter().find(|g| g.header.verifying_key != vk) {
        id_pool.push((g.hash, "other-author-id"));
    }
    for (id, what) in &id_pool {
        for &seq in &[height.saturating_sub(1), height, height + 1, height + 7] {
            for flag in [true, false] {
                if !flag && seq != height {
                    continue;
                }
                let bl = if seq == 0 { None } else { Some(tip.header.hash()) };
                let mut op = mk_op(rng, attacker, &vk, vlog, seq, bl, flag);
                op.hash = *id;
                out.push(Cand { op, log: vlog, topic: 10 + vlog, flag, kind: format!("forged under stored {what} flag={} seq-vs-height={}", tf(flag), rel(seq, height)), forged: true });
            }
        }
        // the genuine head header with the flag toggled (signature no longer matches), under the stored id
        let mut h = tip.header.clone();
        h.extensions.flag = !tip.header.extensions.flag;
        let nf = h.extensions.flag;
        out.push(Cand { op: Operation { hash: *id, header: h, body: tip.body.clone() }, log: vlog, topic: 10 + vlog, flag: nf, kind: format!("mutated flag toggled under stored {what}"), forged: true });
    }
    // genuine victim operation with the prune flag switched on, not re-signed
    {
        let mut h = tip.header.clone();
        h.extensions.flag = !tip.header.extensions.flag;
        let nf = h.extensions.flag;
        let op = Operation { hash: h.hash(), header: h, body: tip.body.clone() };
        out.push(Cand { op, log: vlog, topic: 10 + vlog, flag: nf, kind: format!("mutated flag toggled to {} (victim's tip)", tf(nf)), forged: true });
        // … and the pipeline told to prune although the (genuine, unflagged) header does not say so
        out.push(Cand { op: tip.clone(), log: vlog, topic: 10 + vlog, flag: true, kind: "genuine duplicate, caller sets flag".into(), forged: false });
        // signature bit flipped on a flagged continuation
        let good = mk_op(rng, vkey, &vk, vlog, height + 1, Some(tip.header.hash()), true);
        let mut h = good.header.clone();
        let mut s = h.signature.unwrap().to_bytes();
        s[rng.below(64) as usize] ^= 1;
        h.signature = Some(Signature::from_bytes(&s));
        out.push(Cand { op: Operation { hash: h.hash(), header: h, body: good.body.clone() }, log: vlog, topic: 10 + vlog, flag: true, kind: "mutated signature on flagged continuation".into(), forged: true });
    }
    // attacker's own, valid operations: own log, flag on/off, also aimed at the victim's log id
    for flag in [true, false] {
        let tipa = w.tips.get(&(attacker.verifying_key(), vlog)).cloned();
        let (seq, bl) = match &tipa {
            Some(t) => (t.header.seq_num + 1, Some(t.header.hash())),
            None => (0, None),
        };
        let op = mk_op(rng, attacker, &attacker.verifying_key(), vlog, seq, bl, flag);
        out.push(Cand { op, log: vlog, topic: 10 + vlog, flag, kind: format!("valid own-author same-log-id flag={}", tf(flag)), forged: false });
    }
    // the victim's own continuation: unflagged, flagged at height+1, flagged far ahead, flagged below
    {
        let op = mk_op(rng, vkey, &vk, vlog, height + 1, Some(tip.header.hash()), false);
        out.push(Cand { op, log: vlog, topic: 10 + vlog, flag: false, kind: "valid continuation".into(), forged: false });
    }
    match rng.below(3) {
        0 => {
            let op = mk_op(rng, vkey, &vk, vlog, height + 1, Some(tip.header.hash()), true);
            out.push(Cand { op, log: vlog, topic: 10 + vlog, flag: true, kind: "valid prune at height+1".into(), forged: false });
        }
        1 => {
            let bl = hash_from(rng);
            let op = mk_op(rng, vkey, &vk, vlog, height + 4, Some(bl), true);
            out.push(Cand { op, log: vlog, topic: 10 + vlog, flag: true, kind: "valid prune far ahead".into(), forged: false });
        }
        _ => {
            let s = height.saturating_sub(1).max(1);
            let bl = hash_from(rng);
            let op = mk_op(rng, vkey, &vk, vlog, s, Some(bl), true);
            out.push(Cand { op, log: vlog, topic: 10 + vlog, flag: true, kind: "signed prune below height (rejected since the C05 fix)".into(), forged: false });
        }
    }
    rng.shuffle(&mut out);
    out
}

fn log_of_op(op: &Op) -> u64 {
    op.header.extensions.custom_field
}

fn rel(seq: u32, height: u32) -> &'static str {
    if seq == u32::MAX {
        "u32::MAX"
    } else if seq < height {
        "below"
    } else if seq == height {
        "at"
    } else {
        "above"
    }
}

fn main() {
    let args = Args::parse();
    let rt = tokio::runtime::Builder::new_current_thread().enable_all().build().unwrap();
    let mut out = Out::new(&args.out);
    let mut rng = Rng::new(args.seed);
    let keys: Vec<SigningKey> = (0..4).map(|_| key_from(&mut rng)).collect();
    if args.mode == "replay" {
        let text = std::fs::read_to_string(args.replay.as_ref().expect("replay file")).unwrap();
        let v: hc::serde_json::Value = hc::serde_json::from_str(&text).unwrap();
        let r = v["request"].as_str().unwrap_or("");
        println!("events carry real signatures: re-running the generator (the witness is its first world); recorded request: {}", &r[..r.len().min(300)]);
    }
    let (stores, rounds) = match args.tier {
        Tier::Quick => (12usize, 2usize),
        Tier::Thorough => (120, 3),
        Tier::Search => (30, 3),
    };
    rt.block_on(async {
        for _ in 0..stores {
            let mut w = new_world(&mut rng, &keys, &mut out).await;
            for _ in 0..rounds {
                let cands = candidates(&mut rng, &keys, &w);
                for c in &cands {
                    run_case(&mut out, &mut w, c).await;
                }
            }
        }
    });
    out.finish(
        "per store: three victim authors with 1-2 logs of 2-6 operations filled through the real Pipeline; then, aimed at a random victim log: forged events (attacker-signed, claiming the victim's key) for every combination of prune flag on/off x seq 0 / below / at / above height / u32::MAX x victim's log / another log id; the victim's genuine tip with the flag switched on (not re-signed); forged and flag-toggled operations announced under a stored id (head id, non-head id, another author's id; seq below / at / above the head); a genuine duplicate with the caller setting the flag; a flagged continuation with a flipped signature bit; the attacker's own valid operations under the same log id; the victim's valid continuation and valid prune operations (height+1, far ahead, below height). After each event all logs of all authors are read back. non-trivial = forged and flagged and aimed at a non-empty foreign log prefix",
        false,
    );
}
