//! C14 — Every pipeline submission completes with its own result.
//!
//! Drives the real `TaskTracker` / `Task::ready` / `Pipeline::process` of the `p2panda` crate through
//! chosen interleavings, using the cfg-guarded schedule points `ready:checked`, `mark:removed`,
//! `mark:result-set` (p2panda/src/processor/tasks.rs, `--cfg p2panda_p2panda_verif`).
//!
//! Request lines (see /verif/lean/Drv/C14.lean):
//!   `T <ids> | <macro>*`  tracker-level schedule: futures are polled by hand, one macro step at a time;
//!                         answer = outcome word per step, ` | `, final outcome per submitter after a drain
//!   `P <ids>`             real `Pipeline` thread (submitters parked after the check until the pipeline
//!                         thread went idle) or free-running OS threads; answer = final outcome per submitter
use hc::{Args, Out, Rng, Tier};
use p2panda::processor::verif::{new_event, set_schedule_point, Pipeline, PointFuture, TaskTracker};
use std::collections::{BTreeSet, HashMap, VecDeque};
use std::future::Future;
use std::panic::AssertUnwindSafe;
use std::pin::Pin;
use std::sync::atomic::{AtomicBool, Ordering};
use std::sync::{Arc, LazyLock, Mutex};
use std::task::{Context, Poll, Waker};
use std::time::Duration;
use tokio::sync::Notify;

type R = (u64, u64); // (operation id, submitter whose event produced the result)
type Fut<T> = Pin<Box<dyn Future<Output = T>>>;

// ------------------------------------------------------------------------------------------------
// schedule-point callback
// ------------------------------------------------------------------------------------------------

#[derive(Default)]
struct Ctx {
    /// 0 = points do nothing, 1 = hand-polled actors (`current`), 2 = pipeline driver (task-local id)
    mode: u8,
    current: usize,
    at: HashMap<usize, &'static str>,
    gates: HashMap<usize, Arc<Notify>>,
    /// mode 2: submitters that shall be parked at `ready:checked`
    park: BTreeSet<usize>,
}

static CTX: LazyLock<Mutex<Ctx>> = LazyLock::new(|| Mutex::new(Ctx::default()));

tokio::task_local! {
    static SUB: usize;
}

fn install_callback() {
    set_schedule_point(Some(Arc::new(|label: &'static str| -> Option<PointFuture> {
        let mut c = CTX.lock().unwrap();
        let actor = match c.mode {
            1 => c.current,
            2 => {
                if label != "ready:checked" {
                    return None;
                }
                let Ok(t) = SUB.try_with(|s| *s) else { return None };
                if !c.park.contains(&t) {
                    return None;
                }
                t
            }
            _ => return None,
        };
        let gate = Arc::new(Notify::new());
        c.at.insert(actor, label);
        c.gates.insert(actor, gate.clone());
        Some(Box::pin(async move { gate.notified().await }))
    })));
}

fn ctx_reset(mode: u8) {
    let mut c = CTX.lock().unwrap();
    c.mode = mode;
    c.current = 0;
    c.at.clear();
    c.gates.clear();
    c.park.clear();
}

fn at(actor: usize) -> Option<&'static str> {
    CTX.lock().unwrap().at.get(&actor).copied()
}

fn release(actor: usize) {
    let mut c = CTX.lock().unwrap();
    c.at.remove(&actor);
    if let Some(g) = c.gates.remove(&actor) {
        g.notify_one();
    }
}

/// Poll a hand-driven future once on behalf of `actor`; `Err` = it panicked.
fn poll_as<T>(actor: usize, fut: &mut Fut<T>) -> Result<Poll<T>, String> {
    CTX.lock().unwrap().current = actor;
    let mut cx = Context::from_waker(Waker::noop());
    hc::catch(AssertUnwindSafe(|| fut.as_mut().poll(&mut cx)))
}

// ------------------------------------------------------------------------------------------------
// tracker-level simulation (hand-polled futures over the real TaskTracker)
// ------------------------------------------------------------------------------------------------

#[derive(Clone, Copy, Debug, PartialEq)]
enum Macro {
    T(usize),
    B(usize),
    S(usize),
    C(usize),
    G(usize),
    W(usize),
    Pr,
    Pm,
    Ps,
    Pn,
}

impl Macro {
    fn text(&self) -> String {
        match self {
            Macro::T(t) => format!("T{t}"),
            Macro::B(t) => format!("B{t}"),
            Macro::S(t) => format!("S{t}"),
            Macro::C(t) => format!("C{t}"),
            Macro::G(t) => format!("G{t}"),
            Macro::W(t) => format!("W{t}"),
            Macro::Pr => "Pr".into(),
            Macro::Pm => "Pm".into(),
            Macro::Ps => "Ps".into(),
            Macro::Pn => "Pn".into(),
        }
    }
    fn parse(s: &str) -> Option<Macro> {
        match s {
            "Pr" => return Some(Macro::Pr),
            "Pm" => return Some(Macro::Pm),
            "Ps" => return Some(Macro::Ps),
            "Pn" => return Some(Macro::Pn),
            _ => {}
        }
        let t: usize = s.get(1..)?.parse().ok()?;
        match s.as_bytes()[0] {
            b'T' => Some(Macro::T(t)),
            b'B' => Some(Macro::B(t)),
            b'S' => Some(Macro::S(t)),
            b'C' => Some(Macro::C(t)),
            b'G' => Some(Macro::G(t)),
            b'W' => Some(Macro::W(t)),
            _ => None,
        }
    }
}

#[derive(Clone, Copy, Debug, PartialEq)]
enum Obs {
    Idle,
    /// `track` called while the tracker lock was held; the call is still queued on the lock
    Queued,
    Tracked,
    Sent,
    Gap,
    Wait,
    Done(R),
    Panic,
}

enum Pipe {
    Idle,
    Work(R),
    Removed(R, Fut<()>),
    Set(R, Fut<()>),
}

struct Sim {
    ids: Vec<u64>,
    tracker: TaskTracker<R, u64>,
    futs: Vec<Option<Fut<R>>>,
    obs: Vec<Obs>,
    gate_c: Vec<Arc<Notify>>,
    tracked_flags: Vec<Arc<AtomicBool>>,
    lock_queue: Vec<usize>,
    queue: VecDeque<R>,
    pipe: Pipe,
    /// "nt": `mark_as_done` set the result / notified while a submitter of that id sat in the gap
    nt: bool,
    /// two or more `track` calls were queued on the tracker lock at once
    nt_queued: bool,
}

fn res_str(r: R) -> String {
    format!("d{}.{}", r.0, r.1)
}

impl Sim {
    fn new(ids: &[u64]) -> Sim {
        ctx_reset(1);
        let n = ids.len();
        Sim {
            ids: ids.to_vec(),
            tracker: TaskTracker::new(),
            futs: (0..n).map(|_| None).collect(),
            obs: vec![Obs::Idle; n],
            gate_c: (0..n).map(|_| Arc::new(Notify::new())).collect(),
            tracked_flags: (0..n).map(|_| Arc::new(AtomicBool::new(false))).collect(),
            lock_queue: vec![],
            queue: VecDeque::new(),
            pipe: Pipe::Idle,
            nt: false,
            nt_queued: false,
        }
    }

    fn n(&self) -> usize {
        self.ids.len()
    }

    fn poll_sub(&mut self, t: usize) -> Result<Poll<R>, String> {
        let mut fut = self.futs[t].take().expect("submitter future");
        let r = poll_as(t, &mut fut);
        if matches!(r, Ok(Poll::Pending)) {
            self.futs[t] = Some(fut);
        }
        r
    }

    fn finish_poll(&mut self, t: usize, r: Result<Poll<R>, String>, pending: Obs, word: &str) -> String {
        match r {
            Ok(Poll::Ready(v)) => {
                self.obs[t] = Obs::Done(v);
                res_str(v)
            }
            Ok(Poll::Pending) => {
                self.obs[t] = pending;
                word.to_string()
            }
            Err(_) => {
                self.obs[t] = Obs::Panic;
                "panic".into()
            }
        }
    }

    fn step(&mut self, m: Macro) -> String {
        let n = self.n();
        match m {
            Macro::T(t) | Macro::B(t) | Macro::S(t) | Macro::C(t) | Macro::G(t) | Macro::W(t) if t >= n => "x".into(),
            Macro::T(t) | Macro::B(t) => {
                let keep_queued = matches!(m, Macro::B(_));
                if self.obs[t] != Obs::Idle {
                    return "x".into();
                }
                let tracker = self.tracker.clone();
                let id = self.ids[t];
                let tracked = self.tracked_flags[t].clone();
                let flag = tracked.clone();
                let gate = self.gate_c[t].clone();
                // Same order of calls as `Pipeline::process`: track, (send — done by the `S` step), ready.
                let mut fut: Fut<R> = Box::pin(async move {
                    let task = tracker.track(id).await;
                    flag.store(true, Ordering::SeqCst);
                    gate.notified().await;
                    task.ready().await
                });
                match poll_as(t, &mut fut) {
                    Ok(Poll::Pending) if tracked.load(Ordering::SeqCst) => {
                        self.futs[t] = Some(fut);
                        self.obs[t] = Obs::Tracked;
                        "ok".into()
                    }
                    // write lock held by a parked `mark_as_done`: the call does not return …
                    Ok(Poll::Pending) if keep_queued => {
                        // … `B`: leave it queued on the lock
                        self.futs[t] = Some(fut);
                        self.obs[t] = Obs::Queued;
                        self.lock_queue.push(t);
                        "queued".into()
                    }
                    // … `T`: cancel it
                    Ok(Poll::Pending) => "blocked".into(),
                    Ok(Poll::Ready(_)) => "?ready".into(),
                    Err(_) => {
                        self.obs[t] = Obs::Panic;
                        "panic".into()
                    }
                }
            }
            Macro::S(t) => {
                if self.obs[t] != Obs::Tracked {
                    return "x".into();
                }
                self.queue.push_back((self.ids[t], t as u64));
                self.obs[t] = Obs::Sent;
                "ok".into()
            }
            Macro::C(t) => {
                if self.obs[t] != Obs::Sent {
                    return "x".into();
                }
                self.gate_c[t].notify_one();
                let r = self.poll_sub(t);
                if matches!(r, Ok(Poll::Pending)) && at(t) != Some("ready:checked") {
                    self.obs[t] = Obs::Wait;
                    return "?no-point".into();
                }
                self.finish_poll(t, r, Obs::Gap, "gap")
            }
            Macro::G(t) => {
                if self.obs[t] != Obs::Gap {
                    return "x".into();
                }
                release(t);
                let r = self.poll_sub(t);
                self.finish_poll(t, r, Obs::Wait, "wait")
            }
            Macro::W(t) => {
                if self.obs[t] != Obs::Wait {
                    return "x".into();
                }
                let r = self.poll_sub(t);
                self.finish_poll(t, r, Obs::Wait, "pending")
            }
            Macro::Pr => match (&self.pipe, self.queue.front()) {
                (Pipe::Idle, Some(_)) => {
                    let e = self.queue.pop_front().unwrap();
                    self.pipe = Pipe::Work(e);
                    "ok".into()
                }
                _ => "x".into(),
            },
            Macro::Pm => {
                let Pipe::Work(e) = self.pipe else { return "x".into() };
                let tracker = self.tracker.clone();
                let mut fut: Fut<()> = Box::pin(async move { tracker.mark_as_done(e.0, e).await });
                match poll_as(n, &mut fut) {
                    Ok(Poll::Ready(())) => {
                        self.pipe = Pipe::Idle;
                        "notask".into()
                    }
                    Ok(Poll::Pending) if at(n) == Some("mark:removed") => {
                        self.pipe = Pipe::Removed(e, fut);
                        "removed".into()
                    }
                    Ok(Poll::Pending) => "?pending".into(),
                    Err(_) => "panic".into(),
                }
            }
            Macro::Ps => {
                if !matches!(self.pipe, Pipe::Removed(..)) {
                    return "x".into();
                }
                let Pipe::Removed(e, mut fut) = std::mem::replace(&mut self.pipe, Pipe::Idle) else { unreachable!() };
                release(n);
                match poll_as(n, &mut fut) {
                    Ok(Poll::Pending) if at(n) == Some("mark:result-set") => {
                        self.note_gap_overlap(e);
                        self.pipe = Pipe::Set(e, fut);
                        "set".into()
                    }
                    Ok(Poll::Pending) => "?pending".into(),
                    Ok(Poll::Ready(())) => "?ready".into(),
                    Err(_) => "panic".into(),
                }
            }
            Macro::Pn => {
                if !matches!(self.pipe, Pipe::Set(..)) {
                    return "x".into();
                }
                let Pipe::Set(e, mut fut) = std::mem::replace(&mut self.pipe, Pipe::Idle) else { unreachable!() };
                release(n);
                match poll_as(n, &mut fut) {
                    Ok(Poll::Ready(())) => {
                        self.note_gap_overlap(e);
                        // the write lock is free again: the queued `track` calls get it (FIFO); poll them round-robin
                        // until each one returned
                        let queued = std::mem::take(&mut self.lock_queue);
                        if queued.len() >= 2 {
                            self.nt_queued = true;
                        }
                        for _ in 0..6 {
                            for t in &queued {
                                if self.obs[*t] == Obs::Queued {
                                    match self.poll_sub(*t) {
                                        Ok(Poll::Pending) if self.tracked_flags[*t].load(Ordering::SeqCst) => self.obs[*t] = Obs::Tracked,
                                        Ok(Poll::Pending) => {}
                                        Ok(Poll::Ready(_)) => self.obs[*t] = Obs::Panic,
                                        Err(_) => self.obs[*t] = Obs::Panic,
                                    }
                                }
                            }
                        }
                        if queued.iter().any(|t| self.obs[*t] == Obs::Queued) {
                            return "?still-queued".into();
                        }
                        "ok".into()
                    }
                    Ok(Poll::Pending) => "?pending".into(),
                    Err(_) => "panic".into(),
                }
            }
        }
    }

    fn note_gap_overlap(&mut self, e: R) {
        for t in 0..self.n() {
            if self.obs[t] == Obs::Gap && self.ids[t] == e.0 {
                self.nt = true;
            }
        }
    }

    // --- the drain, mirroring `driveSubmitter` / `drivePipe` / `drain` of P2/Model/Tasks.lean ---

    fn drive_submitter(&mut self, t: usize) {
        if self.obs[t] == Obs::Idle {
            self.step(Macro::T(t));
        }
        if self.obs[t] == Obs::Tracked {
            self.step(Macro::S(t));
        }
        if self.obs[t] == Obs::Sent {
            self.step(Macro::C(t));
        }
        if self.obs[t] == Obs::Gap {
            self.step(Macro::G(t));
        }
        if self.obs[t] == Obs::Wait {
            self.step(Macro::W(t));
        }
    }

    fn drive_pipe(&mut self) {
        let mut fuel = 4 * (self.queue.len() + 1) + 4;
        while fuel > 0 {
            fuel -= 1;
            let m = match self.pipe {
                Pipe::Idle => {
                    if self.queue.is_empty() {
                        break;
                    }
                    Macro::Pr
                }
                Pipe::Work(_) => Macro::Pm,
                Pipe::Removed(..) => Macro::Ps,
                Pipe::Set(..) => Macro::Pn,
            };
            self.step(m);
        }
    }

    fn drain(&mut self) {
        for _ in 0..4 {
            for t in 0..self.n() {
                self.drive_submitter(t);
            }
            self.drive_pipe();
        }
    }

    /// Final outcome per submitter; anything still pending is judged on a paused clock: it gets an hour
    /// of virtual time with every other actor finished.
    fn finals(&mut self, rt: &tokio::runtime::Runtime) -> Vec<String> {
        let mut out = vec![];
        for t in 0..self.n() {
            let w = match self.obs[t] {
                Obs::Done(r) => res_str(r),
                Obs::Panic => "panic".into(),
                Obs::Idle => "unstarted".into(),
                _ => {
                    let mut fut = self.futs[t].take().expect("pending future");
                    CTX.lock().unwrap().current = t;
                    let r = rt.block_on(async { tokio::time::timeout(Duration::from_secs(3600), fut.as_mut()).await });
                    match r {
                        Ok(v) => {
                            self.obs[t] = Obs::Done(v);
                            format!("late:{}", res_str(v))
                        }
                        Err(_) => "stuck".into(),
                    }
                }
            };
            out.push(w);
        }
        out
    }
}

/// Run a whole tracker-level case; returns (request, answer, nt, oracle failure (tag, what)).
fn run_tracker_case(rt: &tokio::runtime::Runtime, ids: &[u64], steps: &[Macro]) -> (String, String, bool, Option<(String, String)>, Vec<Obs>) {
    let mut sim = Sim::new(ids);
    let mut outs = vec![];
    for m in steps {
        outs.push(sim.step(*m));
    }
    let pre_drain = sim.obs.clone();
    sim.drain();
    let finals = sim.finals(rt);
    let req = format!(
        "T {} | {}",
        ids.iter().map(|i| i.to_string()).collect::<Vec<_>>().join(" "),
        steps.iter().map(|m| m.text()).collect::<Vec<_>>().join(" ")
    );
    let ans = format!("{} | {}", outs.join(" "), finals.join(" "));
    // Oracle (independent of the Lean model): every submission returned, with a pipeline result of an
    // event that really was sent and carries the submitter's own operation id.
    let mut fail = None;
    for t in 0..ids.len() {
        let f = match sim.obs[t] {
            Obs::Done(r) => {
                let src = r.1 as usize;
                if r.0 != ids[t] {
                    Some(("foreign-result".to_string(), format!("submitter {t} (id {}) returned the result of id {}", ids[t], r.0)))
                } else if src >= ids.len() || ids[src] != r.0 {
                    Some(("unsent-result".to_string(), format!("submitter {t} returned a result no submitter sent: {:?}", r)))
                } else if finals[t].starts_with("late:") {
                    Some(("late-wakeup".to_string(), format!("submitter {t} only completed during the idle hour")))
                } else {
                    None
                }
            }
            Obs::Panic => Some(("expect-panic".to_string(), format!("submitter {t}: Task::ready panicked (result missing after wake-up)"))),
            Obs::Wait if (0..ids.len()).any(|u| u != t && ids[u] == ids[t] && matches!(sim.obs[u], Obs::Done(_))) && sim.nt_queued => Some((
                "same-id-submitter-orphaned".to_string(),
                format!("submitter {t} (id {}) waits forever on a task that is not in the tracker map although another submission of the same operation completed: concurrent track() calls created two tasks for one id", ids[t]),
            )),
            Obs::Wait => Some((
                "lost-wakeup".to_string(),
                format!("submitter {t} (id {}) registered its wait after mark_as_done had notified; it never returns although its task is done", ids[t]),
            )),
            Obs::Idle => Some(("never-tracked".to_string(), format!("submitter {t}: track never returned"))),
            o => Some(("stuck-other".to_string(), format!("submitter {t} stuck in {:?}", o))),
        };
        if fail.is_none() {
            fail = f;
        }
    }
    for w in &outs {
        if w.starts_with('?') && fail.is_none() {
            fail = Some(("harness-protocol".to_string(), format!("unexpected poll outcome {w}")));
        }
    }
    (req, ans, sim.nt || sim.nt_queued, fail, pre_drain)
}

fn emit_tracker(out: &mut Out, rt: &tokio::runtime::Runtime, ids: &[u64], steps: &[Macro], kind: &str) {
    let (req, ans, nt, fail, _) = run_tracker_case(rt, ids, steps);
    let n = out.case(&req, &ans, nt);
    out.count(&format!("tracker:{kind}"));
    out.count(&format!("tracker:submitters={}", ids.len()));
    if nt {
        out.count("tracker:mark-while-in-gap-or-queued-tracks");
    }
    for w in ans.split(' ') {
        match w {
            "blocked" => out.count("outcome:track-blocked-by-write-lock"),
            "queued" => out.count("outcome:track-queued-on-write-lock"),
            "notask" => out.count("outcome:mark-without-task"),
            "gap" => out.count("outcome:check-none→gap"),
            "x" => out.count("outcome:step-not-enabled"),
            "pending" => out.count("outcome:poll-pending"),
            _ => {}
        }
    }
    if let Some((tag, what)) = fail {
        out.oracle_fail(n, &tag, &what, &req, &ans);
    }
}

/// All maximal schedules (no step answers `x`, `W` left to the drain, a blocked `T` at most once per lock hold)
/// found by depth-first search on the real implementation. `fused` = `Pm Ps Pn` always consecutive.
fn enumerate(out: &mut Out, rt: &tokio::runtime::Runtime, ids: &[u64], fused: bool, limit: usize, kind: &str) -> bool {
    let n = ids.len();
    let mut alphabet: Vec<Vec<Macro>> = vec![];
    for t in 0..n {
        alphabet.push(vec![Macro::T(t)]);
        alphabet.push(vec![Macro::S(t)]);
        alphabet.push(vec![Macro::C(t)]);
        alphabet.push(vec![Macro::G(t)]);
    }
    alphabet.push(vec![Macro::Pr]);
    if fused {
        alphabet.push(vec![Macro::Pm, Macro::Ps, Macro::Pn]);
    } else {
        alphabet.push(vec![Macro::Pm]);
        alphabet.push(vec![Macro::Ps]);
        alphabet.push(vec![Macro::Pn]);
    }
    let mut emitted = 0usize;
    let mut complete = true;
    let mut stack: Vec<Vec<Macro>> = vec![vec![]];
    while let Some(prefix) = stack.pop() {
        if emitted >= limit {
            complete = false;
            break;
        }
        let mut extended = false;
        for a in &alphabet {
            // run the prefix on the implementation, then see whether the candidate step is enabled
            let mut sim = Sim::new(ids);
            let mut outs = vec![];
            for m in prefix.iter() {
                outs.push(sim.step(*m));
            }
            let w = sim.step(a[0]);
            if w == "x" || w.starts_with('?') {
                continue;
            }
            if w == "blocked" {
                // one blocked `track` per submitter and lock hold is enough
                let last_pm = prefix.iter().rposition(|m| *m == Macro::Pm).unwrap_or(0);
                let again = prefix.iter().enumerate().any(|(k, m)| k >= last_pm && *m == a[0] && outs[k] == "blocked");
                if again {
                    continue;
                }
            }
            let mut cand = prefix.clone();
            cand.extend(a.iter().copied());
            extended = true;
            stack.push(cand);
        }
        if !extended {
            emit_tracker(out, rt, ids, &prefix, kind);
            emitted += 1;
        }
    }
    complete
}

/// Random schedule generated online: mostly the next plausible step of a random actor, sometimes any macro.
fn random_schedule(rng: &mut Rng, ids: &[u64], len: usize) -> Vec<Macro> {
    let n = ids.len();
    let mut sim = Sim::new(ids);
    let mut steps = vec![];
    for _ in 0..len {
        let m = if rng.chance(1, 10) {
            let t = rng.below(n as u64 + 1) as usize; // may be out of range: answers `x`
            match rng.below(10) {
                9 => Macro::B(t),
                0 => Macro::T(t),
                1 => Macro::S(t),
                2 => Macro::C(t),
                3 => Macro::G(t),
                4 => Macro::W(t),
                5 => Macro::Pr,
                6 => Macro::Pm,
                7 => Macro::Ps,
                _ => Macro::Pn,
            }
        } else if rng.chance(2, 5) {
            match sim.pipe {
                Pipe::Idle => Macro::Pr,
                Pipe::Work(_) => Macro::Pm,
                Pipe::Removed(..) => Macro::Ps,
                Pipe::Set(..) => Macro::Pn,
            }
        } else {
            let t = rng.below(n as u64) as usize;
            match sim.obs[t] {
                Obs::Idle => {
                    if matches!(sim.pipe, Pipe::Removed(..) | Pipe::Set(..)) && rng.chance(3, 4) { Macro::B(t) } else { Macro::T(t) }
                }
                Obs::Queued => Macro::Pr,
                Obs::Tracked => Macro::S(t),
                Obs::Sent => Macro::C(t),
                Obs::Gap => {
                    // stay in the gap for a while so that marks overlap it
                    if rng.chance(1, 3) { Macro::G(t) } else { Macro::Pr }
                }
                Obs::Wait => Macro::W(t),
                _ => Macro::Pr,
            }
        };
        sim.step(m);
        steps.push(m);
    }
    steps
}

fn random_ids(rng: &mut Rng, n: usize) -> Vec<u64> {
    let distinct = rng.range(1, n as u64);
    (0..n).map(|_| 1 + rng.below(distinct)).collect()
}

// ------------------------------------------------------------------------------------------------
// real Pipeline thread
// ------------------------------------------------------------------------------------------------

fn emit_p(out: &mut Out, ids: &[u64], answers: Vec<String>, nt: bool, kind: &str, died: bool) {
    // the pipeline thread died: it was working on the first event (send order) whose submitter never returned
    let die_at = if died { answers.iter().position(|a| a == "stuck") } else { None };
    let req = format!(
        "P {}{}",
        ids.iter().map(|i| i.to_string()).collect::<Vec<_>>().join(" "),
        die_at.map(|k| format!(" !{k}")).unwrap_or_default()
    );
    if died {
        out.count(&format!("{kind}:pipeline-thread-died"));
    }
    let ans = answers.join(" ");
    let n = out.case(&req, &ans, nt);
    out.count(&format!("{kind}:submitters={}", ids.len()));
    out.count(&format!("{kind}:cases"));
    for (t, a) in answers.iter().enumerate() {
        let want = format!("d{}", ids[t]);
        if *a == want {
            continue;
        }
        let (tag, what) = if a == "stuck" && died {
            (
                "pipeline-thread-died".to_string(),
                format!("the pipeline thread died (panic outside the task tracker) while working on submitter {}'s operation; submitter {t} and every later Pipeline::process call wait forever", die_at.unwrap_or(t)),
            )
        } else if a == "stuck" && kind == "stress" {
            (
                "same-id-submitter-orphaned".to_string(),
                format!("{} threads called Pipeline::process with the same operation at once; thread {t} never returned (it waits on a task that is not in the tracker map)", ids.len()),
            )
        } else if a == "stuck" {
            (format!("{kind}-lost-wakeup"), format!("submitter {t} never returned although the pipeline finished its operation"))
        } else if a == "panic" {
            (format!("{kind}-panic"), format!("submitter {t} panicked"))
        } else {
            (format!("{kind}-foreign-result"), format!("submitter {t} (id {}) got {a}", ids[t]))
        };
        out.oracle_fail(n, &tag, &what, &req, &ans);
        break;
    }
}

/// `late[t]`: submitter t is held after its result check until the pipeline thread has finished everything.
fn pipeline_case(rt: &tokio::runtime::Runtime, ids: &[u64], late: &[bool], order: &[usize]) -> (Vec<String>, bool, bool) {
    use p2panda::operation::LogId;
    use p2panda_core::test_utils::TestLog;
    use p2panda_core::traits::Digest;
    use p2panda_core::{Hash, Operation, PruneFlag, Topic};
    use p2panda_store::SqliteStore;

    ctx_reset(2);
    {
        let mut c = CTX.lock().unwrap();
        for (t, l) in late.iter().enumerate() {
            if *l {
                c.park.insert(t);
            }
        }
    }
    let n = ids.len();
    let mut reached_gap = false;
    let answers = rt.block_on(async {
        let store = SqliteStore::temporary().await;
        let tasks = TaskTracker::new();
        let pipeline = Pipeline::<LogId, (), Topic>::new(store, tasks.clone());
        let topic = Topic::random();
        // one operation per distinct id (equal ids = the very same operation submitted twice)
        let mut ops: HashMap<u64, Operation<()>> = HashMap::new();
        let mut by_hash: HashMap<Hash, u64> = HashMap::new();
        let log = TestLog::new();
        let mut sorted: Vec<u64> = ids.to_vec();
        sorted.sort();
        sorted.dedup();
        for id in sorted {
            let op = log.operation(format!("op {id}").as_bytes(), ());
            by_hash.insert(op.hash, id);
            ops.insert(id, op);
        }
        let sentinel_log = TestLog::new();
        let mut handles = vec![];
        for t in 0..n {
            let ev = new_event(ops[&ids[t]].clone(), LogId::from_topic(topic), topic, PruneFlag::default());
            let p = pipeline.clone();
            handles.push(tokio::spawn(SUB.scope(t, async move { p.process(ev).await })));
            // let it run up to the schedule point (or to completion)
            for _ in 0..2000 {
                tokio::task::yield_now().await;
                if at(t).is_some() || handles[t].is_finished() || !late[t] {
                    break;
                }
                tokio::time::sleep(Duration::from_micros(200)).await;
            }
            if at(t).is_some() {
                reached_gap = true;
            }
        }
        // wait until the pipeline thread has handled every event sent so far: a sentinel goes through the same FIFO
        let sentinel = sentinel_log.operation(b"sentinel", ());
        let ev = new_event(sentinel, LogId::from_topic(topic), topic, PruneFlag::default());
        // if even the sentinel does not come back the pipeline thread is gone (it panicked outside the tracker)
        let sentinel_done = tokio::time::timeout(Duration::from_secs(4), pipeline.process(ev)).await.is_ok();
        PIPELINE_DIED.store(!sentinel_done, Ordering::SeqCst);
        for t in order {
            release(*t);
        }
        tokio::task::yield_now().await;
        // judge on a paused clock: nothing else is running any more, an hour of virtual time passes at once
        tokio::time::pause();
        let mut answers = vec![];
        for h in handles {
            let r = tokio::time::timeout(Duration::from_secs(3600), h).await;
            answers.push(match r {
                Ok(Ok(ev)) => match by_hash.get(&ev.hash()) {
                    Some(id) => format!("d{id}"),
                    None => "unknown-op".into(),
                },
                Ok(Err(_)) => "panic".into(),
                Err(_) => "stuck".into(),
            });
        }
        tokio::time::resume();
        answers
    });
    ctx_reset(0);
    (answers, reached_gap, PIPELINE_DIED.load(Ordering::SeqCst))
}

static PIPELINE_DIED: AtomicBool = AtomicBool::new(false);

// ------------------------------------------------------------------------------------------------
// free-running OS threads on the raw tracker (no schedule points)
// ------------------------------------------------------------------------------------------------

fn threads_case(ids: &[u64], spin: u32) -> Vec<String> {
    use std::sync::mpsc;
    ctx_reset(0);
    let n = ids.len();
    let tracker: TaskTracker<R, u64> = TaskTracker::new();
    let (ev_tx, ev_rx) = mpsc::channel::<R>();
    let (res_tx, res_rx) = mpsc::channel::<(usize, R)>();
    let marker = {
        let tracker = tracker.clone();
        std::thread::spawn(move || {
            while let Ok(e) = ev_rx.recv() {
                for _ in 0..spin {
                    std::hint::spin_loop();
                }
                futures::executor::block_on(tracker.mark_as_done(e.0, e));
            }
        })
    };
    for t in 0..n {
        let tracker = tracker.clone();
        let ev_tx = ev_tx.clone();
        let res_tx = res_tx.clone();
        let id = ids[t];
        std::thread::spawn(move || {
            let r = futures::executor::block_on(async {
                let task = tracker.track(id).await;
                let _ = ev_tx.send((id, t as u64));
                drop(ev_tx);
                task.ready().await
            });
            let _ = res_tx.send((t, r));
        });
    }
    drop(ev_tx);
    drop(res_tx);
    let mut answers = vec!["stuck".to_string(); n];
    let deadline = std::time::Instant::now() + Duration::from_secs(3);
    let mut got = 0;
    while got < n {
        let left = deadline.saturating_duration_since(std::time::Instant::now());
        match res_rx.recv_timeout(left) {
            Ok((t, r)) => {
                answers[t] = format!("d{}", r.0);
                got += 1;
            }
            Err(_) => break,
        }
    }
    if got == n {
        let _ = marker.join();
    }
    answers
}

// ------------------------------------------------------------------------------------------------

/// Real `Pipeline`, current-thread runtime: the submitting task is descheduled at every await point of
/// `Pipeline::process` in turn while the pipeline thread keeps running. The forced yield comes from tokio's
/// cooperative budget (128 units per task poll, every channel / lock operation takes one; an operation that finds
/// the budget empty yields): the submitter burns `used` units first. While it is descheduled the only runtime
/// thread is blocked until the pipeline thread has committed the ingest of the operation (store commit counter)
/// plus a grace period — or, if nothing was sent yet, for a short while.
fn descheduled_submitter_sweep(out: &mut Out, rt: &tokio::runtime::Runtime, sweep: std::ops::RangeInclusive<u32>) {
    use p2panda::operation::LogId;
    use p2panda_core::test_utils::TestLog;
    use p2panda_core::traits::Digest;
    use p2panda_core::{PruneFlag, Topic};
    use p2panda_store::sqlite::verif_hooks::commit_count;
    use p2panda_store::SqliteStore;
    ctx_reset(0);
    let answers: Vec<(u32, String, bool)> = rt.block_on(async {
        let store = SqliteStore::temporary().await;
        let tasks = TaskTracker::new();
        let pipeline = Pipeline::<LogId, (), Topic>::new(store, tasks.clone());
        let topic = Topic::random();
        // warm-up: the pipeline thread is up and has processed something
        let warm = TestLog::new().operation(b"warm-up", ());
        let _ = tokio::time::timeout(Duration::from_secs(20), pipeline.process(new_event(warm, LogId::from_topic(topic), topic, PruneFlag::default()))).await;
        let mut res = vec![];
        for used in sweep {
            let op = TestLog::new().operation(format!("descheduled {used}").as_bytes(), ());
            let want = op.hash;
            let ev = new_event(op, LogId::from_topic(topic), topic, PruneFlag::default());
            let p = pipeline.clone();
            let commits_before = commit_count();
            let submitter = tokio::spawn(async move {
                for _ in 0..used {
                    tokio::task::coop::consume_budget().await;
                }
                p.process(ev).await
            });
            // let the submitter run until it yields for the first time …
            tokio::task::yield_now().await;
            // … and keep it descheduled: block this (the only) runtime thread while the pipeline thread works
            let t0 = std::time::Instant::now();
            let mut sent_and_ingested = false;
            while t0.elapsed() < Duration::from_millis(400) {
                if commit_count() > commits_before {
                    sent_and_ingested = true;
                    break;
                }
                std::thread::sleep(Duration::from_millis(2));
            }
            if sent_and_ingested {
                std::thread::sleep(Duration::from_millis(60)); // mark_as_done follows the commit immediately
            }
            let r = tokio::time::timeout(Duration::from_secs(4), submitter).await;
            let word = match r {
                Ok(Ok(ev)) if ev.hash() == want => "d1".to_string(),
                Ok(Ok(_)) => "foreign".to_string(),
                Ok(Err(_)) => "panic".to_string(),
                Err(_) => "stuck".to_string(),
            };
            res.push((used, word, sent_and_ingested));
        }
        res
    });
    for (used, word, window) in answers {
        out.count("desched:cases");
        if window {
            out.count("desched:pipeline-finished-while-submitter-descheduled");
        }
        let req = "P 1".to_string();
        let n = out.case(&req, &word, window);
        if word != "d1" {
            out.oracle_fail(
                n,
                if word == "stuck" { "result-dropped-untracked" } else { "desched-foreign-or-panic" },
                &format!("submitter descheduled inside Pipeline::process after using {used} budget units: the pipeline thread finished the operation meanwhile (ingest committed: {window}) and process() never returned — mark_as_done ran before the task was tracked, its result was dropped"),
                &format!("{req} (used_budget={used})"),
                &word,
            );
        }
    }
}

/// Two submitters share one (already completed) task; the harness holds the task's result mutex — standing in for
/// the first submitter cloning the result — while the second one calls `ready()` for the first time. After the
/// mutex is released the late waiter must return the result.
fn late_waiter_with_result_lock_held(out: &mut Out, rt: &tokio::runtime::Runtime) {
    ctx_reset(0);
    for n_late in 1..=3usize {
        let tracker: TaskTracker<R, u64> = TaskTracker::new();
        let mut noop = Context::from_waker(Waker::noop());
        let mut block = |f: Fut<()>| {
            let mut f = f;
            for _ in 0..16 {
                if f.as_mut().poll(&mut noop).is_ready() {
                    return true;
                }
            }
            false
        };
        // everybody tracks the same id, then the pipeline completes the task
        let tasks: Arc<Mutex<Vec<p2panda::processor::verif::Task<R, u64>>>> = Arc::new(Mutex::new(vec![]));
        for _ in 0..=n_late {
            let (tr, ts) = (tracker.clone(), tasks.clone());
            block(Box::pin(async move {
                let t = tr.track(1).await;
                ts.lock().unwrap().push(t);
            }));
        }
        let tr = tracker.clone();
        block(Box::pin(async move { tr.mark_as_done(1, (1, 0)).await }));
        let tasks = tasks.lock().unwrap().clone();
        // the first submitter is reading the result: the mutex is held
        let guard_slot: Arc<Mutex<Option<tokio::sync::OwnedMutexGuard<Option<R>>>>> = Arc::new(Mutex::new(None));
        {
            let (t0, gs) = (tasks[0].clone(), guard_slot.clone());
            block(Box::pin(async move {
                let g = t0.verif_lock_result().await;
                *gs.lock().unwrap() = Some(g);
            }));
        }
        // the late waiters call ready() for the first time now
        let mut futs: Vec<Fut<R>> = vec![];
        for t in tasks.iter().skip(1) {
            let t = t.clone();
            let mut f: Fut<R> = Box::pin(async move { t.ready().await });
            let _ = f.as_mut().poll(&mut noop);
            futs.push(f);
        }
        // the first submitter is done with the result
        guard_slot.lock().unwrap().take();
        let mut answers = vec!["d1".to_string()];
        for mut f in futs {
            let mut word = None;
            for _ in 0..8 {
                if let Poll::Ready(r) = f.as_mut().poll(&mut noop) {
                    word = Some(format!("d{}", r.0));
                    break;
                }
            }
            let word = match word {
                Some(w) => w,
                None => match rt.block_on(async { tokio::time::timeout(Duration::from_secs(3600), f.as_mut()).await }) {
                    Ok(r) => format!("d{}", r.0),
                    Err(_) => "stuck".to_string(),
                },
            };
            answers.push(word);
        }
        let ids = vec![1u64; n_late + 1];
        let req = format!("P {}", ids.iter().map(|i| i.to_string()).collect::<Vec<_>>().join(" "));
        let ans = answers.join(" ");
        let n = out.case(&req, &ans, true);
        out.count("late-waiter:cases");
        if let Some(t) = answers.iter().position(|a| a != "d1") {
            out.oracle_fail(
                n,
                "late-waiter-skipped-result-check",
                &format!("submitter {t} called ready() on an already completed task while another waiter held the result mutex; after the mutex was released it never returned (the result check was skipped and the only notification had already been fired)"),
                &format!("{req} (result mutex held during the late ready() calls)"),
                &ans,
            );
        }
    }
}

/// Public path, no schedule points: `k` OS threads released by a barrier call `Pipeline::process` with the SAME
/// operation (fresh operation every round, one pipeline for all rounds). Returns the number of rounds run.
fn stress_same_operation(out: &mut Out, rt: &tokio::runtime::Runtime, rounds: usize, k: usize) {
    use p2panda::operation::LogId;
    use p2panda_core::test_utils::TestLog;
    use p2panda_core::traits::Digest;
    use p2panda_core::{PruneFlag, Topic};
    use p2panda_store::SqliteStore;
    use std::sync::{mpsc, Barrier};
    ctx_reset(0);
    // the pool's background tasks live on this runtime: it must keep running while the threads work
    let _ = rt;
    let mt = tokio::runtime::Builder::new_multi_thread().worker_threads(2).enable_all().build().unwrap();
    let store = mt.block_on(SqliteStore::temporary());
    let tasks = TaskTracker::new();
    let pipeline = Pipeline::<LogId, (), Topic>::new(store, tasks.clone());
    let topic = Topic::random();
    let log = TestLog::new();
    let ids = vec![1u64; k];
    let mut failed_rounds = 0;
    for round in 0..rounds {
        let op = log.operation(format!("round {round}").as_bytes(), ());
        let want = op.hash;
        let barrier = Arc::new(Barrier::new(k));
        let (tx, rx) = mpsc::channel::<(usize, bool)>();
        for i in 0..k {
            let ev = new_event(op.clone(), LogId::from_topic(topic), topic, PruneFlag::default());
            let p = pipeline.clone();
            let barrier = barrier.clone();
            let tx = tx.clone();
            std::thread::spawn(move || {
                barrier.wait();
                let r = futures::executor::block_on(p.process(ev));
                let _ = tx.send((i, r.hash() == want));
            });
        }
        drop(tx);
        let mut answers = vec!["stuck".to_string(); k];
        let deadline = std::time::Instant::now() + Duration::from_secs(5);
        let mut got = 0;
        while got < k {
            match rx.recv_timeout(deadline.saturating_duration_since(std::time::Instant::now())) {
                Ok((i, own)) => {
                    answers[i] = if own { "d1".into() } else { "foreign".into() };
                    got += 1;
                }
                Err(_) => break,
            }
        }
        let bad = got < k;
        emit_p(out, &ids, answers, true, "stress", false);
        if bad {
            failed_rounds += 1;
            if failed_rounds >= 2 {
                break; // the orphaned threads never come back; two witnesses are enough
            }
        }
    }
}

fn main() {
    let args = Args::parse();
    let mut out = Out::new(&args.out);
    install_callback();
    let paused = tokio::runtime::Builder::new_current_thread().enable_all().start_paused(true).build().unwrap();
    let live = tokio::runtime::Builder::new_current_thread().enable_all().build().unwrap();

    if args.mode == "replay" {
        let text = std::fs::read_to_string(args.replay.as_ref().expect("replay file")).unwrap();
        let v: hc::serde_json::Value = hc::serde_json::from_str(&text).unwrap();
        let req = v["request"].as_str().unwrap().to_string();
        let toks: Vec<&str> = req.split_whitespace().collect();
        match toks.first() {
            Some(&"T") => {
                let bar = toks.iter().position(|t| *t == "|").unwrap_or(toks.len());
                let ids: Vec<u64> = toks[1..bar].iter().map(|t| t.parse().unwrap()).collect();
                let steps: Vec<Macro> = toks[(bar + 1).min(toks.len())..].iter().filter_map(|t| Macro::parse(t)).collect();
                emit_tracker(&mut out, &paused, &ids, &steps, "replay");
            }
            Some(&"P") => {
                let ids: Vec<u64> = toks[1..].iter().filter(|t| !t.starts_with('!')).map(|t| t.parse().unwrap()).collect();
                let late = vec![true; ids.len()];
                let order: Vec<usize> = (0..ids.len()).collect();
                let (ans, nt, died) = pipeline_case(&live, &ids, &late, &order);
                emit_p(&mut out, &ids, ans, nt, "pipeline", died);
            }
            _ => panic!("unknown request"),
        }
        out.finish("replay", false);
        return;
    }

    let mut rng = Rng::new(args.seed);
    let quick = args.tier == Tier::Quick;

    // 0. the defect's witness schedule first (DESIGN.md §5): check(None) · setResult · notifyWaiters · register
    emit_tracker(
        &mut out,
        &paused,
        &[5],
        &[Macro::T(0), Macro::S(0), Macro::C(0), Macro::Pr, Macro::Pm, Macro::Ps, Macro::Pn, Macro::G(0)],
        "witness",
    );

    // 0b. `track` calls of ONE operation queued on the tracker's lock while `mark_as_done` holds it, released together
    {
        use Macro::*;
        let w: Vec<(Vec<u64>, Vec<Macro>)> = vec![
            (vec![1, 1, 2], vec![T(2), S(2), Pr, Pm, B(0), B(1), Ps, Pn]),
            (vec![1, 1, 2], vec![T(2), S(2), Pr, Pm, Ps, B(1), B(0), Pn, S(1), S(0)]),
            (vec![1, 1, 1, 2], vec![T(3), S(3), Pr, Pm, B(0), B(1), B(2), Ps, Pn]),
            (vec![1, 1, 1], vec![T(0), S(0), Pr, Pm, B(1), B(2), Ps, Pn]),
            (vec![1, 2, 1, 2], vec![T(0), S(0), Pr, Pm, B(2), B(1), B(3), Ps, Pn, S(3), S(2), S(1)]),
            (vec![1, 1, 2], vec![T(2), S(2), Pr, Pm, B(0), T(0), B(1), B(1), Ps, T(1), Pn, T(0)]),
        ];
        for (ids, steps) in w {
            emit_tracker(&mut out, &paused, &ids, &steps, "queued-tracks");
        }
    }

    // 0c. public path stress: threads released by a barrier submit the same operation
    let (rounds, k) = match args.tier {
        Tier::Quick => (300, 4),
        _ => (3000, 4),
    };
    stress_same_operation(&mut out, &live, rounds, k);

    // 0e. a late waiter of a completed task calls ready() while another waiter holds the result mutex
    late_waiter_with_result_lock_held(&mut out, &paused);

    // 0d. real Pipeline, the submitter descheduled at each await point of process() while the pipeline thread runs on
    descheduled_submitter_sweep(&mut out, &live, if quick { 116..=130 } else { 96..=140 });

    // 1. exhaustive: one submitter with every mark_as_done sub-step; two submitters (same id / different ids)
    let mut exhaustive = true;
    exhaustive &= enumerate(&mut out, &paused, &[1], false, 100_000, "exh1-fine");
    if quick {
        exhaustive &= enumerate(&mut out, &paused, &[1, 1], true, 100_000, "exh2-same-fused");
        exhaustive &= enumerate(&mut out, &paused, &[1, 2], true, 100_000, "exh2-diff-fused");
    } else {
        exhaustive &= enumerate(&mut out, &paused, &[1, 1], false, 3_000_000, "exh2-same-fine");
        exhaustive &= enumerate(&mut out, &paused, &[1, 2], false, 3_000_000, "exh2-diff-fine");
    }
    out.extra.insert("exhaustive_part_complete".into(), exhaustive.into());

    // 2. random fine-grained schedules, 2–4 submitters, equal ids likely; includes not-enabled and out-of-range steps
    let nrand = match args.tier {
        Tier::Quick => 1500,
        Tier::Thorough => 60_000,
        Tier::Search => 150_000,
    };
    for _ in 0..nrand {
        let n = rng.range(2, 4) as usize;
        let ids = random_ids(&mut rng, n);
        let len = rng.range(6, 14 * n as u64) as usize;
        let steps = random_schedule(&mut rng, &ids, len);
        emit_tracker(&mut out, &paused, &ids, &steps, "random");
    }

    // 3. the real Pipeline thread, submitters parked between check and wait until the pipeline went idle
    let npipe = match args.tier {
        Tier::Quick => 40,
        Tier::Thorough => 600,
        Tier::Search => 600,
    };
    for k in 0..npipe {
        let n = if k < 4 { 1 + k % 2 } else { rng.range(1, 4) as usize };
        // k == 2: operation seq 1 of a log before its seq 0 (ingest rejects the first one inside a store transaction)
        let ids = if k == 1 { vec![1, 1] } else if k == 2 { vec![2, 1] } else { random_ids(&mut rng, n) };
        let n = ids.len();
        let late: Vec<bool> = (0..n).map(|_| k < 4 || rng.chance(3, 4)).collect();
        let mut order: Vec<usize> = (0..n).collect();
        rng.shuffle(&mut order);
        let (ans, nt, died) = pipeline_case(&live, &ids, &late, &order);
        emit_p(&mut out, &ids, ans, nt, "pipeline", died);
    }

    // 4. free-running threads without schedule points (thorough): the race as it happens in production
    if !quick {
        let nthreads = if args.tier == Tier::Thorough { 20_000 } else { 40_000 };
        for k in 0..nthreads {
            let n = rng.range(1, 4) as usize;
            let ids = random_ids(&mut rng, n);
            let ans = threads_case(&ids, (k % 7) as u32 * 40);
            emit_p(&mut out, &ids, ans, false, "threads", false);
        }
    }

    out.finish(
        "tracker-level: every maximal interleaving of track/send/ready(check | register+wait) with recv/remove/set-result/notify for 1 submitter (all sub-steps) and 2 submitters (same id and different ids), random schedules for 2-4 submitters incl. not-enabled steps; real Pipeline thread with submitters parked between check and wait; free-running OS threads (thorough). track calls of one operation queued on the tracker lock and released together; barrier-released threads submitting the SAME operation through Pipeline::process; the submitter descheduled (cooperative-budget exhaustion sweep) at every await point of Pipeline::process while the pipeline thread finishes the operation; non-trivial = mark_as_done set the result or notified while a submitter of that operation sat between its result check and its wait, or >= 2 track calls were queued on the lock at once (tracker level), a same-operation stress round, or a submitter was parked there until the pipeline thread went idle (pipeline level)",
        false,
    );
}
