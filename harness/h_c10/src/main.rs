//! C10 — Store transactions are atomic and serialized under any abort point.
//!
//! Two kinds of cases against the real `SqliteStore::{begin, tx, commit, rollback}` / `TransactionPermit`:
//!
//! * `ctl`: a fully controlled schedule. Every statement of every task is a future polled *by hand*
//!   (flag waker, no runtime involvement unless a completion is expected), so the harness decides
//!   which task moves, when the tokio runtime may run the spawned rollback task (`y`), and can
//!   drop a statement after its k-th poll (`S/k`) = cancellation at that await point. Every step's
//!   observation (ok / blk / cx / error / dirty-read count) and the final table are compared with
//!   the Lean LTS (`drv_c10`) and with a small reference in here (oracle).
//! * `free`: 2–8 real tokio tasks on a multi-thread runtime with generated scripts and random
//!   `JoinHandle::abort()`; only the final table is compared (with the model run on the observed
//!   serial order) plus the atomicity / liveness oracle.
//!
//! Writes are `INSERT INTO t(task, n, ord, ref) SELECT ?, ?, COALESCE(MAX(ord),0)+1, ? FROM t`: the
//! database itself records the serialisation order. `ref` is a DEFERRABLE INITIALLY DEFERRED foreign
//! key: a "bad" write makes the COMMIT itself fail (the error path of `commit`).
use std::future::Future;
use std::panic::AssertUnwindSafe;
use std::pin::Pin;
use std::sync::atomic::{AtomicBool, AtomicU64, Ordering};
use std::sync::{Arc, Mutex};
use std::task::{Context, Poll, Wake, Waker};
use std::time::{Duration, Instant};

use hc::{Args, Out, Rng, Tier};
use p2panda_store::{SqliteError, SqliteStore, Transaction};
use sqlx::Executor;

type Permit = <SqliteStore as Transaction>::Permit;

// ------------------------------------------------------------------------------------------------
// plumbing
// ------------------------------------------------------------------------------------------------

struct Flag(AtomicBool);
impl Wake for Flag {
    fn wake(self: Arc<Self>) {
        self.0.store(true, Ordering::SeqCst);
    }
    fn wake_by_ref(self: &Arc<Self>) {
        self.0.store(true, Ordering::SeqCst);
    }
}

enum StOut {
    Begin(Result<Permit, SqliteError>),
    Unit(Result<(), SqliteError>),
    Count(Result<i64, SqliteError>),
}

type Fut = Pin<Box<dyn Future<Output = StOut>>>;

async fn setup_table(store: &SqliteStore) {
    store
        .execute(async |pool| {
            pool.execute("CREATE TABLE p(id INTEGER PRIMARY KEY)").await?;
            pool.execute("INSERT INTO p(id) VALUES (1)").await?;
            pool.execute(
                "CREATE TABLE t(task INTEGER NOT NULL, n INTEGER NOT NULL, ord INTEGER NOT NULL, \
                 ref INTEGER NOT NULL REFERENCES p(id) DEFERRABLE INITIALLY DEFERRED)",
            )
            .await?;
            Ok(())
        })
        .await
        .expect("create tables");
}

async fn do_write(store: &SqliteStore, task: u64, n: u64, bad: bool) -> Result<(), SqliteError> {
    store
        .tx(async |tx| {
            sqlx::query("INSERT INTO t(task, n, ord, ref) SELECT ?, ?, COALESCE(MAX(ord),0)+1, ? FROM t")
                .bind(task as i64)
                .bind(n as i64)
                .bind(if bad { 999i64 } else { 1i64 })
                .execute(&mut **tx)
                .await
                .map_err(SqliteError::Sqlite)?;
            Ok(())
        })
        .await
}

async fn do_count(store: &SqliteStore) -> Result<i64, SqliteError> {
    store
        .tx(async |tx| {
            let c: i64 = sqlx::query_scalar("SELECT COUNT(*) FROM t").fetch_one(&mut **tx).await.map_err(SqliteError::Sqlite)?;
            Ok(c)
        })
        .await
}

/// `None`: the table cannot be read (e.g. the in-memory database is gone because the pooled
/// connection was closed and re-opened).
async fn read_table(store: &SqliteStore) -> Option<Vec<(i64, i64, i64)>> {
    store
        .execute(async |pool| {
            let rows: Vec<(i64, i64, i64)> = sqlx::query_as("SELECT task, n, ord FROM t ORDER BY ord, rowid").fetch_all(pool).await?;
            Ok(rows)
        })
        .await
        .ok()
}

fn err_word(e: &SqliteError) -> &'static str {
    match e {
        SqliteError::TransactionMissing => "E:notx",
        SqliteError::Sqlite(_) => "E:sqlite",
        _ => "E:other",
    }
}

// ------------------------------------------------------------------------------------------------
// schedule points inside the clean-up task of `TransactionPermit::drop` (verif hook)
// ------------------------------------------------------------------------------------------------

const P_BEFORE: &str = "drop:before-rollback";
const P_AFTER: &str = "drop:after-rollback-before-release";

/// The clean-up task parks at a point while `hold_*` is set; it only makes progress when the
/// harness lets the runtime run, so parking and resuming are harness decisions.
#[derive(Default)]
struct Gate {
    hold_before: AtomicBool,
    hold_after: AtomicBool,
    parked: Mutex<Option<&'static str>>,
    seen: Mutex<Vec<&'static str>>,
}

fn install_gate() -> Arc<Gate> {
    let g: Arc<Gate> = Default::default();
    // by default a clean-up task parks before it touches the transaction: it only advances at the
    // explicit `ya` / `y` steps, never as a side effect of the runtime running for another reason
    g.hold_before.store(true, Ordering::SeqCst);
    let g2 = g.clone();
    let hook: p2panda_store::sqlite::verif_hooks::Hook = Arc::new(move |name: &'static str| {
        let g = g2.clone();
        Box::pin(async move {
            g.seen.lock().unwrap().push(name);
            loop {
                let hold = match name {
                    P_BEFORE => g.hold_before.load(Ordering::SeqCst),
                    P_AFTER => g.hold_after.load(Ordering::SeqCst),
                    _ => false,
                };
                if !hold {
                    break;
                }
                *g.parked.lock().unwrap() = Some(name);
                tokio::time::sleep(Duration::from_micros(100)).await;
            }
            *g.parked.lock().unwrap() = None;
        })
    });
    p2panda_store::sqlite::verif_hooks::set(Some(hook));
    g
}

// ------------------------------------------------------------------------------------------------
// controlled schedules
// ------------------------------------------------------------------------------------------------

#[derive(Clone, Debug, PartialEq)]
enum Kind {
    Begin,
    Write(u64, bool),
    Read,
    Commit,
    Rollback,
    Drop,
    Quit,
    Panic,
    CancelTask,
    /// a task sharing the open transaction (no permit) enters a `tx()` query and stays inside it
    Enter,
    /// … writes its row and returns
    Finish(u64),
    Yield,
    /// let the runtime run until the clean-up task is parked before it touches the transaction
    YieldBefore,
    /// let it roll back, park it before it releases the permit
    YieldAfter,
}

#[derive(Clone, Debug)]
struct Step {
    task: u64,
    kind: Kind,
    /// Some(k): drop the statement future after at most k polls (if it has not completed by then)
    cancel: Option<u32>,
}

#[derive(Clone, Copy, PartialEq, Debug)]
enum Owner {
    Free,
    Task(u64),
    /// handed over by the fair semaphore to a queued `begin()` that has not been polled since
    Reserved(u64),
    Spawned,
}

/// What a single statement did on the real store.
enum Done {
    Completed(StOut),
    Pending(Fut), // still pending (kept by the caller or dropped = cancelled)
    Panicked,
    Hang,
}

static DB_COUNTER: AtomicU64 = AtomicU64::new(0);

struct Ctl {
    /// file-backed database with several pooled connections (None: `SqliteStore::temporary()`)
    file: Option<String>,
    store: SqliteStore, // dropped before the runtime
    rt: tokio::runtime::Runtime,
    base_alive: usize,
    gate: Arc<Gate>,
}

impl Ctl {
    fn new(file_db: bool) -> Ctl {
        let rt = tokio::runtime::Builder::new_current_thread().enable_all().build().unwrap();
        let file = if file_db {
            let _ = std::fs::create_dir_all("/tmp/famD-c10");
            Some(format!("/tmp/famD-c10/db-{}-{}.sqlite", std::process::id(), DB_COUNTER.fetch_add(1, Ordering::SeqCst)))
        } else {
            None
        };
        let store = rt.block_on(async {
            let s = match &file {
                None => SqliteStore::temporary().await,
                Some(path) => p2panda_store::SqliteStoreBuilder::new()
                    .database_url(&format!("sqlite://{path}"))
                    .min_connections(1)
                    .max_connections(4)
                    .idle_timeout(None)
                    .max_lifetime(None)
                    .build()
                    .await
                    .expect("file database"),
            };
            setup_table(&s).await;
            s
        });
        let mut c = Ctl { file, store, rt, base_alive: 0, gate: install_gate() };
        c.quiesce();
        c.base_alive = c.rt.metrics().num_alive_tasks();
        c
    }

    /// Let the runtime run until no spawned task is left (the rollback task of a dropped permit,
    /// sqlx' return-to-pool tasks).
    fn quiesce(&self) -> bool {
        let m = self.rt.metrics();
        let base = self.base_alive;
        self.rt.block_on(async {
            let t0 = Instant::now();
            loop {
                tokio::task::yield_now().await;
                if m.num_alive_tasks() <= base {
                    return true;
                }
                if self.gate.parked.lock().unwrap().is_some() {
                    // the clean-up task sits at a schedule point on purpose; give the other
                    // spawned tasks (sqlx housekeeping) a moment and return
                    for _ in 0..20 {
                        tokio::task::yield_now().await;
                    }
                    tokio::time::sleep(Duration::from_micros(500)).await;
                    return true;
                }
                if t0.elapsed() > Duration::from_secs(5) {
                    return false;
                }
                tokio::time::sleep(Duration::from_micros(200)).await;
            }
        })
    }

    /// Let the runtime run for a bounded time (used when the clean-up task is expected to be stuck
    /// behind a query in flight). Returns whether no spawned task is left afterwards.
    fn run_for(&self, ms: u64) -> bool {
        let m = self.rt.metrics();
        let base = self.base_alive;
        self.rt.block_on(async {
            let t0 = Instant::now();
            while t0.elapsed() < Duration::from_millis(ms) {
                tokio::task::yield_now().await;
                if m.num_alive_tasks() <= base {
                    return true;
                }
                tokio::time::sleep(Duration::from_micros(200)).await;
            }
            m.num_alive_tasks() <= base
        })
    }

    fn make_helper(&self, task: u64) -> (Helper, Arc<AtomicBool>) {
        let st = self.store.clone();
        let release = Arc::new(AtomicBool::new(false));
        let entered = Arc::new(AtomicBool::new(false));
        let n = Arc::new(AtomicU64::new(0));
        let (rel2, ent2, n2) = (release.clone(), entered.clone(), n.clone());
        let fut: Fut = Box::pin(async move {
            let r = st
                .tx(async |tx| {
                    ent2.store(true, Ordering::SeqCst);
                    // stay inside the query until the harness lets go (hand-polled: no waker needed)
                    std::future::poll_fn(|_| if rel2.load(Ordering::SeqCst) { Poll::Ready(()) } else { Poll::Pending }).await;
                    sqlx::query("INSERT INTO t(task, n, ord, ref) SELECT ?, ?, COALESCE(MAX(ord),0)+1, 1 FROM t")
                        .bind(task as i64)
                        .bind(n2.load(Ordering::SeqCst) as i64)
                        .execute(&mut **tx)
                        .await
                        .map_err(SqliteError::Sqlite)?;
                    Ok(())
                })
                .await;
            StOut::Unit(r)
        });
        (Helper { task, fut, release, n }, entered)
    }

    fn make(&self, task: u64, kind: &Kind, permit: &mut Option<Permit>) -> Fut {
        let st = self.store.clone();
        match kind {
            Kind::Begin => Box::pin(async move { StOut::Begin(st.begin().await) }),
            Kind::Write(n, bad) => {
                let (n, bad) = (*n, *bad);
                Box::pin(async move { StOut::Unit(do_write(&st, task, n, bad).await) })
            }
            Kind::Read => Box::pin(async move { StOut::Count(do_count(&st).await) }),
            Kind::Commit => {
                let p = permit.take().expect("commit needs the permit");
                Box::pin(async move { StOut::Unit(st.commit(p).await) })
            }
            Kind::Rollback => {
                let p = permit.take().expect("rollback needs the permit");
                Box::pin(async move { StOut::Unit(st.rollback(p).await) })
            }
            Kind::Quit => {
                let p = permit.take();
                Box::pin(async move {
                    let _held = p;
                    // `?`-style early return with the permit still in scope
                    let r: Result<(), SqliteError> = Err(SqliteError::TransactionMissing);
                    StOut::Unit(r)
                })
            }
            Kind::Panic => {
                let p = permit.take();
                Box::pin(async move {
                    let _held = p;
                    if true {
                        panic!("boom inside the transaction body");
                    }
                    StOut::Unit(Ok(()))
                })
            }
            _ => unreachable!(),
        }
    }

    /// Poll by hand. `max_polls`: stop after that many polls (cancellation experiments);
    /// `expect_progress`: when Pending and not woken, let the runtime run and keep waiting (up to a
    /// deadline); otherwise never involve the runtime and give up quickly.
    fn drive(&self, mut fut: Fut, max_polls: Option<u32>, expect_progress: bool, polls_out: &mut u32) -> Done {
        let _g = self.rt.enter();
        let flag = Arc::new(Flag(AtomicBool::new(true)));
        let waker = Waker::from(flag.clone());
        let mut cx = Context::from_waker(&waker);
        let t0 = Instant::now();
        loop {
            if let Some(m) = max_polls {
                if *polls_out >= m {
                    return Done::Pending(fut);
                }
            }
            flag.0.store(false, Ordering::SeqCst);
            *polls_out += 1;
            let r = std::panic::catch_unwind(AssertUnwindSafe(|| fut.as_mut().poll(&mut cx)));
            match r {
                Err(_) => return Done::Panicked,
                Ok(Poll::Ready(o)) => return Done::Completed(o),
                Ok(Poll::Pending) => {}
            }
            // wait for a wake-up
            let patience = if expect_progress { Duration::from_secs(10) } else { Duration::from_millis(4) };
            let mut ran_rt = false;
            let w0 = Instant::now();
            loop {
                if flag.0.load(Ordering::SeqCst) {
                    break;
                }
                if w0.elapsed() > patience || t0.elapsed() > Duration::from_secs(12) {
                    return if expect_progress { Done::Hang } else { Done::Pending(fut) };
                }
                if expect_progress && (!ran_rt || w0.elapsed() > Duration::from_millis(2)) {
                    // e.g. sqlx returns the pooled connection in a spawned task
                    ran_rt = true;
                    self.run_for(3); // bounded: a clean-up task may legitimately be stuck behind a query
                } else {
                    std::thread::sleep(Duration::from_micros(100));
                }
            }
        }
    }
}

struct TaskSt {
    permit: Option<Permit>,
    pending_begin: Option<Fut>,
    /// rows of the current transaction (reference side): (writer, n, bad)
    ws: Vec<(u64, u64, bool)>,
}

/// A `tx()` call of a task that shares the transaction, parked inside its closure by the harness.
struct Helper {
    task: u64,
    fut: Fut,
    release: Arc<AtomicBool>,
    n: Arc<AtomicU64>,
}

struct TxRec {
    task: u64,
    ws: Vec<(u64, u64, bool)>,
    /// Some(true) committed, Some(false) aborted, None = cancelled inside commit (decided from the table)
    fate: Option<bool>,
    /// index into `req` of the step to patch with +/-
    patch: Option<usize>,
}

struct CtlResult {
    req: String,
    ans: String,
    fail: Vec<(String, String)>,
    nt_commit: bool,
    abort_kinds: std::collections::BTreeSet<&'static str>,
    contended: bool,
    counts: Vec<String>,
}

fn run_ctl(steps: &[Step], file_db: bool) -> CtlResult {
    let c = Ctl::new(file_db);
    // tokio context for everything that is dropped by hand below (TransactionPermit::drop and
    // sqlx' PoolConnection::drop both spawn a task)
    let handle = c.rt.handle().clone();
    let _ctx = handle.enter();
    let mut tasks: std::collections::BTreeMap<u64, TaskSt> = Default::default();
    let mut owner = Owner::Free;
    // reference: tasks parked in begin(), in arrival order (tokio's semaphore is FIFO: whoever gives
    // the permit back hands it to the head of this queue)
    let mut queue: std::collections::VecDeque<u64> = Default::default();
    let mut unresolved: Vec<usize> = vec![]; // sizes of transactions cancelled inside commit()
    let mut slot_open = false; // reference: an open transaction object sits in the store
    let mut req: Vec<String> = vec![];
    let mut ans: Vec<String> = vec![];
    let mut txs: Vec<TxRec> = vec![];
    let mut fail: Vec<(String, String)> = vec![];
    let mut helper: Option<Helper> = None; // query in flight of a task sharing the transaction
    let mut zombie: Option<usize> = None; // TxRec of a transaction whose permit is gone but which is still in the slot
    let mut abort_kinds = std::collections::BTreeSet::new();
    let mut contended = false;
    let mut counts = vec![];
    let mut committed_rows = 0usize;
    let mut after_seen = 0usize; // clean-up tasks that had passed their last schedule point at the last `y`
    let mut before_seen = 0usize; // … their first schedule point
    macro_rules! release {
        () => {
            owner = match queue.pop_front() {
                Some(u) => Owner::Reserved(u),
                None => Owner::Free,
            };
        };
    }
    macro_rules! bad {
        ($tag:expr, $what:expr) => {
            if fail.len() < 6 && !fail.iter().any(|f| f.0 == $tag) {
                fail.push(($tag.to_string(), $what));
            }
        };
    }
    // the harness appends the closing steps itself
    let mut all: Vec<Step> = steps.to_vec();
    all.push(Step { task: u64::MAX, kind: Kind::Yield, cancel: None }); // marker: start of the closing phase
    let mut i = 0;
    let mut closing = false;
    while i < all.len() {
        let st = all[i].clone();
        i += 1;
        if st.task == u64::MAX && !closing {
            closing = true;
            // let a query in flight return, cancel whatever is still running, let the runtime finish,
            // then prove liveness
            if let Some(h) = &helper {
                all.push(Step { task: h.task, kind: Kind::Finish(9000 + h.task), cancel: None });
            }
            let ids: Vec<u64> = tasks.keys().cloned().collect();
            for t in ids {
                let ts = &tasks[&t];
                if ts.permit.is_some() || ts.pending_begin.is_some() {
                    all.push(Step { task: t, kind: Kind::CancelTask, cancel: None });
                }
            }
            all.push(Step { task: 0, kind: Kind::Yield, cancel: None });
            all.push(Step { task: 99, kind: Kind::Begin, cancel: None });
            all.push(Step { task: 99, kind: Kind::Commit, cancel: None });
            continue;
        }
        let t = st.task;
        tasks.entry(t).or_insert(TaskSt { permit: None, pending_begin: None, ws: vec![] });
        let holds = tasks[&t].permit.is_some();
        if helper.is_some() {
            // with a query in flight everything that needs the slot lock would simply wait for it;
            // the interesting steps are: dropping the permit, contending begins, the clean-up task
            let fine = match &st.kind {
                Kind::Drop | Kind::Quit | Kind::Panic | Kind::Finish(_) | Kind::Yield | Kind::YieldBefore | Kind::YieldAfter => true,
                Kind::CancelTask => true,
                Kind::Begin => !holds && st.cancel.is_none(),
                _ => false,
            };
            if !fine || helper.as_ref().map(|h| h.task) == Some(t) && !matches!(st.kind, Kind::Finish(_) | Kind::Yield | Kind::YieldBefore | Kind::YieldAfter) {
                continue;
            }
        }
        match (&st.kind, st.cancel) {
            (Kind::Enter, _) => {
                // only a task that neither holds a permit nor waits for one; one query at a time
                if holds || tasks[&t].pending_begin.is_some() || helper.is_some() {
                    continue;
                }
                if !slot_open && owner != Owner::Free {
                    continue; // (nothing open but somebody about to open: keep the reference simple)
                }
                req.push(format!("{t}:e"));
                let (mut h, entered) = c.make_helper(t);
                let mut polls = 0;
                let fut = std::mem::replace(&mut h.fut, Box::pin(async { StOut::Unit(Ok(())) }));
                match c.drive(fut, Some(1), false, &mut polls) {
                    Done::Pending(f) if entered.load(Ordering::SeqCst) => {
                        h.fut = f;
                        helper = Some(h);
                        ans.push("ok".into());
                        counts.push("shared-query-in-flight".into());
                        if !slot_open {
                            bad!("query-without-tx", format!("task {t}: tx() entered although no transaction is open"));
                        }
                    }
                    Done::Pending(f) => {
                        drop(f);
                        ans.push("blk".into());
                        bad!("query-blocked", format!("task {t}: tx() neither entered nor failed"));
                    }
                    Done::Completed(StOut::Unit(Err(e))) => {
                        ans.push(err_word(&e).into());
                        if slot_open {
                            bad!("query-error", format!("task {t}: tx() on the open transaction failed: {e}"));
                        }
                    }
                    _ => {
                        ans.push("??".into());
                        bad!("query-error", format!("task {t}: tx() behaved unexpectedly"));
                    }
                }
            }
            (Kind::Finish(n), _) => {
                let Some(h) = helper.take() else { continue };
                if h.task != t {
                    helper = Some(h);
                    continue;
                }
                req.push(format!("{t}:f{n}"));
                h.n.store(*n, Ordering::SeqCst);
                h.release.store(true, Ordering::SeqCst);
                let mut polls = 0;
                match c.drive(h.fut, None, true, &mut polls) {
                    Done::Completed(StOut::Unit(Ok(()))) => {
                        ans.push("ok".into());
                        // the row belongs to the transaction that is (still) in the slot
                        let holder = tasks.iter().find(|(_, ts)| ts.permit.is_some()).map(|(k, _)| *k);
                        if let Some(hd) = holder {
                            tasks.get_mut(&hd).unwrap().ws.push((t, *n, false));
                        } else if let Some(z) = zombie {
                            txs[z].ws.push((t, *n, false));
                        }
                    }
                    Done::Completed(StOut::Unit(Err(e))) => {
                        ans.push(err_word(&e).into());
                        bad!("query-error", format!("task {t}: shared query failed: {e}"));
                    }
                    _ => {
                        ans.push("HANG".into());
                        bad!("query-hang", format!("task {t}: shared query does not return"));
                    }
                }
            }
            (Kind::YieldBefore, _) | (Kind::YieldAfter, _) => {
                // only meaningful while a clean-up task exists and has not got that far yet
                if owner != Owner::Spawned {
                    continue;
                }
                let before = st.kind == Kind::YieldBefore;
                let already_after = c.gate.seen.lock().unwrap().iter().filter(|p| **p == P_AFTER).count() > after_seen;
                let passed_before = c.gate.seen.lock().unwrap().iter().filter(|p| **p == P_BEFORE).count() > before_seen
                    && *c.gate.parked.lock().unwrap() != Some(P_BEFORE);
                if already_after || (before && (c.gate.parked.lock().unwrap().is_some() || passed_before)) {
                    continue;
                }
                req.push(if before { "yb".into() } else { "ya".into() });
                if before {
                    c.gate.hold_before.store(true, Ordering::SeqCst);
                } else {
                    c.gate.hold_after.store(true, Ordering::SeqCst);
                    c.gate.hold_before.store(false, Ordering::SeqCst);
                }
                // run until parked at the requested point
                let want = if before { P_BEFORE } else { P_AFTER };
                let t0 = Instant::now();
                let mut reached = false;
                if !before && helper.is_some() {
                    // the clean-up task has to wait for the query in flight: it must NOT get there
                    c.run_for(40);
                    if *c.gate.parked.lock().unwrap() == Some(P_AFTER) {
                        ans.push("ok".into());
                        slot_open = false;
                        bad!("cleanup-ignores-query-in-flight", "the clean-up task of a dropped permit got past taking the transaction while a tx() query sharing that transaction was still in flight".to_string());
                    } else {
                        ans.push("blk".into());
                    }
                    c.gate.hold_before.store(true, Ordering::SeqCst);
                    continue;
                }
                while t0.elapsed() < Duration::from_secs(5) {
                    c.quiesce();
                    if *c.gate.parked.lock().unwrap() == Some(want) {
                        reached = true;
                        break;
                    }
                }
                c.gate.hold_before.store(true, Ordering::SeqCst);
                if !before {
                    slot_open = false; // rolled back
                    zombie = None;
                }
                ans.push(if reached { "ok".into() } else { "HANG".into() });
                if !reached {
                    bad!("cleanup-never-parks", format!("the clean-up task did not reach {want}"));
                }
            }
            (Kind::Yield, _) if helper.is_some() && owner == Owner::Spawned => {
                // the clean-up task must wait for the query in flight
                req.push("y".into());
                c.gate.hold_before.store(false, Ordering::SeqCst);
                c.gate.hold_after.store(false, Ordering::SeqCst);
                let done = c.run_for(40);
                c.gate.hold_before.store(true, Ordering::SeqCst);
                if done {
                    ans.push("ok".into());
                    after_seen = c.gate.seen.lock().unwrap().iter().filter(|p| **p == P_AFTER).count();
                before_seen = c.gate.seen.lock().unwrap().iter().filter(|p| **p == P_BEFORE).count();
                    release!();
                    slot_open = false;
                    bad!("cleanup-ignores-query-in-flight", "the clean-up task of a dropped permit finished (permit released) while a tx() query sharing that transaction was still in flight".to_string());
                } else {
                    ans.push("blk".into());
                }
            }
            (Kind::Yield, _) if helper.is_some() => {
                continue; // nothing spawned by the store to run; keep the query in flight
            }
            (Kind::Yield, _) => {
                req.push("y".into());
                c.gate.hold_before.store(false, Ordering::SeqCst);
                c.gate.hold_after.store(false, Ordering::SeqCst);
                let ok = c.quiesce() && {
                    // a task that was parked needs another round to finish
                    let t0 = Instant::now();
                    while c.gate.parked.lock().unwrap().is_some() && t0.elapsed() < Duration::from_secs(5) {
                        c.quiesce();
                    }
                    c.quiesce()
                };
                c.gate.hold_before.store(true, Ordering::SeqCst);
                after_seen = c.gate.seen.lock().unwrap().iter().filter(|p| **p == P_AFTER).count();
                before_seen = c.gate.seen.lock().unwrap().iter().filter(|p| **p == P_BEFORE).count();
                if owner == Owner::Spawned {
                    release!();
                    slot_open = false;
                    zombie = None;
                }
                ans.push(if ok { "ok".into() } else { "HANG".into() });
                if !ok {
                    bad!("spawned-never-finishes", "spawned tasks still alive after 5 s".to_string());
                }
            }
            (Kind::Begin, None) => {
                if holds {
                    continue; // never begin twice (would wait for itself)
                }
                req.push(format!("{t}:B"));
                let had_pending = tasks[&t].pending_begin.is_some();
                let expect_ok = if had_pending { owner == Owner::Reserved(t) } else { owner == Owner::Free };
                if !had_pending && !expect_ok {
                    queue.push_back(t);
                }
                let fut = tasks.get_mut(&t).unwrap().pending_begin.take().unwrap_or_else(|| c.make(t, &Kind::Begin, &mut None));
                let mut polls = 0;
                let d = if expect_ok { c.drive(fut, None, true, &mut polls) } else { c.drive(fut, Some(2), false, &mut polls) };
                match d {
                    Done::Completed(StOut::Begin(Ok(p))) => {
                        tasks.get_mut(&t).unwrap().permit = Some(p);
                        tasks.get_mut(&t).unwrap().ws.clear();
                        ans.push("ok".into());
                        if !expect_ok {
                            bad!("begin-not-blocked", format!("task {t}: begin() completed while the permit is owned by {owner:?}"));
                        }
                        owner = Owner::Task(t);
                        slot_open = true;
                    }
                    Done::Completed(StOut::Begin(Err(e))) => {
                        ans.push(err_word(&e).into());
                        bad!("begin-error", format!("task {t}: begin() failed: {e}"));
                    }
                    Done::Completed(_) => unreachable!(),
                    Done::Pending(f) => {
                        tasks.get_mut(&t).unwrap().pending_begin = Some(f);
                        ans.push("blk".into());
                        contended = true;
                        if expect_ok {
                            bad!("begin-hang", format!("task {t}: begin() does not complete although the permit should be free"));
                        }
                    }
                    Done::Panicked => {
                        ans.push("PANIC".into());
                        bad!("begin-panic", format!("task {t}: begin() panicked (owner per reference: {owner:?})"));
                    }
                    Done::Hang => {
                        ans.push("HANG".into());
                        bad!("begin-hang", format!("task {t}: begin() does not complete although the permit should be free (leaked permit?)"));
                    }
                }
            }
            (Kind::Begin, Some(k)) => {
                if holds || tasks[&t].pending_begin.is_some() {
                    continue;
                }
                let fut = c.make(t, &Kind::Begin, &mut None);
                let mut polls = 0;
                let expect_ok = owner == Owner::Free;
                let d = if k == 0 { Done::Pending(fut) } else { c.drive(fut, Some(k), expect_ok, &mut polls) };
                match d {
                    Done::Pending(f) => {
                        drop(f); // permit (if it got one) given back at once; queue entry (if any) removed
                        req.push(format!("{t}:B/{polls}"));
                        ans.push("cx".into());
                        abort_kinds.insert("cancel-in-begin");
                        // a cancelled pool.begin() returns its connection in a spawned task
                        if expect_ok {
                            req.push("y".into());
                            ans.push(if c.quiesce() { "ok".into() } else { "HANG".into() });
                        }
                    }
                    Done::Completed(StOut::Begin(Ok(p))) => {
                        // completed before the k-th poll: a normal begin, then the task is dropped
                        req.push(format!("{t}:B"));
                        ans.push("ok".into());
                        if !expect_ok {
                            bad!("begin-not-blocked", format!("task {t}: begin() completed while the permit is owned by {owner:?}"));
                        }
                        owner = Owner::Task(t);
                        slot_open = true;
                        tasks.get_mut(&t).unwrap().permit = Some(p);
                        tasks.get_mut(&t).unwrap().ws.clear();
                        all.insert(i, Step { task: t, kind: Kind::CancelTask, cancel: None });
                    }
                    Done::Completed(_) => {
                        req.push(format!("{t}:B"));
                        ans.push("E:other".into());
                        bad!("begin-error", format!("task {t}: begin() failed"));
                    }
                    Done::Panicked => {
                        req.push(format!("{t}:B"));
                        ans.push("PANIC".into());
                        bad!("begin-panic", format!("task {t}: begin() panicked"));
                    }
                    Done::Hang => {
                        req.push(format!("{t}:B"));
                        ans.push("HANG".into());
                        bad!("begin-hang", format!("task {t}: begin() hangs"));
                    }
                }
            }
            (Kind::Write(n, b), canc) => {
                let mut none = None;
                if !holds {
                    // tx-method without a transaction: only generated while nothing is open anywhere
                    if slot_open || owner != Owner::Free || canc.is_some() {
                        continue;
                    }
                    req.push(format!("{t}:{}{n}", if *b { 'b' } else { 'w' }));
                    let fut = c.make(t, &st.kind, &mut none);
                    let mut polls = 0;
                    match c.drive(fut, None, true, &mut polls) {
                        Done::Completed(StOut::Unit(Err(e))) => ans.push(err_word(&e).into()),
                        Done::Completed(_) => {
                            ans.push("ok".into());
                            bad!("write-without-tx", format!("task {t}: tx() without a transaction succeeded"));
                        }
                        _ => {
                            ans.push("HANG".into());
                            bad!("write-hang", "tx() without transaction hangs".to_string());
                        }
                    }
                    continue;
                }
                let fut = c.make(t, &st.kind, &mut none);
                let mut polls = 0;
                let d = match canc {
                    Some(0) => Done::Pending(fut),
                    Some(k) => c.drive(fut, Some(k), true, &mut polls),
                    None => c.drive(fut, None, true, &mut polls),
                };
                let w = if *b { 'b' } else { 'w' };
                match d {
                    Done::Completed(StOut::Unit(Ok(()))) => {
                        req.push(format!("{t}:{w}{n}"));
                        ans.push("ok".into());
                        tasks.get_mut(&t).unwrap().ws.push((t, *n, *b));
                        if canc.is_some() {
                            all.insert(i, Step { task: t, kind: Kind::CancelTask, cancel: None });
                        }
                    }
                    Done::Completed(StOut::Unit(Err(e))) => {
                        req.push(format!("{t}:{w}{n}"));
                        ans.push(err_word(&e).into());
                        let tag = if e.to_string().contains("no such table") { "database-lost" } else { "write-error" };
                        bad!(tag, format!("task {t}: write inside its transaction failed: {e}"));
                    }
                    Done::Completed(_) => unreachable!(),
                    Done::Pending(f) => {
                        // cancelled mid-statement: the task's future is gone, permit dropped with it
                        drop(f);
                        let ts = tasks.get_mut(&t).unwrap();
                        drop(ts.permit.take());
                        req.push(format!("{t}:{w}{n}/{polls}"));
                        ans.push("cx".into());
                        txs.push(TxRec { task: t, ws: std::mem::take(&mut ts.ws), fate: Some(false), patch: None });
                        zombie = Some(txs.len() - 1);
                        owner = Owner::Spawned;
                        abort_kinds.insert("cancel-in-write");
                    }
                    Done::Panicked => {
                        req.push(format!("{t}:{w}{n}"));
                        ans.push("PANIC".into());
                        bad!("write-panic", format!("task {t}: tx() panicked"));
                    }
                    Done::Hang => {
                        req.push(format!("{t}:{w}{n}"));
                        ans.push("HANG".into());
                        bad!("write-hang", format!("task {t}: tx() hangs"));
                    }
                }
            }
            (Kind::Read, _) => {
                if !holds {
                    continue;
                }
                req.push(format!("{t}:r"));
                let mut none = None;
                let fut = c.make(t, &Kind::Read, &mut none);
                let mut polls = 0;
                match c.drive(fut, None, true, &mut polls) {
                    Done::Completed(StOut::Count(Ok(n))) => {
                        ans.push(n.to_string());
                        let exp = committed_rows + tasks[&t].ws.len();
                        // a commit that was cancelled mid-way may or may not have gone through
                        let mut sums = vec![0usize];
                        for u in &unresolved {
                            let more: Vec<usize> = sums.iter().map(|x| x + u).collect();
                            sums.extend(more);
                        }
                        if !sums.iter().any(|x| exp + x == n as usize) {
                            bad!("isolation", format!("task {t}: sees {n} rows inside its transaction, expected {exp} (committed rows + rows of this transaction)"));
                        }
                    }
                    Done::Completed(StOut::Count(Err(e))) => {
                        ans.push(err_word(&e).into());
                        let tag = if e.to_string().contains("no such table") { "database-lost" } else { "read-error" };
                        bad!(tag, format!("task {t}: read inside transaction failed: {e}"));
                    }
                    _ => {
                        ans.push("HANG".into());
                        bad!("read-hang", format!("task {t}: read hangs/panics"));
                    }
                }
            }
            (Kind::Commit, canc) | (Kind::Rollback, canc) => {
                if !holds {
                    continue;
                }
                let is_commit = st.kind == Kind::Commit;
                let letter = if is_commit { 'C' } else { 'R' };
                let ts = tasks.get_mut(&t).unwrap();
                let ws = std::mem::take(&mut ts.ws);
                let has_bad = ws.iter().any(|w| w.2);
                let fut = c.make(t, &st.kind, &mut ts.permit);
                let mut polls = 0;
                let d = match canc {
                    Some(0) => Done::Pending(fut),
                    Some(k) => c.drive(fut, Some(k), true, &mut polls),
                    None => c.drive(fut, None, true, &mut polls),
                };
                match d {
                    Done::Completed(StOut::Unit(r)) => {
                        req.push(format!("{t}:{letter}"));
                        let word = match &r {
                            Ok(()) => "ok",
                            Err(e) => err_word(e),
                        };
                        ans.push(word.into());
                        let committed = is_commit && r.is_ok();
                        if is_commit && has_bad && r.is_ok() {
                            bad!("commit-ignored-constraint", format!("task {t}: commit with a deferred FK violation succeeded"));
                        }
                        if (is_commit && !has_bad && r.is_err()) || (!is_commit && r.is_err()) {
                            bad!("end-error", format!("task {t}: {letter} failed unexpectedly"));
                        }
                        if committed {
                            committed_rows += ws.len();
                        } else {
                            abort_kinds.insert(if is_commit { "commit-error" } else { "rollback" });
                        }
                        txs.push(TxRec { task: t, ws, fate: Some(committed), patch: None });
                        release!();
                        slot_open = false;
                    }
                    Done::Completed(_) => unreachable!(),
                    Done::Pending(f) => {
                        drop(f); // the permit travels inside the future: dropped uncommitted
                        if polls == 0 {
                            req.push(format!("{t}:{letter}/0"));
                            txs.push(TxRec { task: t, ws, fate: Some(false), patch: None });
                            zombie = Some(txs.len() - 1);
                        } else if is_commit {
                            req.push(format!("{t}:C/{polls}?"));
                            if !has_bad {
                                unresolved.push(ws.len());
                            }
                            txs.push(TxRec { task: t, ws, fate: if has_bad { Some(false) } else { None }, patch: Some(req.len() - 1) });
                            slot_open = false;
                        } else {
                            req.push(format!("{t}:R/{polls}"));
                            txs.push(TxRec { task: t, ws, fate: Some(false), patch: None });
                            slot_open = false;
                        }
                        ans.push("cx".into());
                        owner = Owner::Spawned;
                        abort_kinds.insert(if is_commit { "cancel-in-commit" } else { "cancel-in-rollback" });
                    }
                    Done::Panicked => {
                        req.push(format!("{t}:{letter}"));
                        ans.push("PANIC".into());
                        bad!("end-panic", format!("task {t}: {letter} panicked"));
                    }
                    Done::Hang => {
                        req.push(format!("{t}:{letter}"));
                        ans.push("HANG".into());
                        bad!("end-hang", format!("task {t}: {letter} hangs"));
                    }
                }
            }
            (Kind::Drop, _) | (Kind::Quit, _) | (Kind::Panic, _) => {
                if !holds {
                    continue;
                }
                let ts = tasks.get_mut(&t).unwrap();
                let ws = std::mem::take(&mut ts.ws);
                let (letter, word, kind) = match st.kind {
                    Kind::Drop => ('D', "ok", "drop"),
                    Kind::Quit => ('Q', "end", "early-return"),
                    _ => ('P', "panic", "panic"),
                };
                req.push(format!("{t}:{letter}"));
                if st.kind == Kind::Drop {
                    let _g = c.rt.enter();
                    drop(ts.permit.take());
                    ans.push(word.into());
                } else {
                    let fut = c.make(t, &st.kind, &mut ts.permit);
                    let mut polls = 0;
                    match c.drive(fut, None, true, &mut polls) {
                        Done::Completed(StOut::Unit(Err(_))) if st.kind == Kind::Quit => ans.push("end".into()),
                        Done::Panicked if st.kind == Kind::Panic => ans.push("panic".into()),
                        _ => {
                            ans.push("??".into());
                            bad!("harness", "scripted early return / panic did not behave".to_string());
                        }
                    }
                }
                txs.push(TxRec { task: t, ws, fate: Some(false), patch: None });
                zombie = Some(txs.len() - 1);
                owner = Owner::Spawned;
                abort_kinds.insert(kind);
            }
            (Kind::CancelTask, _) => {
                let ts = tasks.get_mut(&t).unwrap();
                req.push(format!("{t}:X"));
                ans.push("cx".into());
                if let Some(f) = ts.pending_begin.take() {
                    drop(f);
                    abort_kinds.insert("cancel-while-waiting");
                    if owner == Owner::Reserved(t) {
                        release!(); // it had been handed the permit: passed on
                    } else {
                        queue.retain(|x| *x != t);
                    }
                }
                if ts.permit.is_some() {
                    let _g = c.rt.enter();
                    drop(ts.permit.take());
                    let ws = std::mem::take(&mut ts.ws);
                    txs.push(TxRec { task: t, ws, fate: Some(false), patch: None });
                    zombie = Some(txs.len() - 1);
                    owner = Owner::Spawned;
                    abort_kinds.insert("cancel-between-statements");
                }
            }
        }
    }
    // final table
    let rows = match c.rt.block_on(read_table(&c.store)) {
        Some(r) => r,
        None => {
            bad!("database-lost", "the table can no longer be read after the run (in-memory database replaced by a fresh connection)".to_string());
            vec![]
        }
    };
    let present: std::collections::BTreeSet<(i64, i64)> = rows.iter().map(|r| (r.0, r.1)).collect();
    // resolve cancelled commits; all-or-nothing
    for tx in txs.iter_mut() {
        let n_present = tx.ws.iter().filter(|w| present.contains(&(w.0 as i64, w.1 as i64))).count();
        if n_present != 0 && n_present != tx.ws.len() {
            bad!("partial-transaction", format!("task {}: {} of {} rows of one transaction are in the table", tx.task, n_present, tx.ws.len()));
        }
        match tx.fate {
            None => {
                let applied = !tx.ws.is_empty() && n_present == tx.ws.len();
                tx.fate = Some(applied);
                if let Some(p) = tx.patch {
                    req[p] = req[p].replace('?', if applied { "+" } else { "-" });
                }
                counts.push(format!("cancelled-commit-applied={applied}"));
            }
            Some(true) => {
                if n_present != tx.ws.len() {
                    bad!("committed-rows-missing", format!("task {}: committed transaction has {} of {} rows", tx.task, n_present, tx.ws.len()));
                }
            }
            Some(false) => {
                if n_present != 0 {
                    bad!("aborted-rows-committed", format!("task {}: {} rows of an aborted transaction are in the table", tx.task, n_present));
                }
            }
        }
    }
    for tx in txs.iter() {
        if let Some(p) = tx.patch {
            req[p] = req[p].replace('?', "-");
        }
    }
    // serial: the table is the concatenation of the committed transactions in order, ord = 1..n
    let mut expect: Vec<(i64, i64)> = vec![];
    for tx in &txs {
        if tx.fate == Some(true) {
            for w in &tx.ws {
                expect.push((w.0 as i64, w.1 as i64));
            }
        }
    }
    let got: Vec<(i64, i64)> = rows.iter().map(|r| (r.0, r.1)).collect();
    if got != expect {
        bad!("not-serial", format!("table {:?} is not the concatenation of the committed transactions {:?}", got, expect));
    }
    for (k, r) in rows.iter().enumerate() {
        if r.2 != k as i64 + 1 {
            bad!("ord-gap", format!("ord column {:?} is not 1..n: a write saw rows that were later rolled back, or two transactions overlapped", rows.iter().map(|r| r.2).collect::<Vec<_>>()));
            break;
        }
    }
    let db = if got.is_empty() { "db=-".to_string() } else { format!("db={}", got.iter().map(|r| format!("{}.{}", r.0, r.1)).collect::<Vec<_>>().join(",")) };
    let nt_commit = txs.iter().any(|t| t.fate == Some(true) && !t.ws.is_empty());
    drop(helper);
    drop(tasks);
    c.quiesce();
    let file = c.file.clone();
    // the store (and a transaction a defective protocol may have left in it) goes away inside the
    // runtime context
    p2panda_store::sqlite::verif_hooks::set(None);
    let Ctl { store, rt, .. } = c;
    let _ = std::panic::catch_unwind(AssertUnwindSafe(move || drop(store)));
    rt.block_on(async { tokio::task::yield_now().await });
    drop(_ctx);
    drop(rt);
    if let Some(f) = file {
        for suffix in ["", "-journal", "-wal", "-shm"] {
            let _ = std::fs::remove_file(format!("{f}{suffix}"));
        }
    }
    CtlResult {
        req: format!("{} {}", if file_db { "ctlf" } else { "ctl" }, req.join(" ")),
        ans: format!("{} | {}", ans.join(" "), db),
        fail,
        nt_commit,
        abort_kinds,
        contended,
        counts,
    }
}

fn emit_ctl(out: &mut Out, steps: &[Step], origin: &str) -> bool {
    emit_ctl_on(out, steps, origin, false)
}

fn emit_ctl_on(out: &mut Out, steps: &[Step], origin: &str, file_db: bool) -> bool {
    let t_case = Instant::now();
    let res = emit_ctl_inner(out, steps, origin, file_db);
    if std::env::var("C10_TIMING").is_ok() && t_case.elapsed() > Duration::from_millis(500) {
        eprintln!("slow case {:?} origin={origin} file={file_db} case#{}", t_case.elapsed(), out.cases);
    }
    res
}

fn emit_ctl_inner(out: &mut Out, steps: &[Step], origin: &str, file_db: bool) -> bool {
    let r = match std::panic::catch_unwind(AssertUnwindSafe(|| run_ctl(steps, file_db))) {
        Ok(r) => r,
        Err(_) => {
            p2panda_store::sqlite::verif_hooks::set(None);
            // the store (or sqlx underneath it) panicked outside of any observed statement
            let req = format!("ctl-crash {:?}", steps.iter().map(|s| format!("{}:{:?}/{:?}", s.task, s.kind, s.cancel)).collect::<Vec<_>>());
            let n = out.case(&req, "CRASH", false);
            out.oracle_fail(n, "crash-outside-statement", "a panic escaped while tearing the store down / between statements", &req, "CRASH");
            return true;
        }
    };
    let nt = r.nt_commit && r.abort_kinds.len() >= 2 && r.contended;
    let n = out.case(&r.req, &r.ans, nt);
    out.count(&format!("origin={origin}"));
    out.count(if file_db { "store=file-4-connections" } else { "store=in-memory" });
    for k in &r.abort_kinds {
        out.count(&format!("abort={k}"));
    }
    for k in &r.counts {
        out.count(k);
    }
    if r.contended {
        out.count("contended-begin");
    }
    for (tag, what) in &r.fail {
        out.oracle_fail(n, tag, what, &r.req, &r.ans);
    }
    !r.fail.is_empty()
}

/// Parse a `ctl` request back into steps (replay). The closing steps the harness appends itself
/// are recognised and dropped (task 99 and everything after the last generated step is redone).
fn parse_ctl(req: &str) -> Option<Vec<Step>> {
    let mut it = req.split_whitespace();
    let mode = it.next()?;
    if mode != "ctl" && mode != "ctlf" {
        return None;
    }
    let mut v = vec![];
    for tok in it {
        if tok == "y" || tok == "yb" || tok == "ya" {
            let kind = match tok {
                "yb" => Kind::YieldBefore,
                "ya" => Kind::YieldAfter,
                _ => Kind::Yield,
            };
            v.push(Step { task: 0, kind, cancel: None });
            continue;
        }
        let (t, rest) = tok.split_once(':')?;
        let t: u64 = t.parse().ok()?;
        if t == 99 {
            break;
        }
        let (body, canc) = match rest.split_once('/') {
            Some((b, c)) => (b, Some(c.trim_end_matches(['+', '-', '?']).parse::<u32>().ok()?)),
            None => (rest, None),
        };
        let kind = match body.chars().next()? {
            'B' => Kind::Begin,
            'r' => Kind::Read,
            'C' => Kind::Commit,
            'R' => Kind::Rollback,
            'D' => Kind::Drop,
            'Q' => Kind::Quit,
            'P' => Kind::Panic,
            'X' => Kind::CancelTask,
            'e' => Kind::Enter,
            'f' => Kind::Finish(body[1..].parse().ok()?),
            'w' => Kind::Write(body[1..].parse().ok()?, false),
            'b' => Kind::Write(body[1..].parse().ok()?, true),
            _ => return None,
        };
        // a recorded `/k` means "not completed after k polls": replay with the same budget
        v.push(Step { task: t, kind, cancel: canc });
    }
    Some(v)
}

// ---- generators ---------------------------------------------------------------------------------

/// Every cancellation point of one transaction `B w w w w C` (or `… R`): statement i dropped after k
/// polls, with a second task contending before and after the runtime ran.
fn cancel_matrix(ending: Kind, max_k: u32) -> Vec<Vec<Step>> {
    let script = vec![Kind::Begin, Kind::Write(1, false), Kind::Write(2, false), Kind::Write(3, false), Kind::Write(4, false), ending];
    let mut v = vec![];
    for i in 0..script.len() {
        for k in 0..=max_k {
            let mut s = vec![];
            // an earlier committed transaction so that the table is not empty
            s.push(Step { task: 5, kind: Kind::Begin, cancel: None });
            s.push(Step { task: 5, kind: Kind::Write(50, false), cancel: None });
            s.push(Step { task: 5, kind: Kind::Commit, cancel: None });
            for (j, st) in script.iter().enumerate() {
                s.push(Step { task: 0, kind: st.clone(), cancel: if j == i { Some(k) } else { None } });
                if j == i {
                    break;
                }
            }
            // contender: before the runtime ran, after it ran, then a full transaction
            s.push(Step { task: 1, kind: Kind::Begin, cancel: None });
            s.push(Step { task: 0, kind: Kind::Yield, cancel: None });
            s.push(Step { task: 1, kind: Kind::Begin, cancel: None });
            s.push(Step { task: 1, kind: Kind::Read, cancel: None });
            s.push(Step { task: 1, kind: Kind::Write(9, false), cancel: None });
            s.push(Step { task: 1, kind: Kind::Commit, cancel: None });
            v.push(s);
        }
    }
    v
}

/// Every way a permit can be dropped uncommitted x the clean-up task parked (a) before it takes the
/// transaction, (b) after the rollback but before `drop(permit)`: contending `begin()` calls are
/// polled at each park position and must stay blocked until the clean-up task has finished.
fn park_matrix() -> Vec<Vec<Step>> {
    let st = |task: u64, kind: Kind, cancel: Option<u32>| Step { task, kind, cancel };
    let mut v = vec![];
    let aborts: Vec<(Kind, Option<u32>)> = vec![
        (Kind::Drop, None),
        (Kind::Quit, None),
        (Kind::Panic, None),
        (Kind::CancelTask, None),
        (Kind::Write(3, false), Some(1)),
        (Kind::Commit, Some(0)),
        (Kind::Commit, Some(1)),
        (Kind::Rollback, Some(1)),
    ];
    for (kind, cancel) in aborts {
        for queued_first in [false, true] {
            let mut s = vec![];
            s.push(st(5, Kind::Begin, None));
            s.push(st(5, Kind::Write(50, false), None));
            s.push(st(5, Kind::Commit, None));
            s.push(st(0, Kind::Begin, None));
            s.push(st(0, Kind::Write(1, false), None));
            s.push(st(0, Kind::Write(2, false), None));
            if queued_first {
                s.push(st(1, Kind::Begin, None)); // queued before the permit is dropped
            }
            s.push(st(0, kind.clone(), cancel));
            s.push(st(1, Kind::Begin, None));
            s.push(st(0, Kind::YieldBefore, None));
            s.push(st(1, Kind::Begin, None));
            s.push(st(2, Kind::Begin, None));
            s.push(st(0, Kind::YieldAfter, None));
            s.push(st(1, Kind::Begin, None));
            s.push(st(2, Kind::Begin, None));
            s.push(st(0, Kind::Yield, None));
            s.push(st(2, Kind::Begin, None));
            s.push(st(1, Kind::Begin, None));
            s.push(st(1, Kind::Read, None));
            s.push(st(1, Kind::Write(9, false), None));
            s.push(st(1, Kind::Commit, None));
            s.push(st(2, Kind::Begin, None));
            s.push(st(2, Kind::Read, None));
            s.push(st(2, Kind::Commit, None));
            v.push(s);
        }
    }
    v
}

/// Two futures share one transaction (the pattern documented on `SqliteStore`): task 7 is inside a `tx()`
/// query while the holder (task 0) loses / drops its permit. The clean-up task has to wait for that query;
/// contenders stay blocked; afterwards the aborted rows are gone and the next writers work normally.
fn shared_matrix() -> Vec<Vec<Step>> {
    let st = |task: u64, kind: Kind| Step { task, kind, cancel: None };
    let mut v = vec![];
    let prelude = |s: &mut Vec<Step>| {
        s.push(st(5, Kind::Begin));
        s.push(st(5, Kind::Write(50, false)));
        s.push(st(5, Kind::Commit));
        s.push(st(0, Kind::Begin));
        s.push(st(0, Kind::Write(1, false)));
        s.push(st(7, Kind::Enter));
    };
    let contender = |s: &mut Vec<Step>| {
        s.push(st(1, Kind::Begin));
        s.push(st(1, Kind::Read));
        s.push(st(1, Kind::Write(3, false)));
        s.push(st(1, Kind::Commit));
        s.push(st(2, Kind::Begin));
        s.push(st(2, Kind::Read));
        s.push(st(2, Kind::Commit));
    };
    for abort in [Kind::Drop, Kind::Quit, Kind::Panic, Kind::CancelTask] {
        // (1) clean-up parked before / tried after, contenders polled at every position
        let mut s = vec![];
        prelude(&mut s);
        s.push(st(0, abort.clone()));
        s.push(st(1, Kind::Begin));
        s.push(st(0, Kind::YieldBefore));
        s.push(st(1, Kind::Begin));
        s.push(st(0, Kind::YieldAfter)); // must stay behind the query in flight
        s.push(st(1, Kind::Begin));
        s.push(st(2, Kind::Begin));
        s.push(st(7, Kind::Finish(2)));
        s.push(st(0, Kind::YieldAfter));
        s.push(st(1, Kind::Begin));
        s.push(st(0, Kind::Yield));
        contender(&mut s);
        v.push(s);
        // (2) the runtime runs freely while the query is in flight, a writer begins in that window
        let mut s = vec![];
        prelude(&mut s);
        s.push(st(0, abort.clone()));
        s.push(st(0, Kind::Yield)); // clean-up must block on the slot lock
        s.push(st(1, Kind::Begin)); // must stay blocked
        s.push(st(7, Kind::Finish(2)));
        s.push(st(0, Kind::Yield));
        contender(&mut s);
        v.push(s);
    }
    // (3) the shared query returns first, the holder commits both rows / rolls both back
    for end in [Kind::Commit, Kind::Rollback, Kind::Drop] {
        let mut s = vec![];
        prelude(&mut s);
        s.push(st(1, Kind::Begin));
        s.push(st(7, Kind::Finish(2)));
        s.push(st(0, Kind::Read));
        s.push(st(0, end.clone()));
        s.push(st(0, Kind::Yield));
        contender(&mut s);
        v.push(s);
    }
    v
}

fn abort_kinds_matrix() -> Vec<Vec<Step>> {
    let mut v = vec![];
    for end in [Kind::Commit, Kind::Rollback, Kind::Drop, Kind::Quit, Kind::Panic, Kind::CancelTask] {
        for bad in [false, true] {
            let mut s = vec![];
            s.push(Step { task: 0, kind: Kind::Write(7, false), cancel: None }); // no transaction yet
            s.push(Step { task: 0, kind: Kind::Begin, cancel: None });
            s.push(Step { task: 1, kind: Kind::Begin, cancel: None }); // blocked
            s.push(Step { task: 2, kind: Kind::Begin, cancel: None }); // blocked
            s.push(Step { task: 0, kind: Kind::Write(1, false), cancel: None });
            s.push(Step { task: 0, kind: Kind::Write(2, bad), cancel: None });
            s.push(Step { task: 0, kind: Kind::Read, cancel: None });
            s.push(Step { task: 0, kind: end.clone(), cancel: None });
            s.push(Step { task: 1, kind: Kind::Begin, cancel: None });
            s.push(Step { task: 0, kind: Kind::Yield, cancel: None });
            s.push(Step { task: 2, kind: Kind::CancelTask, cancel: None });
            s.push(Step { task: 1, kind: Kind::Begin, cancel: None });
            s.push(Step { task: 1, kind: Kind::Read, cancel: None });
            s.push(Step { task: 1, kind: Kind::Write(3, false), cancel: None });
            s.push(Step { task: 1, kind: Kind::Commit, cancel: None });
            s.push(Step { task: 0, kind: Kind::Begin, cancel: None });
            s.push(Step { task: 0, kind: Kind::Write(4, false), cancel: None });
            s.push(Step { task: 0, kind: Kind::Commit, cancel: None });
            v.push(s);
        }
    }
    v
}

/// Random controlled schedule. The generator tracks who should own the permit only to bias its
/// choices (steps that make no sense in the real state are skipped by `run_ctl`).
fn gen_ctl(rng: &mut Rng) -> Vec<Step> {
    let ntasks = rng.range(2, 6);
    let len = rng.range(12, 45);
    let mut steps = vec![];
    let mut holder: Option<u64> = None;
    let mut spawned = false;
    let mut next_n = 1u64;
    for _ in 0..len {
        let c = |cancel_p: u64, rng: &mut Rng| -> Option<u32> { if rng.chance(cancel_p, 100) { Some(rng.below(5) as u32) } else { None } };
        if holder.is_some() && rng.chance(1, 12) {
            // a task sharing the transaction starts a query and stays inside it for a while
            steps.push(Step { task: 7, kind: Kind::Enter, cancel: None });
            if rng.chance(1, 2) {
                let h = holder.unwrap();
                let k = match rng.below(4) {
                    0 => Kind::Drop,
                    1 => Kind::Quit,
                    2 => Kind::Panic,
                    _ => Kind::CancelTask,
                };
                steps.push(Step { task: h, kind: k, cancel: None });
                holder = None;
                for _ in 0..rng.range(0, 3) {
                    let k = match rng.below(4) {
                        0 => Kind::YieldBefore,
                        1 => Kind::YieldAfter,
                        2 => Kind::Yield,
                        _ => Kind::Begin,
                    };
                    steps.push(Step { task: rng.below(ntasks), kind: k, cancel: None });
                }
                next_n += 1;
                steps.push(Step { task: 7, kind: Kind::Finish(next_n), cancel: None });
                spawned = true;
            } else {
                for _ in 0..rng.range(0, 2) {
                    steps.push(Step { task: rng.below(ntasks), kind: Kind::Begin, cancel: None });
                }
                next_n += 1;
                steps.push(Step { task: 7, kind: Kind::Finish(next_n), cancel: None });
            }
            continue;
        }
        match holder {
            Some(h) if !rng.chance(1, 4) => {
                // the holder moves
                let r = rng.below(100);
                let kind = if r < 45 {
                    next_n += 1;
                    Kind::Write(next_n, rng.chance(1, 12))
                } else if r < 55 {
                    Kind::Read
                } else if r < 75 {
                    Kind::Commit
                } else if r < 82 {
                    Kind::Rollback
                } else if r < 88 {
                    Kind::Drop
                } else if r < 92 {
                    Kind::Quit
                } else if r < 95 {
                    Kind::Panic
                } else {
                    Kind::CancelTask
                };
                let cancel = match kind {
                    Kind::Write(..) => c(8, rng),
                    Kind::Commit | Kind::Rollback => c(30, rng),
                    _ => None,
                };
                let ends = !matches!(kind, Kind::Write(..) | Kind::Read) || cancel.is_some();
                steps.push(Step { task: h, kind: kind.clone(), cancel });
                if ends {
                    holder = None;
                    spawned = !(matches!(kind, Kind::Commit | Kind::Rollback) && cancel.is_none());
                }
            }
            _ => {
                if spawned && rng.chance(1, 4) {
                    steps.push(Step { task: 0, kind: if rng.chance(1, 2) { Kind::YieldBefore } else { Kind::YieldAfter }, cancel: None });
                    continue;
                }
                if spawned && rng.chance(1, 2) {
                    steps.push(Step { task: 0, kind: Kind::Yield, cancel: None });
                    spawned = false;
                    continue;
                }
                let t = rng.below(ntasks);
                if Some(t) == holder {
                    continue;
                }
                let r = rng.below(100);
                if r < 6 && holder.is_none() && !spawned {
                    next_n += 1;
                    steps.push(Step { task: t, kind: Kind::Write(next_n, false), cancel: None });
                } else if r < 14 {
                    steps.push(Step { task: t, kind: Kind::CancelTask, cancel: None });
                } else {
                    let cancel = c(12, rng);
                    steps.push(Step { task: t, kind: Kind::Begin, cancel });
                    if holder.is_none() && !spawned && cancel.is_none() {
                        holder = Some(t);
                    }
                }
            }
        }
    }
    steps
}

// ------------------------------------------------------------------------------------------------
// free-running tasks
// ------------------------------------------------------------------------------------------------

#[derive(Clone, Debug)]
struct FreeTx {
    writes: Vec<(u64, bool)>,
    end: Kind,
}

#[derive(Clone, Debug, Default)]
struct FreeLog {
    stamp: u64,
    task: u64,
    writes_done: Vec<(u64, bool)>,
    end_started: Option<char>,
    end_result: Option<bool>, // Some(ok?)
}

async fn free_task(store: SqliteStore, task: u64, script: Vec<FreeTx>, log: Arc<Mutex<Vec<FreeLog>>>, stamp: Arc<AtomicU64>, jitter: u64) -> Result<(), SqliteError> {
    for tx in script {
        let permit = store.begin().await?;
        let idx = {
            let mut l = log.lock().unwrap();
            l.push(FreeLog { stamp: stamp.fetch_add(1, Ordering::SeqCst), task, ..Default::default() });
            l.len() - 1
        };
        for (n, bad) in &tx.writes {
            if jitter > 0 && n % 3 == 0 {
                tokio::time::sleep(Duration::from_micros(jitter)).await;
            } else {
                tokio::task::yield_now().await;
            }
            do_write(&store, task, *n, *bad).await?; // `?` with the permit in scope
            log.lock().unwrap()[idx].writes_done.push((*n, *bad));
        }
        match tx.end {
            Kind::Commit => {
                log.lock().unwrap()[idx].end_started = Some('C');
                let r = store.commit(permit).await;
                log.lock().unwrap()[idx].end_result = Some(r.is_ok());
            }
            Kind::Rollback => {
                log.lock().unwrap()[idx].end_started = Some('R');
                let r = store.rollback(permit).await;
                log.lock().unwrap()[idx].end_result = Some(r.is_ok());
            }
            Kind::Drop => {
                log.lock().unwrap()[idx].end_started = Some('D');
                drop(permit);
                log.lock().unwrap()[idx].end_result = Some(true);
            }
            Kind::Quit => {
                log.lock().unwrap()[idx].end_started = Some('Q');
                log.lock().unwrap()[idx].end_result = Some(true);
                return Err(SqliteError::TransactionMissing);
            }
            Kind::Panic => {
                log.lock().unwrap()[idx].end_started = Some('P');
                log.lock().unwrap()[idx].end_result = Some(true);
                let _held = permit;
                panic!("boom");
            }
            _ => unreachable!(),
        }
    }
    Ok(())
}

fn run_free(rng: &mut Rng, out: &mut Out, stress: bool) -> bool {
    let multi = stress || !rng.chance(1, 4);
    let rt = if multi {
        tokio::runtime::Builder::new_multi_thread().worker_threads(if stress { 4 } else { rng.range(2, 4) as usize }).enable_all().build().unwrap()
    } else {
        tokio::runtime::Builder::new_current_thread().enable_all().build().unwrap()
    };
    let ntasks = if stress { 8 } else { rng.range(2, 8) };
    let mut scripts = vec![];
    let mut n = 0u64;
    for _ in 0..ntasks {
        let ntx = if stress { 8 } else { rng.range(1, 4) };
        let mut sc = vec![];
        for _ in 0..ntx {
            let nw = if stress { rng.range(0, 1) } else { rng.range(0, 5) };
            let writes: Vec<(u64, bool)> = (0..nw)
                .map(|_| {
                    n += 1;
                    (n, rng.chance(1, 15))
                })
                .collect();
            // stress: many permits dropped while other tasks are queued in begin()
            let r = if !stress {
                rng.below(100)
            } else if rng.chance(1, 5) {
                0 // commit
            } else if rng.chance(1, 4) {
                60 // rollback
            } else {
                75 // drop(permit): the spawned rollback races with the queued begin() calls
            };
            let end = if r < 55 {
                Kind::Commit
            } else if r < 70 {
                Kind::Rollback
            } else if r < 82 {
                Kind::Drop
            } else if r < 92 {
                Kind::Quit
            } else {
                Kind::Panic
            };
            let last = matches!(end, Kind::Quit | Kind::Panic);
            sc.push(FreeTx { writes, end });
            if last {
                break;
            }
        }
        scripts.push(sc);
    }
    let aborts: Vec<Option<u64>> = (0..ntasks).map(|_| if !stress && rng.chance(1, 4) { Some(rng.range(0, 3000)) } else { None }).collect();
    let jitter = if stress { 0 } else { rng.below(300) };
    let log: Arc<Mutex<Vec<FreeLog>>> = Default::default();
    let stamp = Arc::new(AtomicU64::new(0));
    let mut begin_panicked = false;
    let mut foreign_panic: Option<String> = None;
    let (rows, live) = rt.block_on(async {
        let store = SqliteStore::temporary().await;
        setup_table(&store).await;
        let mut handles = vec![];
        for (t, sc) in scripts.iter().enumerate() {
            handles.push(tokio::spawn(free_task(store.clone(), t as u64, sc.clone(), log.clone(), stamp.clone(), jitter)));
        }
        for (t, a) in aborts.iter().enumerate() {
            if let Some(us) = a {
                let h = handles[t].abort_handle();
                let us = *us;
                tokio::spawn(async move {
                    tokio::time::sleep(Duration::from_micros(us)).await;
                    h.abort();
                });
            }
        }
        for h in handles {
            if let Err(e) = h.await {
                if e.is_panic() {
                    let p = e.into_panic();
                    let msg = p.downcast_ref::<&str>().map(|s| s.to_string()).or_else(|| p.downcast_ref::<String>().cloned()).unwrap_or_default();
                    if msg != "boom" {
                        foreign_panic = Some(msg);
                    }
                }
            }
        }
        // liveness: a later transaction must still be able to start
        let st2 = store.clone();
        let live = tokio::time::timeout(
            Duration::from_secs(10),
            futures::FutureExt::catch_unwind(AssertUnwindSafe(async move {
                let p = st2.begin().await?;
                st2.commit(p).await
            })),
        )
        .await;
        if matches!(live, Ok(Err(_))) {
            begin_panicked = true;
        }
        let live = matches!(live, Ok(Ok(Ok(()))));
        let rows = if live { read_table(&store).await } else { Some(vec![]) };
        (rows, live)
    });
    drop(rt);
    let mut lost = false;
    let rows = match rows {
        Some(r) => r,
        None => {
            lost = true;
            vec![]
        }
    };
    let mut logs = log.lock().unwrap().clone();
    logs.sort_by_key(|l| l.stamp);
    let present: std::collections::BTreeSet<(i64, i64)> = rows.iter().map(|r| (r.0, r.1)).collect();
    let mut req = vec!["free".to_string()];
    let mut fail: Option<(String, String)> = None;
    let mut kinds = std::collections::BTreeSet::new();
    let mut any_commit = false;
    if lost {
        fail = Some(("database-lost".into(), "the table can no longer be read after the run".into()));
    }
    if !live {
        fail = Some(("free-begin-hang".into(), "after all tasks ended a new begin()+commit() did not complete within 10 s".into()));
    }
    if let Some(m) = &foreign_panic {
        fail = Some(("free-task-panic".into(), format!("a task panicked inside the store API: {m}")));
    }
    if begin_panicked {
        fail = Some(("free-begin-panic".into(), "after all tasks ended a new begin() panicked (transaction slot still occupied although the permit was free)".into()));
    }
    for l in &logs {
        let t = l.task;
        req.push(format!("{t}:B"));
        for (n, b) in &l.writes_done {
            req.push(format!("{t}:{}{n}", if *b { 'b' } else { 'w' }));
        }
        let n_present = l.writes_done.iter().filter(|w| present.contains(&(t as i64, w.0 as i64))).count();
        let all_in = !l.writes_done.is_empty() && n_present == l.writes_done.len();
        if live && n_present != 0 && n_present != l.writes_done.len() && fail.is_none() {
            fail = Some(("partial-transaction".into(), format!("task {t}: {n_present} of {} rows of one transaction in the table", l.writes_done.len())));
        }
        let has_bad = l.writes_done.iter().any(|w| w.1);
        match (l.end_started, l.end_result) {
            (Some('C'), Some(ok)) => {
                req.push(format!("{t}:C"));
                if ok {
                    any_commit |= !l.writes_done.is_empty();
                } else {
                    kinds.insert("commit-error");
                }
                if live && fail.is_none() {
                    if ok && n_present != l.writes_done.len() {
                        fail = Some(("committed-rows-missing".into(), format!("task {t}: commit returned Ok but {n_present} of {} rows are there", l.writes_done.len())));
                    }
                    if !ok && n_present != 0 {
                        fail = Some(("aborted-rows-committed".into(), format!("task {t}: commit failed but {n_present} rows are there")));
                    }
                    if ok == has_bad {
                        fail = Some(("commit-constraint".into(), format!("task {t}: commit ok={ok} with bad write={has_bad}")));
                    }
                }
            }
            (Some('C'), None) => {
                // aborted inside commit(): SQLite may have committed
                req.push(format!("{t}:C/1{}", if all_in { "+" } else { "-" }));
                req.push("y".into());
                kinds.insert("abort-in-commit");
                any_commit |= all_in;
            }
            (Some('R'), Some(_)) => {
                req.push(format!("{t}:R"));
                kinds.insert("rollback");
            }
            (Some('R'), None) => {
                req.push(format!("{t}:R/1"));
                req.push("y".into());
                kinds.insert("abort-in-rollback");
            }
            (Some(c @ ('D' | 'Q' | 'P')), _) => {
                req.push(format!("{t}:{c}"));
                req.push("y".into());
                kinds.insert(match c {
                    'D' => "drop",
                    'Q' => "early-return",
                    _ => "panic",
                });
            }
            _ => {
                // aborted somewhere before the ending (or a failed write returned through `?`)
                req.push(format!("{t}:X"));
                req.push("y".into());
                kinds.insert("abort-mid-transaction");
            }
        }
        let aborted = !matches!((l.end_started, l.end_result), (Some('C'), Some(true)) | (Some('C'), None));
        if live && aborted && n_present != 0 && fail.is_none() {
            fail = Some(("aborted-rows-committed".into(), format!("task {t}: {n_present} rows of an aborted transaction are in the table")));
        }
    }
    for (k, r) in rows.iter().enumerate() {
        if r.2 != k as i64 + 1 && fail.is_none() {
            fail = Some(("ord-gap".into(), format!("ord column {:?} is not 1..n", rows.iter().map(|r| r.2).collect::<Vec<_>>())));
        }
    }
    let req = req.join(" ");
    let ans = if !live {
        "HANG".to_string()
    } else if rows.is_empty() {
        "db=-".to_string()
    } else {
        format!("db={}", rows.iter().map(|r| format!("{}.{}", r.0, r.1)).collect::<Vec<_>>().join(","))
    };
    let nt = any_commit && kinds.len() >= 2 && ntasks >= 2;
    let n = out.case(&req, &ans, nt);
    out.count(if stress { "origin=free-stress" } else if multi { "origin=free-multi-thread" } else { "origin=free-current-thread" });
    for k in &kinds {
        out.count(&format!("free-abort={k}"));
    }
    out.count(&format!("free-tasks={ntasks}"));
    if let Some((tag, what)) = fail {
        out.oracle_fail(n, &tag, &what, &req, &ans);
        return true;
    }
    false
}

fn main() {
    let args = Args::parse();
    if std::env::var("C10_LOUD").is_err() {
        std::panic::set_hook(Box::new(|_| {}));
    }
    let mut out = Out::new(&args.out);
    if args.mode == "replay" {
        let text = std::fs::read_to_string(args.replay.as_ref().expect("replay file")).unwrap();
        let v: hc::serde_json::Value = hc::serde_json::from_str(&text).unwrap();
        let req = v["request"].as_str().unwrap_or("").to_string();
        match parse_ctl(&req) {
            Some(steps) => {
                emit_ctl_on(&mut out, &steps, "replay", req.starts_with("ctlf"));
            }
            None => {
                // a `free` case cannot be replayed deterministically: re-run free cases with the same seed family
                let mut rng = Rng::new(v["case"].as_u64().unwrap_or(1));
                for _ in 0..50 {
                    if run_free(&mut rng, &mut out, false) {
                        break;
                    }
                }
            }
        }
        out.finish("replay", false);
        return;
    }
    let mut rng = Rng::new(args.seed);
    let (max_k, n_ctl, n_free, n_stress) = match args.tier {
        Tier::Quick => (2, 50, 20, 20),
        Tier::Thorough => (6, 1800, 700, 700),
        Tier::Search => (4, 800, 400, 800),
    };
    if let Ok(rd) = std::fs::read_dir("/verif/corpus/C10") {
        let mut files: Vec<_> = rd.filter_map(|e| e.ok()).map(|e| e.path()).collect();
        files.sort();
        for f in files {
            if let Ok(text) = std::fs::read_to_string(&f) {
                if let Ok(v) = hc::serde_json::from_str::<hc::serde_json::Value>(&text) {
                    if let Some(steps) = v["request"].as_str().and_then(parse_ctl) {
                        emit_ctl(&mut out, &steps, "corpus");
                    }
                }
            }
        }
    }
    let mut failures = 0;
    for s in abort_kinds_matrix() {
        if emit_ctl(&mut out, &s, "abort-kinds") {
            failures += 1;
        }
    }
    for s in park_matrix() {
        if failures < 6 && emit_ctl(&mut out, &s, "park-matrix") {
            failures += 1;
        }
    }
    for file_db in [false, true] {
        let mut local = 0;
        for s in shared_matrix() {
            if local < 3 && emit_ctl_on(&mut out, &s, "shared-transaction-matrix", file_db) {
                failures += 1;
                local += 1;
            }
        }
    }
    for s in abort_kinds_matrix().into_iter().step_by(2).chain(park_matrix().into_iter().step_by(4)) {
        if failures < 8 && emit_ctl_on(&mut out, &s, "file-db-matrix", true) {
            failures += 1;
        }
    }
    for end in [Kind::Commit, Kind::Rollback] {
        for s in cancel_matrix(end.clone(), max_k) {
            if failures < 6 && emit_ctl(&mut out, &s, "cancel-matrix") {
                failures += 1;
            }
        }
    }
    for _ in 0..n_ctl {
        if failures >= 6 {
            break;
        }
        let s = gen_ctl(&mut rng);
        let file_db = rng.chance(1, 8);
        if emit_ctl_on(&mut out, &s, "ctl-random", file_db) {
            failures += 1;
        }
    }
    for _ in 0..n_free {
        if failures >= 6 {
            break;
        }
        if run_free(&mut rng, &mut out, false) {
            failures += 1;
        }
    }
    for _ in 0..n_stress {
        if failures >= 6 {
            break;
        }
        if run_free(&mut rng, &mut out, true) {
            failures += 1;
        }
    }
    out.finish(
        "ctl case = hand-polled schedule of 2-6 tasks over one SqliteStore::temporary(): each task's begin / write / dirty read / commit / rollback / drop(permit) / `?` return / panic is a future polled by the harness, the spawned rollback task only runs at explicit `y` steps and can be parked through the verif hook before it takes the transaction (`yb`) and after the rollback but before it releases the permit (`ya`) (park matrix: every abort kind x both park positions x contender queued before/after), a statement may be dropped after its k-th poll (k = 0..3, thorough 0..6; matrix: every statement of a 6-statement transaction x every k, for commit and rollback endings) and a contending begin is observed before and after; shared-transaction matrix (in-memory and file-backed 4-connection store): a second task is parked inside a tx() query on the open transaction while the holder drops its permit (D/Q/P/X), the clean-up task is run / parked (it must wait for the query), contenders begin in the window, then read/write/commit; every observation and the final table (ord column = serialisation order recorded by SQLite itself) are compared. free case = 2-8 tokio tasks (multi-thread or current-thread runtime) with generated transaction scripts and random JoinHandle::abort(); final table compared with the model run on the observed serial order; a fresh begin()+commit() must succeed afterwards. non-trivial = case with >= 1 committed non-empty transaction, >= 2 different abort kinds and (ctl) a begin observed blocked / (free) >= 2 tasks",
        false,
    );
}
