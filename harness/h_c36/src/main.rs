//! C36 — Latest group secret is chosen deterministically and new secrets are newer.
//! Drives the real `SecretBundle` (real SHA-256 ids, real `HashMap` iteration order, real clock).
//!
//! Request (see lean/Drv/C36.lean): ops `i<id>:<ts>`, `r<id>`, `x<list>`, `f<list>`, `g<now>:<id>`,
//! `G<now>:<id>`. Ids in a line are the *ranks* (1-based, byte-wise lexicographic = the order
//! `find_latest` uses) of the real SHA-256 ids among all ids of the case; timestamps are relative to
//! `clock - 1000` so that the clock reading is always `1000` in a line.
use hc::serde_json::{self, Value};
use hc::{Args, Out, Rng, Tier};
use p2panda_encryption::data_scheme::group_secret::{GroupSecret, GroupSecretId, SecretBundle, SecretBundleState};
use std::collections::BTreeMap;
use std::time::{SystemTime, UNIX_EPOCH};

const NOW_REL: u64 = 1000;

/// Abstract op: secrets are indices into the case's key table, timestamps are relative.
#[derive(Clone, Debug)]
enum Op {
    Ins(usize, u64),
    Rem(usize),
    Ext(Vec<(usize, u64)>),
    From(Vec<(usize, u64)>),
    Gen(bool),
}

fn unix_now() -> u64 {
    SystemTime::now().duration_since(UNIX_EPOCH).unwrap().as_secs()
}

struct Ran {
    line: String,
    answer: String,
    nontrivial: bool,
    fail: Option<(String, String)>,
    stats: Vec<String>,
}

/// Independent reference for the oracle: content as id → ts (last writer wins, as in a map), and
/// the property's own definition of "latest" = maximum by (timestamp, id).
fn max_of(content: &BTreeMap<GroupSecretId, u64>) -> Option<GroupSecretId> {
    content.iter().max_by_key(|(id, ts)| (**ts, **id)).map(|(id, _)| *id)
}

fn run_ops(keys: &[[u8; 32]], ops: &[Op], erng: &p2panda_encryption::Rng) -> Option<Ran> {
    let t0 = unix_now();
    // Histories without `generate` do not read the clock: their timestamps are absolute (so that
    // timestamp 0 really is 0); with `generate` they are relative to the clock: real = base + rel.
    let has_gen = ops.iter().any(|o| matches!(o, Op::Gen(_)));
    let base = if has_gen { t0 - NOW_REL } else { 0 };
    let mk = |k: usize, rel: u64| GroupSecret::new(keys[k], base + rel);
    let key_id: Vec<GroupSecretId> = keys.iter().map(|k| GroupSecret::new(*k, 0).id()).collect();
    let mut y: SecretBundleState = SecretBundle::init();
    let mut content: BTreeMap<GroupSecretId, u64> = BTreeMap::new();
    // (op text with placeholders for ids, answers with placeholders) built after ranks are known
    enum Tok {
        S(String),
        Id(GroupSecretId),
        OptId(Option<GroupSecretId>),
    }
    let mut req: Vec<Vec<Tok>> = vec![];
    let mut ans: Vec<Vec<Tok>> = vec![];
    let mut all_ids: Vec<GroupSecretId> = vec![];
    let mut fail: Option<(String, String)> = None;
    let mut stats = vec![];
    let mut tie_on_max = false;
    let mut clock_behind = false;
    let list_toks = |l: &[(usize, u64)], pre: &str, all: &mut Vec<GroupSecretId>| -> Vec<Tok> {
        let mut v = vec![Tok::S(pre.to_string())];
        if l.is_empty() {
            v.push(Tok::S("-".into()));
        }
        for (i, (k, ts)) in l.iter().enumerate() {
            if i > 0 {
                v.push(Tok::S(",".into()));
            }
            v.push(Tok::Id(key_id[*k]));
            v.push(Tok::S(format!(":{ts}")));
            all.push(key_id[*k]);
        }
        v
    };
    for (n, op) in ops.iter().enumerate() {
        let mut a: Vec<Tok> = vec![];
        match op {
            Op::Ins(k, ts) => {
                y = SecretBundle::insert(y, mk(*k, *ts));
                content.insert(key_id[*k], *ts);
                all_ids.push(key_id[*k]);
                req.push(vec![Tok::S("i".into()), Tok::Id(key_id[*k]), Tok::S(format!(":{ts}"))]);
                stats.push("op=insert".to_string());
            }
            Op::Rem(k) => {
                let (y2, removed) = SecretBundle::remove(y, &key_id[*k]);
                y = y2;
                let expect = content.remove(&key_id[*k]);
                let got = removed.map(|s| s.timestamp() - base);
                if got != expect && fail.is_none() {
                    fail = Some(("remove-result".into(), format!("op {n}: remove returned {got:?}, content had {expect:?}")));
                }
                all_ids.push(key_id[*k]);
                req.push(vec![Tok::S("r".into()), Tok::Id(key_id[*k])]);
                a.push(Tok::S(match got {
                    Some(t) => format!("{t}/"),
                    None => "-/".into(),
                }));
                stats.push("op=remove".to_string());
            }
            Op::Ext(l) => {
                let other = SecretBundle::from_secrets(l.iter().map(|(k, ts)| mk(*k, *ts)).collect());
                y = SecretBundle::extend(y, other);
                let mut o: BTreeMap<GroupSecretId, u64> = BTreeMap::new();
                for (k, ts) in l {
                    o.insert(key_id[*k], *ts);
                }
                content.extend(o);
                req.push(list_toks(l, "x", &mut all_ids));
                stats.push("op=extend".to_string());
            }
            Op::From(l) => {
                y = SecretBundle::from_secrets(l.iter().map(|(k, ts)| mk(*k, *ts)).collect());
                content.clear();
                for (k, ts) in l {
                    content.insert(key_id[*k], *ts);
                }
                req.push(list_toks(l, "f", &mut all_ids));
                stats.push("op=from_secrets".to_string());
            }
            Op::Gen(insert) => {
                let before = y.latest().map(|s| s.timestamp());
                let s = SecretBundle::generate(&y, erng).expect("generate");
                let ts = s.timestamp();
                let id = s.id();
                let max_before = content.values().max().copied();
                // oracle: strictly later than the current latest (and than everything in the bundle)
                if let Some(b) = before {
                    if ts <= b && fail.is_none() {
                        fail = Some(("generate-not-newer".into(), format!("op {n}: generated ts {} <= latest ts {}", ts - base, b - base)));
                    }
                    if b - base >= NOW_REL {
                        clock_behind = true;
                        stats.push("gen-clock-not-ahead".to_string());
                    } else {
                        stats.push("gen-clock-ahead".to_string());
                    }
                } else {
                    stats.push("gen-empty".to_string());
                }
                if let Some(m) = max_before {
                    if ts - base <= m && fail.is_none() {
                        fail = Some(("generate-not-newer".into(), format!("op {n}: generated ts {} <= max ts {m} in bundle", ts - base)));
                    }
                }
                all_ids.push(id);
                req.push(vec![Tok::S(format!("{}{NOW_REL}:", if *insert { "g" } else { "G" })), Tok::Id(id)]);
                a.push(Tok::S(format!("{}/", ts - base)));
                if *insert {
                    y = SecretBundle::insert(y, s);
                    content.insert(id, ts - base);
                    if y.latest().map(|s| s.id()) != Some(id) && fail.is_none() {
                        fail = Some(("generated-not-latest".into(), format!("op {n}: inserted fresh secret is not the latest")));
                    }
                }
            }
        }
        // oracle: latest == maximum by (timestamp, id) of the current content
        let lat = y.latest().map(|s| s.id());
        let want = max_of(&content);
        if lat != want && fail.is_none() {
            fail = Some(("latest-not-max".into(), format!("op {n}: latest() is not the (timestamp, id)-maximum of the bundle")));
        }
        if y.len() != content.len() && fail.is_none() {
            fail = Some(("len".into(), format!("op {n}: len {} vs {}", y.len(), content.len())));
        }
        if let Some(w) = want {
            let wt = content[&w];
            if content.iter().filter(|(_, t)| **t == wt).count() > 1 {
                tie_on_max = true;
            }
        }
        a.push(Tok::OptId(lat));
        ans.push(a);
    }
    if unix_now() != t0 {
        return None; // the clock ticked during the case: run it again
    }
    // ranks
    all_ids.sort();
    all_ids.dedup();
    let rank = |id: &GroupSecretId| all_ids.binary_search(id).unwrap() + 1;
    let render = |v: &Vec<Tok>| -> String {
        v.iter()
            .map(|t| match t {
                Tok::S(s) => s.clone(),
                Tok::Id(id) => rank(id).to_string(),
                Tok::OptId(Some(id)) => rank(id).to_string(),
                Tok::OptId(None) => "-".into(),
            })
            .collect()
    };
    let line = req.iter().map(render).collect::<Vec<_>>().join(" ");
    let mut answer = ans.iter().map(render).collect::<Vec<_>>();
    answer.push("|".into());
    answer.push(format!("n={}", y.len()));
    if tie_on_max {
        stats.push("tie-on-max".into());
    }
    Some(Ran { line, answer: answer.join(" "), nontrivial: tie_on_max || clock_behind, fail, stats })
}

fn emit(out: &mut Out, keys: &[[u8; 32]], ops: &[Op], erng: &p2panda_encryption::Rng, kind: &str) {
    let mut r = None;
    for _ in 0..5 {
        r = run_ops(keys, ops, erng);
        if r.is_some() {
            break;
        }
        out.count("clock-tick-retry");
    }
    let r = r.expect("clock kept ticking");
    let n = out.case(&r.line, &r.answer, r.nontrivial);
    out.count(&format!("kind={kind}"));
    for s in &r.stats {
        out.count(s);
    }
    if let Some((tag, what)) = r.fail {
        out.oracle_fail(n, &tag, &what, &r.line, &r.answer);
    }
}

fn keys_for(rng: &mut Rng, n: usize) -> Vec<[u8; 32]> {
    // keys sorted by their SHA-256 id so that key index i has rank i+1 among the table
    let mut ks: Vec<[u8; 32]> = (0..n)
        .map(|_| {
            let mut k = [0u8; 32];
            k.copy_from_slice(&rng.bytes(32));
            k
        })
        .collect();
    ks.sort_by_key(|k| GroupSecret::new(*k, 0).id());
    ks
}

fn permutations(n: usize, f: &mut dyn FnMut(&[usize])) {
    fn go(cur: &mut Vec<usize>, used: &mut Vec<bool>, n: usize, f: &mut dyn FnMut(&[usize])) {
        if cur.len() == n {
            f(cur);
            return;
        }
        for i in 0..n {
            if !used[i] {
                used[i] = true;
                cur.push(i);
                go(cur, used, n, f);
                cur.pop();
                used[i] = false;
            }
        }
    }
    go(&mut vec![], &mut vec![false; n], n, f);
}

/// Every assignment of timestamps from `tsv` to `n` secrets (ranked ids) × every insertion order.
fn exhaustive(out: &mut Out, rng: &mut Rng, erng: &p2panda_encryption::Rng, n: usize, tsv: &[u64]) {
    let keys = keys_for(rng, n);
    let total = (tsv.len() as u64).pow(n as u32);
    for code in 0..total {
        let mut c = code;
        let ts: Vec<u64> = (0..n)
            .map(|_| {
                let t = tsv[(c % tsv.len() as u64) as usize];
                c /= tsv.len() as u64;
                t
            })
            .collect();
        permutations(n, &mut |p| {
            let ops: Vec<Op> = p.iter().map(|k| Op::Ins(*k, ts[*k])).collect();
            emit(out, &keys, &ops, erng, &format!("exhaustive-n{n}"));
        });
    }
}

fn rand_ts(rng: &mut Rng) -> u64 {
    match rng.below(8) {
        0 => 0,
        1 => NOW_REL,                       // exactly the clock reading
        2 => NOW_REL + rng.range(1, 50),     // ahead of the clock
        3 => NOW_REL - rng.range(1, 50),     // behind the clock
        4 => 5_000_000 + rng.below(3),       // far in the future, colliding
        _ => rng.range(1, 6),                // small, colliding
    }
}

fn random_case(out: &mut Out, rng: &mut Rng, erng: &p2panda_encryption::Rng, long: bool) {
    let nk = rng.range(1, if long { 24 } else { 7 }) as usize;
    let keys = keys_for(rng, nk);
    // consistent histories: each key has one timestamp; a few cases re-announce a key with another
    let retimestamp = rng.chance(1, 8);
    let fixed_ts: Vec<u64> = (0..nk).map(|_| rand_ts(rng)).collect();
    let ts_of = |k: usize, rng: &mut Rng| if retimestamp && rng.chance(1, 3) { rand_ts(rng) } else { fixed_ts[k] };
    let nops = rng.range(1, if long { 40 } else { 10 });
    let mut ops = vec![];
    for _ in 0..nops {
        let k = rng.below(nk as u64) as usize;
        ops.push(match rng.below(12) {
            0 | 1 => Op::Rem(k),
            2 | 3 => {
                let m = rng.below(5);
                Op::Ext((0..m).map(|_| { let k = rng.below(nk as u64) as usize; (k, ts_of(k, rng)) }).collect())
            }
            4 => {
                let m = rng.below(5);
                Op::From((0..m).map(|_| { let k = rng.below(nk as u64) as usize; (k, ts_of(k, rng)) }).collect())
            }
            5 | 6 => Op::Gen(true),
            7 => Op::Gen(false),
            _ => Op::Ins(k, ts_of(k, rng)),
        });
    }
    emit(out, &keys, &ops, erng, if retimestamp { "random-retimestamped" } else if long { "random-long" } else { "random-small" });
}

/// Merges of random splits: the same set of secrets split into 2–3 bundles, extended in both orders.
fn split_merge_case(out: &mut Out, rng: &mut Rng, erng: &p2panda_encryption::Rng) {
    let nk = rng.range(2, 8) as usize;
    let keys = keys_for(rng, nk);
    let ts: Vec<u64> = (0..nk).map(|_| rng.range(1, 3)).collect();
    let mut parts: Vec<Vec<(usize, u64)>> = vec![vec![], vec![], vec![]];
    for k in 0..nk {
        let p = rng.below(3) as usize;
        parts[p].push((k, ts[k]));
        if rng.chance(1, 4) {
            parts[rng.below(3) as usize].push((k, ts[k])); // overlap
        }
    }
    let mut order = vec![0usize, 1, 2];
    for _ in 0..2 {
        rng.shuffle(&mut order);
        let ops: Vec<Op> = order.iter().map(|p| Op::Ext(parts[*p].clone())).collect();
        emit(out, &keys, &ops, erng, "split-merge");
    }
}

fn main() {
    let args = Args::parse();
    let mut out = Out::new(&args.out);
    let erng = p2panda_encryption::Rng::from_seed([args.seed as u8; 32]);
    let mut rng = Rng::new(args.seed);
    if args.mode == "replay" {
        // A replay line names ids by rank; rebuild a key table with as many keys as the largest id.
        let text = std::fs::read_to_string(args.replay.as_ref().expect("replay file")).unwrap();
        let v: Value = serde_json::from_str(&text).unwrap();
        let req = v["request"].as_str().unwrap().to_string();
        match parse_line(&req) {
            Some((nk, ops)) => {
                let keys = keys_for(&mut rng, nk);
                emit(&mut out, &keys, &ops, &erng, "replay");
            }
            None => {
                out.case(&req, "bad-op", false);
            }
        }
        out.finish("replay", false);
        return;
    }
    match args.tier {
        Tier::Quick => {
            for n in 1..=4 {
                exhaustive(&mut out, &mut rng, &erng, n, &[0, 1, 2]);
            }
            exhaustive(&mut out, &mut rng, &erng, 5, &[1, 2]);
        }
        _ => {
            for n in 1..=5 {
                exhaustive(&mut out, &mut rng, &erng, n, &[0, 1, 2]);
            }
            exhaustive(&mut out, &mut rng, &erng, 6, &[1, 2]);
        }
    }
    let (nsmall, nlong, nsplit) = match args.tier {
        Tier::Quick => (3000, 600, 500),
        Tier::Thorough => (150_000, 30_000, 20_000),
        Tier::Search => (60_000, 10_000, 10_000),
    };
    for _ in 0..nsmall {
        random_case(&mut out, &mut rng, &erng, false);
    }
    for _ in 0..nlong {
        random_case(&mut out, &mut rng, &erng, true);
    }
    for _ in 0..nsplit {
        split_merge_case(&mut out, &mut rng, &erng);
    }
    for bad in ["i1", "i1:2:3", "q1:2", "r", "x1:2,", "g1000", "i-1:2"] {
        out.case(bad, "bad-op", false);
        out.count("kind=malformed-line");
    }
    out.finish(
        "exhaustive: every assignment of timestamps {0,1,2} to n<=4 (thorough n<=5) secrets and {1,2} to 5 (thorough 6) secrets with ranked real SHA-256 ids x every insertion order, latest() after each insert; random: insert/remove/extend/from_secrets/generate histories with colliding timestamps at/behind/ahead of the real clock, merges of random overlapping splits in two orders, a share of histories that re-announce a key under another timestamp. non-trivial = the maximum timestamp is shared by >= 2 secrets at some point (id tie-break decides) or generate() ran with the clock not ahead of the latest timestamp",
        true,
    );
}

/// Parse a request line back into abstract ops (replay). Generated secrets (`g`/`G`) get fresh keys
/// from the encryption rng, so only their position matters.
fn parse_line(line: &str) -> Option<(usize, Vec<Op>)> {
    let mut ops = vec![];
    let mut maxid = 0usize;
    let sec = |t: &str, maxid: &mut usize| -> Option<(usize, u64)> {
        let (a, b) = t.split_once(':')?;
        let id: usize = a.parse().ok()?;
        if id == 0 {
            return None;
        }
        *maxid = (*maxid).max(id);
        Some((id - 1, b.parse().ok()?))
    };
    let list = |t: &str, maxid: &mut usize| -> Option<Vec<(usize, u64)>> {
        if t == "-" {
            return Some(vec![]);
        }
        t.split(',').map(|x| sec(x, maxid)).collect()
    };
    for t in line.split_whitespace() {
        let (c, rest) = t.split_at(1);
        ops.push(match c {
            "i" => {
                let (k, ts) = sec(rest, &mut maxid)?;
                Op::Ins(k, ts)
            }
            "r" => {
                let id: usize = rest.parse().ok()?;
                if id == 0 {
                    return None;
                }
                maxid = maxid.max(id);
                Op::Rem(id - 1)
            }
            "x" => Op::Ext(list(rest, &mut maxid)?),
            "f" => Op::From(list(rest, &mut maxid)?),
            "g" => Op::Gen(true),
            "G" => Op::Gen(false),
            _ => return None,
        });
    }
    Some((maxid.max(1), ops))
}
