//! C17 — An ephemeral subscription never stalls on invalid messages.
//!
//! Drives the real `p2panda::streams::EphemeralStreamSubscription` (built over a local tokio broadcast channel
//! through the verif hooks `GossipHandle::verif_local` / `EphemeralStreamSubscription::verif_new`), polled **by
//! hand** with a counting waker, following the executor contract literally: the task is polled again only when
//! its waker fired (or right after it received an item).
//!
//! Request line (see lean/Drv/C17.lean):  `<cap> <tok>*`, tok = v | x | s | w | c | r
//! Answer: per `r` `<ids|->:<P|D|S>:<polls>`, then `w=<waker invocations>`.
use std::sync::Arc;
use std::sync::atomic::{AtomicBool, AtomicUsize, Ordering};
use std::task::{Context, Poll, Wake, Waker};

use futures_util::Stream;
use hc::{Args, Out, Rng, Tier};
use p2panda::streams::EphemeralStreamSubscription;
use p2panda_core::cbor::encode_cbor;
use p2panda_core::timestamp::{LamportTimestamp, Timestamp};
use p2panda_core::{SigningKey, Topic};
use p2panda_net::gossip::GossipHandle;
use tokio::sync::broadcast;

const RUN_FUEL: usize = 200;

struct CountingWaker {
    wakes: AtomicUsize,
    woken: AtomicBool,
}

impl Wake for CountingWaker {
    fn wake(self: Arc<Self>) {
        self.wake_by_ref();
    }
    fn wake_by_ref(self: &Arc<Self>) {
        self.wakes.fetch_add(1, Ordering::SeqCst);
        self.woken.store(true, Ordering::SeqCst);
    }
}

/// Wire bytes of a wrapped message: the CBOR 6-tuple; `signed_*` is what the signature is computed over.
fn wire(key: &SigningKey, version: u64, ts: u64, lamport: u64, body: u64, signed_version: u64, signed_body: u64) -> Vec<u8> {
    let vk = key.verifying_key();
    let signed = encode_cbor(&(signed_version, vk, Timestamp::new(ts), LamportTimestamp::new(lamport), &signed_body)).unwrap();
    let sig = key.sign(&signed);
    encode_cbor(&(version, vk, sig, Timestamp::new(ts), LamportTimestamp::new(lamport), &body)).unwrap()
}

struct Verdict {
    answer: String,
    nontrivial: bool,
    fails: Vec<(String, String)>,
    yielded: usize,
    lagged: bool,
}

fn run_case(rt: &tokio::runtime::Runtime, key: &SigningKey, cap: usize, toks: &[String]) -> Verdict {
    let topic = Topic::from([7u8; 32]);
    let (handle, _published, tx) = rt.block_on(GossipHandle::verif_local(topic, 1 << 20, cap));
    let sub = EphemeralStreamSubscription::<u64>::verif_new(topic, handle.subscribe());
    drop(handle); // the only sender left is `tx`
    let mut sub = Box::pin(sub);
    let mut tx: Option<broadcast::Sender<Vec<u8>>> = Some(tx);
    let cw = Arc::new(CountingWaker { wakes: AtomicUsize::new(0), woken: AtomicBool::new(false) });
    let waker = Waker::from(cw.clone());
    let mut cx = Context::from_waker(&waker);

    let mut scheduled = true; // the task starts by polling
    let mut done = false;
    let mut next_id: u64 = 0;
    let mut out: Vec<String> = vec![];
    let mut fails: Vec<(String, String)> = vec![];
    let mut all_yields: Vec<u64> = vec![];
    let mut pushed_kinds: Vec<char> = vec![]; // since the last run
    let mut nontrivial = false;
    let mut unread = 0usize; // items pushed and not yet consumed, for lag accounting (upper bound)
    let mut lagged = false;

    for tok in toks {
        match tok.as_str() {
            "v" | "x" | "s" | "w" => {
                let id = next_id;
                let bytes = match tok.as_str() {
                    "v" => {
                        next_id += 1;
                        wire(key, 1, 1000 + id, 0, id, 1, id)
                    }
                    "x" => vec![0xff, 0x00, 0x13, 0x37],
                    "s" => wire(key, 1, 5, 0, 777_000 + id, 1, 1), // body differs from the signed one
                    _ => wire(key, 2, 5, 0, 888_000 + id, 2, 888_000 + id), // unsupported version, correctly signed over it
                };
                if let Some(tx) = &tx {
                    let _ = tx.send(bytes);
                    pushed_kinds.push(tok.chars().next().unwrap());
                    unread += 1;
                    if unread > cap {
                        lagged = true;
                    }
                }
                if cw.woken.swap(false, Ordering::SeqCst) {
                    scheduled = true;
                }
            }
            "c" => {
                tx = None;
                if cw.woken.swap(false, Ordering::SeqCst) {
                    scheduled = true;
                }
            }
            "r" => {
                // nt rule: an invalid item directly before a valid one, nothing pushed afterwards
                let n = pushed_kinds.len();
                if n >= 2 && pushed_kinds[n - 1] == 'v' && pushed_kinds[n - 2] != 'v' {
                    nontrivial = true;
                }
                pushed_kinds.clear();
                let mut ids: Vec<u64> = vec![];
                let mut polls = 0usize;
                while scheduled && !done && polls < RUN_FUEL {
                    scheduled = false;
                    polls += 1;
                    let r = hc::catch(std::panic::AssertUnwindSafe(|| sub.as_mut().poll_next(&mut cx)));
                    match r {
                        Err(msg) => {
                            fails.push(("panic".into(), format!("poll_next panicked: {msg}")));
                            done = true;
                        }
                        Ok(Poll::Ready(Some(m))) => {
                            ids.push(*m.body());
                            scheduled = true; // `while let Some(m) = rx.next().await` polls again at once
                        }
                        Ok(Poll::Ready(None)) => {
                            done = true;
                            if tx.is_some() {
                                fails.push(("ended-early".into(), "poll_next returned Ready(None) although the channel is open".into()));
                            }
                        }
                        Ok(Poll::Pending) => {}
                    }
                    if cw.woken.swap(false, Ordering::SeqCst) {
                        scheduled = true;
                    }
                }
                unread = 0;
                let status = if done { "D" } else if scheduled { "S" } else { "P" };
                if status == "S" {
                    fails.push(("busy-loop".into(), format!("the task is still scheduled after {RUN_FUEL} polls with nothing pushed in between")));
                }
                all_yields.extend(&ids);
                let ids_s = if ids.is_empty() { "-".to_string() } else { ids.iter().map(|i| i.to_string()).collect::<Vec<_>>().join(",") };
                out.push(format!("{ids_s}:{status}:{polls}"));
            }
            other => panic!("unknown token {other}"),
        }
    }
    // ---- oracle (independent of the Lean model) -------------------------------------------------------------
    // The task is idle now iff !scheduled && !done. If it is idle, nothing valid may be left in the channel: drain
    // the subscription by force (ignoring the waker contract) and see whether a valid message comes out.
    if !scheduled && !done {
        let mut stuck: Vec<u64> = vec![];
        let mut pend = 0;
        for _ in 0..(4 * cap + 64) {
            match sub.as_mut().poll_next(&mut cx) {
                Poll::Ready(Some(m)) => {
                    stuck.push(*m.body());
                    pend = 0;
                }
                Poll::Ready(None) => break,
                Poll::Pending => {
                    pend += 1;
                    if pend > cap + 3 {
                        break;
                    }
                }
            }
        }
        if !stuck.is_empty() {
            fails.push((
                "stall".into(),
                format!("the task is idle (last poll returned Pending, waker never fired: {} wakes) but valid message(s) {:?} were still queued behind invalid/lagged items", cw.wakes.load(Ordering::SeqCst), stuck),
            ));
        }
    }
    // yields are valid ids in push order without repetition
    if all_yields.windows(2).any(|w| w[0] >= w[1]) {
        fails.push(("order".into(), format!("yielded ids not strictly increasing: {all_yields:?}")));
    }
    out.push(format!("w={}", cw.wakes.load(Ordering::SeqCst)));
    Verdict { answer: out.join(" "), nontrivial, fails, yielded: all_yields.len(), lagged }
}

fn emit(out: &mut Out, rt: &tokio::runtime::Runtime, key: &SigningKey, cap: usize, toks: &[String]) {
    let req = format!("{cap} {}", toks.join(" "));
    let v = run_case(rt, key, cap, toks);
    let n = out.case(req.trim_end(), &v.answer, v.nontrivial);
    out.count(&format!("cap={cap}"));
    out.count(&format!("len={}", if toks.len() <= 10 { toks.len().to_string() } else { ">10".into() }));
    for t in toks {
        out.count(&format!("tok={t}"));
    }
    if v.nontrivial {
        out.count("nontrivial");
    }
    if v.lagged {
        out.count("receiver-overrun(lagged)");
    }
    {
        // longest run of invalid items buffered directly in front of a valid one (no poll in between)
        let mut cur = 0usize;
        let mut best = 0usize;
        for t in toks {
            match t.as_str() {
                "x" | "s" | "w" => cur += 1,
                "v" => {
                    best = best.max(cur);
                    cur = 0;
                }
                _ => cur = 0,
            }
        }
        out.count(&format!("invalid-run-before-valid={}", match best { 0 => "0", 1..=7 => "1-7", 8..=30 => "8-30", 31..=33 => "31-33", 34..=62 => "34-62", 63..=65 => "63-65", 66..=126 => "66-126", _ => ">=127" }));
    }
    out.count_n("yielded", v.yielded as u64);
    for (tag, what) in &v.fails {
        out.oracle_fail(n, tag, what, req.trim_end(), &v.answer);
    }
}

/// The capacity the node's gossip manager really gives the subscription's broadcast channel, read from the
/// current source text (`broadcast::channel(N)` of `from_gossip_tx` in p2panda-net/src/gossip/actors/manager.rs).
fn real_capacity() -> Option<usize> {
    let src = std::fs::read_to_string("/repo/p2panda-net/src/gossip/actors/manager.rs").ok()?;
    let at = src.find("_from_gossip_rx) = broadcast::channel(")?;
    let rest = &src[at + "_from_gossip_rx) = broadcast::channel(".len()..];
    let digits: String = rest.chars().take_while(|c| c.is_ascii_digit()).collect();
    digits.parse().ok()
}

/// Long runs of invalid items buffered in front of a valid one: before the first poll, between polls (the task
/// idle with its waker registered), two runs in a row, and a run that ends the sequence.
fn long_runs(out: &mut Out, rt: &tokio::runtime::Runtime, key: &SigningKey, cap: usize, n: usize, kinds: &[&str], rng: &mut Rng) {
    let run = |rng: &mut Rng, len: usize| -> Vec<String> {
        (0..len).map(|_| if kinds.len() == 1 { kinds[0].to_string() } else { rng.pick(kinds).to_string() }).collect()
    };
    let t = |x: &str| x.to_string();
    // pre-loaded before the first poll
    let mut a = run(rng, n);
    a.push(t("v"));
    a.push(t("r"));
    emit(out, rt, key, cap, &a);
    // between polls: the task went idle on an empty channel first
    let mut b = vec![t("r")];
    b.extend(run(rng, n));
    b.push(t("v"));
    b.push(t("r"));
    emit(out, rt, key, cap, &b);
    // valid, run, valid, run, valid — then one run of the executor; and the same with polls in between
    let mut c = vec![t("v")];
    c.extend(run(rng, n));
    c.push(t("v"));
    c.extend(run(rng, n / 2 + 1));
    c.push(t("v"));
    c.push(t("r"));
    emit(out, rt, key, cap, &c);
    let mut d = vec![t("v"), t("r")];
    d.extend(run(rng, n));
    d.push(t("v"));
    d.push(t("r"));
    d.extend(run(rng, n));
    d.push(t("r"));
    d.push(t("v"));
    d.push(t("r"));
    emit(out, rt, key, cap, &d);
    out.count(&format!("long-run:{}", if n >= 32 { ">=32" } else { "<32" }));
}

fn exhaustive(out: &mut Out, rt: &tokio::runtime::Runtime, key: &SigningKey, cap: usize, alphabet: &[&str], maxlen: usize) {
    for len in 1..=maxlen {
        let total = (alphabet.len() as u64).pow(len as u32);
        for code in 0..total {
            let mut c = code;
            let mut toks: Vec<String> = vec![];
            for _ in 0..len {
                toks.push(alphabet[(c % alphabet.len() as u64) as usize].to_string());
                c /= alphabet.len() as u64;
            }
            toks.push("r".into());
            emit(out, rt, key, cap, &toks);
        }
    }
}

fn main() {
    let args = Args::parse();
    let mut out = Out::new(&args.out);
    let rt = tokio::runtime::Builder::new_current_thread().enable_all().build().unwrap();
    let key = SigningKey::from_bytes(&[9u8; 32]);
    if args.mode == "replay" {
        let text = std::fs::read_to_string(args.replay.as_ref().expect("replay file")).unwrap();
        let v: hc::serde_json::Value = hc::serde_json::from_str(&text).unwrap();
        let req = v["request"].as_str().unwrap().to_string();
        let mut it = req.split_whitespace();
        let cap: usize = it.next().unwrap().parse().unwrap();
        let toks: Vec<String> = it.map(|s| s.to_string()).collect();
        emit(&mut out, &rt, &key, cap, &toks);
        out.finish("replay", false);
        return;
    }
    let mut rng = Rng::new(args.seed);
    // witnesses of DESIGN §5 first
    for (cap, line) in [(4usize, "x v r"), (4, "s v r"), (4, "w v r"), (1, "v v r"), (4, "r x r v r"), (2, "v x x v c r")] {
        let toks: Vec<String> = line.split_whitespace().map(|s| s.to_string()).collect();
        emit(&mut out, &rt, &key, cap, &toks);
    }
    if let Ok(rd) = std::fs::read_dir("/verif/corpus/C17") {
        let mut files: Vec<_> = rd.filter_map(|e| e.ok()).map(|e| e.path()).collect();
        files.sort();
        for f in files {
            if let Ok(text) = std::fs::read_to_string(&f) {
                if let Ok(v) = hc::serde_json::from_str::<hc::serde_json::Value>(&text) {
                    if let Some(req) = v["request"].as_str() {
                        let mut it = req.split_whitespace();
                        let cap: usize = it.next().unwrap().parse().unwrap();
                        let toks: Vec<String> = it.map(|s| s.to_string()).collect();
                        emit(&mut out, &rt, &key, cap, &toks);
                    }
                }
            }
        }
    }
    // exhaustive: all sequences over {valid, invalid, (lagged through a small ring), run} up to a length bound
    let (len_a, len_b, n_rand, rand_len) = match args.tier {
        Tier::Quick => (6, 5, 500, 60),
        Tier::Thorough => (9, 7, 50_000, 60),
        Tier::Search => (8, 6, 30_000, 120),
    };
    // the three item kinds of DESIGN §6 C17: valid / invalid / lagged — lag comes from the capacity-2 ring
    exhaustive(&mut out, &rt, &key, 2, &["v", "x", "r"], len_a);
    exhaustive(&mut out, &rt, &key, 8, &["v", "x", "s", "w", "r", "c"], len_b);
    exhaustive(&mut out, &rt, &key, 1, &["v", "s", "r"], len_b);
    // long runs of invalid items in front of a valid one, on the capacity the node really uses and on other rings
    let real_cap = real_capacity();
    out.extra.insert("gossip_broadcast_capacity_in_source".into(), real_cap.map(|c| c as u64).into());
    let node_cap = real_cap.unwrap_or(128).next_power_of_two();
    let boundaries: Vec<usize> = vec![1, 2, 7, 8, 9, 15, 16, 17, 31, 32, 33, 63, 64, 65, 100, 127];
    let lengths: Vec<usize> = match args.tier {
        Tier::Quick => boundaries.clone(),
        _ => (1..=127).collect(),
    };
    for n in &lengths {
        for kinds in [&["x"][..], &["s"][..], &["w"][..], &["x", "s", "w"][..]] {
            long_runs(&mut out, &rt, &key, node_cap, *n, kinds, &mut rng);
        }
        // a ring twice as large (no lag at all) and rings smaller than the run (the run itself overruns: lagged)
        long_runs(&mut out, &rt, &key, 2 * node_cap, *n, &["x", "s", "w"], &mut rng);
        long_runs(&mut out, &rt, &key, 64, *n, &["s"], &mut rng);
        if args.tier != Tier::Quick || boundaries.contains(n) {
            long_runs(&mut out, &rt, &key, 16, *n, &["x", "s"], &mut rng);
        }
    }
    // runs longer than the node's ring (everything in front of the valid message is lost to lag or invalid)
    for n in [node_cap - 1, node_cap, node_cap + 1, 2 * node_cap + 3] {
        long_runs(&mut out, &rt, &key, node_cap, n, &["x", "s", "w"], &mut rng);
    }
    if real_cap.is_none() {
        out.oracle_fail(0, "capacity-not-found", "the broadcast capacity of the gossip manager could not be read from manager.rs", "", "");
    }
    for i in 0..n_rand {
        let cap = if i % 4 == 0 { node_cap } else { *rng.pick(&[1usize, 2, 4, 8, 16, 64]) };
        let len = rng.range(1, rand_len) as usize;
        let mut toks: Vec<String> = vec![];
        let p_run = rng.range(1, 6);
        for _ in 0..len {
            if rng.chance(1, 25) {
                // a burst of invalid items
                let burst = rng.range(20, 140) as usize;
                let k = *rng.pick(&["x", "s", "w"]);
                for _ in 0..burst {
                    toks.push(if rng.chance(1, 8) { rng.pick(&["x", "s", "w"]).to_string() } else { k.to_string() });
                }
                toks.push("v".into());
                continue;
            }
            let r = rng.below(20);
            let t = if r < p_run {
                "r"
            } else if r < 11 {
                "v"
            } else if r < 14 {
                "x"
            } else if r < 17 {
                "s"
            } else if r < 19 {
                "w"
            } else if rng.chance(1, 6) {
                "c"
            } else {
                "x"
            };
            toks.push(t.into());
        }
        toks.push("r".into());
        emit(&mut out, &rt, &key, cap, &toks);
    }
    let exhaustive_note = format!(
        "exhaustive: every sequence of length <= {len_a} over {{valid, invalid, run}} on a capacity-2 ring (overrun = lagged), every sequence of length <= {len_b} over {{valid, garbage, wrong-signature, wrong-version, run, close}} on capacity 8 and over {{valid, wrong-signature, run}} on capacity 1, each followed by a run; long runs: n invalid items (garbage / wrong signature / wrong version / mixed) buffered in front of a valid one, before the first poll, between polls and twice in a row, for the boundary lengths 1..127 incl. 31/32/33/63/64/65/100/127 (thorough: every n in 1..=127) on the capacity the gossip manager really uses (read from manager.rs), on twice that, on 64 and 16 (run overruns the ring: lagged) and runs longer than the ring; random: length <= {rand_len} with bursts of 20..140 invalid items, capacities 1..64 and the node's. non-trivial = an invalid item directly before a valid one with nothing pushed afterwards before the run"
    );
    out.finish(&exhaustive_note, true);
}
