//! C06 — State-vector diff returns exactly what the remote is missing.
//! Drives the real `p2panda_core::logs::compare`, `Cursor::compare` and `Cursor::advance`.
//!
//! Request:  `cmp L <author>* R <author>*`  |  `cur C <author>* O <author>*`
//!   author token `<a>:<l>=<h>,…` (`<a>:` = empty inner map)
//! Answer:   `<diff> | <merged>` (see lean/Drv/C06.lean)
use std::collections::{BTreeMap, BTreeSet};

use hc::{Args, Out, Rng, Tier};
use p2panda_core::Cursor;
use p2panda_core::logs::{LogHeights, LogRanges, compare};
use serde::{Deserialize, Serialize};

#[derive(Clone, Copy, Debug, PartialEq, Eq, PartialOrd, Ord, Hash, Serialize, Deserialize)]
struct Au(u32);
impl p2panda_core::identity::Author for Au {}

type H = LogHeights<Au, u32>;
type D = LogRanges<Au, u32>;

fn show_nested(h: &H) -> String {
    let v: Vec<String> = h
        .iter()
        .map(|(a, logs)| {
            let l: Vec<String> = logs.iter().map(|(l, s)| format!("{l}={s}")).collect();
            format!("{}:{}", a.0, l.join(","))
        })
        .collect();
    v.join(" ")
}

fn opt(x: &Option<u32>) -> String {
    match x {
        None => "-".into(),
        Some(v) => v.to_string(),
    }
}

fn show_diff(d: &D) -> String {
    if d.is_empty() {
        return "{}".into();
    }
    let v: Vec<String> = d
        .iter()
        .map(|(a, logs)| {
            let l: Vec<String> = logs.iter().map(|(l, (f, u))| format!("{l}={}..{}", opt(f), opt(u))).collect();
            format!("{}:{}", a.0, l.join(","))
        })
        .collect();
    v.join(" ")
}

fn flat(h: &H) -> BTreeMap<(u32, u32), u32> {
    let mut m = BTreeMap::new();
    for (a, logs) in h {
        for (l, s) in logs {
            m.insert((a.0, *l), *s);
        }
    }
    m
}

fn show_flat(h: &H) -> String {
    let m = flat(h);
    if m.is_empty() {
        return "{}".into();
    }
    let v: Vec<String> = m.iter().map(|((a, l), s)| format!("{a}.{l}={s}")).collect();
    v.join(" ")
}

/// The property's own predicate, judged on the implementation's output.
/// `sender` = the side whose surplus must be reported, `receiver` = the side that is missing it.
fn oracle(prefix: &str, sender: &H, receiver: &H, d: &D, merged: &H) -> Option<(String, String)> {
    let s = flat(sender);
    let r = flat(receiver);
    let mut got: BTreeMap<(u32, u32), (Option<u32>, Option<u32>)> = BTreeMap::new();
    for (a, logs) in d {
        for (l, rg) in logs {
            got.insert((a.0, *l), *rg);
        }
    }
    let keys: BTreeSet<(u32, u32)> = s.keys().chain(r.keys()).chain(got.keys()).cloned().collect();
    for k in &keys {
        let expect = match (s.get(k), r.get(k)) {
            (Some(h), None) => Some((None, Some(*h))),
            (Some(h), Some(x)) if x < h => Some((Some(*x), Some(*h))),
            _ => None,
        };
        match (expect, got.get(k)) {
            (None, Some(g)) => {
                return Some((format!("{prefix}extra-range"), format!("log {k:?}: range {g:?} although the receiver is not behind")));
            }
            (Some(e), None) => {
                return Some((format!("{prefix}missing-range"), format!("log {k:?}: no range, expected {e:?}")));
            }
            (Some(e), Some(g)) if e.0 != g.0 => {
                return Some((format!("{prefix}wrong-from"), format!("log {k:?}: got {g:?}, expected {e:?}")));
            }
            (Some(e), Some(g)) if e.1 != g.1 => {
                return Some((format!("{prefix}wrong-until"), format!("log {k:?}: got {g:?}, expected {e:?}")));
            }
            _ => {}
        }
    }
    // merge law: pointwise maximum
    let m = flat(merged);
    for k in keys.iter().chain(m.keys()) {
        let e = match (s.get(k), r.get(k)) {
            (Some(a), Some(b)) => Some(*a.max(b)),
            (Some(a), None) | (None, Some(a)) => Some(*a),
            (None, None) => None,
        };
        if e != m.get(k).cloned() {
            return Some((format!("{prefix}merge-not-max"), format!("log {k:?}: merged {:?}, expected max {e:?}", m.get(k))));
        }
    }
    None
}

fn nontrivial(s: &H, r: &H) -> bool {
    let s = flat(s);
    let r = flat(r);
    let behind = s.iter().any(|(k, h)| r.get(k).is_some_and(|x| x < h));
    let ahead = s.iter().any(|(k, h)| r.get(k).is_some_and(|x| x >= h));
    let miss_r = s.keys().any(|k| !r.contains_key(k));
    let miss_s = r.keys().any(|k| !s.contains_key(k));
    behind && ahead && miss_r && miss_s
}

/// kind: false = `cmp` (logs::compare(a, b)), true = `cur` (Cursor::new(a).compare(b)).
fn emit(out: &mut Out, cur: bool, a: &H, b: &H) {
    let req = if cur {
        format!("cur C {} O {}", show_nested(a), show_nested(b))
    } else {
        format!("cmp L {} R {}", show_nested(a), show_nested(b))
    };
    let (a2, b2) = (a.clone(), b.clone());
    let res = hc::catch(move || {
        if cur {
            let mut c = Cursor::<Au, u32>::new("c", a2.clone());
            let d = c.compare(&b2);
            let mut until_none = false;
            for (au, logs) in &d {
                for (l, (_, u)) in logs {
                    match u {
                        Some(u) => c.advance(*au, *l, *u),
                        None => until_none = true,
                    }
                }
            }
            (d, c.state().clone(), until_none)
        } else {
            let d = compare(&a2, &b2);
            let mut c = Cursor::<Au, u32>::new("r", b2.clone());
            let mut until_none = false;
            for (au, logs) in &d {
                for (l, (_, u)) in logs {
                    match u {
                        Some(u) => c.advance(*au, *l, *u),
                        None => until_none = true,
                    }
                }
            }
            (d, c.state().clone(), until_none)
        }
    });
    let (sender, receiver) = if cur { (b, a) } else { (a, b) };
    let nt = nontrivial(sender, receiver);
    match res {
        Ok((d, merged, _)) => {
            let ans = format!("{} | {}", show_diff(&d), show_flat(&merged));
            let n = out.case(&req, &ans, nt);
            out.count(if cur { "op=Cursor::compare" } else { "op=logs::compare" });
            if d.values().any(|m| m.is_empty()) {
                out.count("diff has author with empty inner map");
            }
            if d.is_empty() {
                out.count("diff empty");
            }
            let nr: usize = d.values().map(|m| m.len()).sum();
            out.count_n("ranges", nr as u64);
            out.count_n("ranges from start", d.values().flat_map(|m| m.values()).filter(|r| r.0.is_none()).count() as u64);
            if let Some((tag, what)) = oracle(if cur { "cursor-" } else { "" }, sender, receiver, &d, &merged) {
                out.oracle_fail(n, &tag, &what, &req, &ans);
            }
        }
        Err(p) => {
            let n = out.case(&req, "PANIC", nt);
            out.oracle_fail(n, "panic", &p, &req, "PANIC");
        }
    }
}

fn parse_nested(ts: &[&str]) -> Option<H> {
    let mut h = H::new();
    for t in ts {
        let (a, rest) = t.split_once(':')?;
        let a = Au(a.parse().ok()?);
        let mut logs = BTreeMap::new();
        if !rest.is_empty() {
            for e in rest.split(',') {
                let (l, s) = e.split_once('=')?;
                logs.insert(l.parse().ok()?, s.parse().ok()?);
            }
        }
        h.insert(a, logs);
    }
    Some(h)
}

fn replay_line(out: &mut Out, req: &str) {
    let ts: Vec<&str> = req.split_whitespace().collect();
    let (cur, sep) = match ts.first() {
        Some(&"cmp") => (false, "R"),
        Some(&"cur") => (true, "O"),
        _ => {
            out.case(req, "bad-op", false);
            return;
        }
    };
    let p = ts.iter().position(|t| *t == sep);
    match p.and_then(|p| Some((parse_nested(&ts[2..p])?, parse_nested(&ts[p + 1..])?))) {
        Some((a, b)) => emit(out, cur, &a, &b),
        None => {
            out.case(req, "bad-op", false);
        }
    }
}

/// All states of one author over logs {0,1} and heights 0..nh: absent, or present with each log
/// absent or at a height (includes the present-but-empty inner map).
fn author_states(nh: u32) -> Vec<Option<BTreeMap<u32, u32>>> {
    let mut v = vec![None];
    for h0 in 0..=nh {
        for h1 in 0..=nh {
            let mut m = BTreeMap::new();
            if h0 > 0 {
                m.insert(0, h0 - 1);
            }
            if h1 > 0 {
                m.insert(1, h1 - 1);
            }
            v.push(Some(m));
        }
    }
    v
}

fn sides(nh: u32, authors: u32) -> Vec<H> {
    let st = author_states(nh);
    let mut all: Vec<H> = vec![H::new()];
    for a in 0..authors {
        let mut next = vec![];
        for h in &all {
            for s in &st {
                let mut h2 = h.clone();
                if let Some(m) = s {
                    h2.insert(Au(a), m.clone());
                }
                next.push(h2);
            }
        }
        all = next;
    }
    all
}

fn exhaustive(out: &mut Out, cur: bool, nh: u32) -> u64 {
    let s = sides(nh, 2);
    let mut n = 0;
    for a in &s {
        for b in &s {
            emit(out, cur, a, b);
            n += 1;
        }
    }
    n
}

fn rand_height(rng: &mut Rng) -> u32 {
    match rng.below(10) {
        0 => 0,
        1 => u32::MAX,
        2 => u32::MAX - rng.below(3) as u32,
        3..=6 => rng.below(6) as u32,
        _ => rng.next_u64() as u32,
    }
}

fn rand_side(rng: &mut Rng, max_auth: u64, max_logs: u64) -> H {
    let mut h = H::new();
    let na = rng.range(0, max_auth);
    for _ in 0..na {
        let a = Au(rng.below(max_auth + 3) as u32);
        let nl = rng.range(0, max_logs);
        let mut m = BTreeMap::new();
        for _ in 0..nl {
            m.insert(rng.below(max_logs + 2) as u32, rand_height(rng));
        }
        h.insert(a, m);
    }
    h
}

/// A second side derived from the first: equal authors, equal inner maps, single-height
/// perturbations, dropped / added logs and authors — the shapes the shortcuts in `compare` test.
fn derive_side(rng: &mut Rng, a: &H, max_auth: u64, max_logs: u64) -> H {
    let mut b = H::new();
    for (au, logs) in a {
        match rng.below(8) {
            0 => continue,                       // author unknown to the other side
            1 | 2 => {
                b.insert(*au, logs.clone());     // identical inner map
            }
            3 => {
                b.insert(*au, BTreeMap::new());  // known author, no logs
            }
            _ => {
                let mut m = BTreeMap::new();
                for (l, h) in logs {
                    match rng.below(7) {
                        0 => {}
                        1 => {
                            m.insert(*l, h.saturating_sub(1 + rng.below(3) as u32));
                        }
                        2 => {
                            m.insert(*l, h.saturating_add(1 + rng.below(3) as u32));
                        }
                        3 => {
                            m.insert(*l, rand_height(rng));
                        }
                        _ => {
                            m.insert(*l, *h);
                        }
                    }
                }
                if rng.chance(1, 4) {
                    m.insert(rng.below(max_logs + 2) as u32, rand_height(rng));
                }
                b.insert(*au, m);
            }
        }
    }
    let extra = rng.below(3);
    for _ in 0..extra {
        let a2 = Au(rng.below(max_auth + 3) as u32);
        if !b.contains_key(&a2) {
            let mut m = BTreeMap::new();
            for _ in 0..rng.below(max_logs + 1) {
                m.insert(rng.below(max_logs + 2) as u32, rand_height(rng));
            }
            b.insert(a2, m);
        }
    }
    b
}

fn random_case(out: &mut Out, rng: &mut Rng) {
    let (ma, ml) = if rng.chance(1, 3) { (40, 8) } else { (6, 4) };
    let a = rand_side(rng, ma, ml);
    let b = if rng.chance(3, 4) { derive_side(rng, &a, ma, ml) } else { rand_side(rng, ma, ml) };
    let cur = rng.chance(1, 3);
    if rng.chance(1, 2) { emit(out, cur, &a, &b) } else { emit(out, cur, &b, &a) }
}

/// Lines no height map can produce: the model driver must answer `bad-op`, never a default.
fn malformed(out: &mut Out) {
    for l in [
        "cmp L 1:0=1 0:0=1 R",          // authors not increasing
        "cmp L 0:1=1,0=1 R",            // logs not increasing
        "cmp L 0:0=1 0:0=2 R",          // duplicate author
        "cmp L 0:0=1,0=2 R",            // duplicate log
        "cmp L 0:0=1",                  // no remote part
        "cmp L 0:0=1 R 0:0=1 R",        // two separators
        "cmp L 0:0 R",                  // no height
        "cmp L 0:0=x R",                // not a number
        "cmp L 0 R",                    // no colon
        "cmp L 0:0=-1 R",               // negative
        "cmp 0:0=1 R",                  // no L
        "cur C 0:0=1",                  // no other part
        "cur L 0:0=1 R",                // wrong tags
        "cmp L 0:0=1=2 R",
        "cmp L 0:0=1: R",
        "diff L R",
        "",
    ] {
        out.case(l, "bad-op", false);
        out.count("malformed line");
    }
}

fn main() {
    let args = Args::parse();
    let mut out = Out::new(&args.out);
    if args.mode == "replay" {
        let text = std::fs::read_to_string(args.replay.as_ref().expect("replay file")).unwrap();
        let v: hc::serde_json::Value = hc::serde_json::from_str(&text).unwrap();
        let req = v["request"].as_str().unwrap().to_string();
        replay_line(&mut out, &req);
        out.finish("replay", false);
        return;
    }
    let mut rng = Rng::new(args.seed);
    // corpus first
    if let Ok(rd) = std::fs::read_dir("/verif/corpus/C06") {
        let mut files: Vec<_> = rd.filter_map(|e| e.ok()).map(|e| e.path()).collect();
        files.sort();
        for f in files {
            if let Ok(text) = std::fs::read_to_string(&f) {
                if let Ok(v) = hc::serde_json::from_str::<hc::serde_json::Value>(&text) {
                    if let Some(req) = v["request"].as_str() {
                        replay_line(&mut out, req);
                        out.count("corpus case");
                    }
                }
            }
        }
    }
    malformed(&mut out);
    let (nh_cmp, nh_cur, nrand) = match args.tier {
        Tier::Quick => (4, 3, 5_000),
        Tier::Thorough => (5, 4, 200_000),
        Tier::Search => (3, 3, 100_000),
    };
    let n1 = exhaustive(&mut out, false, nh_cmp);
    let n2 = exhaustive(&mut out, true, nh_cur);
    out.extra.insert("exhaustive_pairs_logs_compare".into(), n1.into());
    out.extra.insert("exhaustive_pairs_cursor_compare".into(), n2.into());
    for _ in 0..nrand {
        random_case(&mut out, &mut rng);
    }
    if args.tier == Tier::Thorough {
        // 3 authors x 2 logs x heights {absent,0,1,2}: sampled pairs
        let s3 = sides(3, 3);
        for _ in 0..400_000 {
            let a = rng.pick(&s3).clone();
            let b = rng.pick(&s3).clone();
            emit(&mut out, false, &a, &b);
        }
    }
    out.finish(
        &format!(
            "exhaustive: every pair of nested height maps over 2 authors x 2 logs, each author absent or present with each log absent or at a height in 0..{} (author with empty inner map included) through logs::compare ({} pairs), the same with heights 0..{} through Cursor::compare ({} pairs); random: up to 40 authors x 8 logs, heights incl. 0 and 2^32-1, second side derived from the first (equal inner maps, +-1..3 perturbations, dropped/added logs and authors) or independent; every diff is merged into the receiver through Cursor::advance. non-trivial = at least one log behind, one equal/ahead, and one missing on each side",
            nh_cmp - 1, n1, nh_cur - 1, n2
        ),
        true,
    );
}
