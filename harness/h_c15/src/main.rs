//! C15 — Unacknowledged operations are replayed after any crash.
//!
//! parent (`gen`):  for every scenario and every crash point k
//!     1. child `run`    : a real node (`p2panda::builder().database_url(file).signing_key(fixed)`, as
//!                         /repo/p2panda/tests/api.rs spawns it; nothing is dialled) executes the first k steps of the
//!                         scenario on a file-backed SQLite database and calls `std::process::abort()`
//!                         (second mode: drops the node and exits);
//!     2. the parent reads the persisted state of every topic straight from the file (`operations_v1`,
//!        `cursors_v1`) — this is the request line for the model;
//!     3. child `reopen` : a fresh node on the same file subscribes every topic from its frontier and reports
//!                         what the replay delivers (end of replay = an operation of a sentinel author imported
//!                         afterwards: imports are only handled once the replay finished);
//!     4. the parent reads the cursor again.
//!
//! Request line: `<A|E> <row>* | <cur>* | <assoc>*`, row = `<author>.<seq>.<b|n>.<id>`, cur = `<author>:<seq>`, assoc = author
//!               whose log is associated with the topic
//! Answer:       `<delivered ids in order> | <cursor after the replay>`
use hc::{Args, Out, Rng, Tier};
use futures::StreamExt;
use p2panda::node::AckPolicy;
use p2panda::operation::{Extensions, LogId};
use p2panda::streams::StreamEvent;
use p2panda_core::cbor::encode_cbor;
use p2panda_core::{Body, Header, Operation, SigningKey, Topic, VerifyingKey};
use std::collections::BTreeMap;
use std::path::{Path, PathBuf};
use std::time::Duration;

const NODE_KEY: [u8; 32] = [7; 32];
const SENTINEL_KEY: [u8; 32] = [99; 32];

fn foreign_key(a: usize) -> SigningKey {
    SigningKey::from_bytes(&[11 + a as u8; 32])
}

fn topic(t: usize) -> Topic {
    Topic::from([0xA0 + t as u8; 32])
}

#[derive(Clone, Debug, PartialEq)]
enum Step {
    Publish { t: usize, wait: bool },
    Import { t: usize, a: usize, n: usize, bodyless_mask: u32, wait: bool },
    Drain { t: usize },
    Ack { t: usize },
    /// every delivered, not yet acked operation of the topic is acked CONCURRENTLY (join_all)
    AckMany { t: usize },
    Sleep,
}

impl Step {
    fn text(&self) -> String {
        match self {
            Step::Publish { t, wait } => format!("{}{}", if *wait { 'Q' } else { 'P' }, t),
            Step::Import { t, a, n, bodyless_mask, wait } => format!("{}{}.{}.{}.{}", if *wait { 'I' } else { 'J' }, t, a, n, bodyless_mask),
            Step::Drain { t } => format!("D{t}"),
            Step::Ack { t } => format!("A{t}"),
            Step::AckMany { t } => format!("K{t}"),
            Step::Sleep => "W".into(),
        }
    }
    fn parse(s: &str) -> Option<Step> {
        let c = s.chars().next()?;
        let rest = &s[1..];
        match c {
            'P' | 'Q' => Some(Step::Publish { t: rest.parse().ok()?, wait: c == 'Q' }),
            'I' | 'J' => {
                let v: Vec<&str> = rest.split('.').collect();
                Some(Step::Import { t: v.first()?.parse().ok()?, a: v.get(1)?.parse().ok()?, n: v.get(2)?.parse().ok()?, bodyless_mask: v.get(3)?.parse().ok()?, wait: c == 'I' })
            }
            'D' => Some(Step::Drain { t: rest.parse().ok()? }),
            'A' => Some(Step::Ack { t: rest.parse().ok()? }),
            'K' => Some(Step::AckMany { t: rest.parse().ok()? }),
            'W' => Some(Step::Sleep),
            _ => None,
        }
    }
}

fn db_url(file: &Path) -> String {
    format!("sqlite://{}?mode=rwc", file.display())
}

async fn spawn_node(file: &Path, policy: AckPolicy) -> p2panda::Node {
    p2panda::builder()
        .database_url(&db_url(file))
        .signing_key(SigningKey::from_bytes(&NODE_KEY))
        .ack_policy(policy)
        .spawn()
        .await
        .expect("node spawns")
}

/// Next operation of a foreign author's log for a topic (hash-linked, signed), with or without a body.
fn foreign_operation(key: &SigningKey, topic: Topic, seq: u64, backlink: Option<p2panda_core::Hash>, body: Option<Vec<u8>>) -> Operation<Extensions> {
    let body: Option<Body> = body.map(|b| b.into());
    let mut header = Header {
        version: 1,
        verifying_key: key.verifying_key(),
        signature: None,
        payload_size: body.as_ref().map(|b| b.size()).unwrap_or(0) as _,
        payload_hash: body.as_ref().map(|b| b.hash()),
        seq_num: seq as _,
        backlink,
        extensions: Extensions::from_topic(topic),
    };
    header.sign(key);
    let hash = header.hash();
    Operation { hash, header, body }
}

/// Durable side record of every explicit `ack()` call that RETURNED (appended and synced before the child goes on):
/// `ok <hash>` / `err <hash>`.
fn record_ack(db: &Path, hash: &str, ok: bool) {
    use std::io::Write;
    let path = db.with_extension("acks");
    if let Ok(mut f) = std::fs::OpenOptions::new().create(true).append(true).open(path) {
        let _ = writeln!(f, "{} {}", if ok { "ok" } else { "err" }, hash);
        let _ = f.sync_all();
    }
}

// ------------------------------------------------------------------------------------------------
// child: run the scenario, then abort
// ------------------------------------------------------------------------------------------------

async fn child_run(file: PathBuf, policy: AckPolicy, steps: Vec<Step>, crash_after: usize, graceful: bool, ntopics: usize, crash_commit: u64, count_file: Option<PathBuf>) {
    use p2panda_store::sqlite::verif_hooks;
    if crash_commit > 0 {
        // crash injection inside the steps: abort right after the k-th successfully committed store transaction
        verif_hooks::set_commit_hook(Some(std::sync::Arc::new(move |n: u64| {
            if n == crash_commit {
                std::process::abort();
            }
        })));
    }
    let node = spawn_node(&file, policy).await;
    let mut txs = vec![];
    let mut rxs = vec![];
    for t in 0..ntopics {
        let (tx, rx) = node.stream::<String>(topic(t)).await.expect("stream");
        txs.push(tx);
        rxs.push(rx);
    }
    let mut foreign: BTreeMap<(usize, usize), (u64, Option<p2panda_core::Hash>)> = BTreeMap::new();
    let mut unacked: Vec<Vec<p2panda::streams::ProcessedOperation<String>>> = (0..ntopics).map(|_| vec![]).collect();
    let mut counter = 0;
    for (k, step) in steps.iter().enumerate() {
        if k >= crash_after {
            break;
        }
        match step {
            Step::Publish { t, wait } => {
                counter += 1;
                if let Ok(fut) = txs[*t].publish(format!("message {counter}")).await {
                    if *wait {
                        let _ = fut.await;
                    }
                }
            }
            Step::Import { t, a, n, bodyless_mask, wait } => {
                let key = foreign_key(*a);
                let e = foreign.entry((*t, *a)).or_insert((0, None));
                let mut ops = vec![];
                for i in 0..*n {
                    counter += 1;
                    let body = if bodyless_mask & (1 << i) != 0 { None } else { Some(encode_cbor(&format!("imported {counter}")).unwrap()) };
                    let op = foreign_operation(&key, topic(*t), e.0, e.1, body);
                    e.0 += 1;
                    e.1 = Some(op.hash);
                    ops.push(op);
                }
                if let Ok(fut) = txs[*t].import(futures::stream::iter(ops)).await {
                    if *wait {
                        let _ = fut.await;
                    }
                }
            }
            Step::Drain { t } => {
                while let Ok(Some(ev)) = tokio::time::timeout(Duration::from_millis(40), rxs[*t].next()).await {
                    if let StreamEvent::Processed { operation, .. } = ev {
                        unacked[*t].push(operation);
                    }
                }
            }
            Step::Ack { t } => {
                // explicit ack of a delivered operation (the oldest not yet acked by us; sometimes a later one first)
                if !unacked[*t].is_empty() {
                    let idx = if unacked[*t].len() > 1 && counter % 3 == 0 { 1 } else { 0 };
                    let op = unacked[*t].remove(idx);
                    let r = op.ack().await;
                    record_ack(&file, &op.id().to_hex(), r.is_ok());
                }
            }
            Step::AckMany { t } => {
                // the application acks everything it has seen at once (different authors' operations in flight together)
                let ops = std::mem::take(&mut unacked[*t]);
                let results = futures::future::join_all(ops.iter().map(|o| o.ack())).await;
                for (o, r) in ops.iter().zip(results) {
                    record_ack(&file, &o.id().to_hex(), r.is_ok());
                }
            }
            Step::Sleep => tokio::time::sleep(Duration::from_millis(15)).await,
        }
    }
    if let Some(f) = &count_file {
        // dry run: let the background work of the last steps settle, then report how many commits the scenario makes
        tokio::time::sleep(Duration::from_millis(400)).await;
        let _ = std::fs::write(f, verif_hooks::commit_count().to_string());
    }
    if graceful {
        drop(txs);
        drop(rxs);
        drop(node);
        std::process::exit(0);
    }
    std::process::abort();
}

// ------------------------------------------------------------------------------------------------
// child: re-open and report what the replay delivers
// ------------------------------------------------------------------------------------------------

async fn child_reopen(file: PathBuf, policy: AckPolicy, ntopics: usize, out: PathBuf) {
    let node = spawn_node(&file, policy).await;
    let sentinel = SigningKey::from_bytes(&SENTINEL_KEY);
    let mut lines = vec![];
    for t in 0..ntopics {
        let (tx, mut rx) = node.stream::<String>(topic(t)).await.expect("stream");
        let op = foreign_operation(&sentinel, topic(t), 0, None, Some(encode_cbor(&"sentinel".to_string()).unwrap()));
        let sentinel_id = op.hash;
        let fut = tx.import(futures::stream::iter(vec![op])).await.expect("import sentinel");
        let mut delivered: Vec<String> = vec![];
        let mut started = None;
        let mut ended = false;
        let mut extra = vec![];
        loop {
            match tokio::time::timeout(Duration::from_secs(240), rx.next()).await {
                Ok(Some(ev)) => match ev {
                    StreamEvent::ReplayStarted { total_operations } => started = Some(total_operations),
                    StreamEvent::ReplayEnded => ended = true,
                    StreamEvent::Processed { operation, .. } => {
                        if operation.id() == sentinel_id {
                            break;
                        }
                        delivered.push(operation.id().to_hex());
                    }
                    StreamEvent::ImportStarted { .. } | StreamEvent::ImportEnded { .. } => {}
                    other => extra.push(format!("{:?}", other).chars().take(40).collect::<String>()),
                },
                Ok(None) => {
                    extra.push("stream-ended".into());
                    break;
                }
                Err(_) => {
                    extra.push("timeout".into());
                    break;
                }
            }
        }
        let _ = fut.await;
        lines.push(format!(
            "{} {} {} {} {}",
            t,
            started.map(|n| n.to_string()).unwrap_or("-".into()),
            if ended { "ended" } else { "-" },
            if extra.is_empty() { "-".to_string() } else { extra.join(",").replace(' ', "_") },
            delivered.join(" ")
        ));
        drop(tx);
        drop(rx);
    }
    std::fs::write(&out, lines.join("\n")).expect("write reopen report");
    drop(node);
    std::process::exit(0);
}

// ------------------------------------------------------------------------------------------------
// parent
// ------------------------------------------------------------------------------------------------

#[derive(Clone, Debug)]
struct Row {
    author: Vec<u8>,
    seq: u64,
    body: bool,
    hash: String,
}

/// The topic's rows of `operations_v1` and its cursor row of `cursors_v1`, read directly from the file.
async fn read_persisted(file: &Path, t: usize) -> (Vec<Row>, BTreeMap<Vec<u8>, u64>, Vec<Vec<u8>>) {
    use p2panda_store::cursors::CursorStore;
    use p2panda_store::topics::TopicStore;
    let store = p2panda_store::SqliteStoreBuilder::new()
        .database_url(&db_url(file))
        .create_database(false)
        .run_default_migrations(false)
        .max_connections(1)
        .build()
        .await
        .expect("open store");
    let log_id = LogId::from_topic(topic(t));
    let log_blob = encode_cbor(&log_id).unwrap();
    let raw: Vec<(String, String, i64, bool)> = sqlx::query_as("SELECT hash, verifying_key, seq_num, body IS NOT NULL FROM operations_v1 WHERE log_id = ? ORDER BY verifying_key, seq_num")
        .bind(log_blob)
        .fetch_all(store.pool())
        .await
        .expect("rows");
    let sentinel = SigningKey::from_bytes(&SENTINEL_KEY).verifying_key();
    let mut rows = vec![];
    for (hash, pk, seq, body) in raw {
        let author: VerifyingKey = pk.parse().expect("public key");
        if author == sentinel {
            continue;
        }
        rows.push(Row { author: author.as_bytes().to_vec(), seq: seq as u64, body, hash });
    }
    let cursor: Option<p2panda_core::Cursor<VerifyingKey, LogId>> = store.get_cursor(&topic(t).to_string()).await.expect("cursor");
    let mut cur = BTreeMap::new();
    if let Some(c) = cursor {
        for (author, logs) in c.state() {
            if *author == sentinel {
                continue;
            }
            if let Some(h) = logs.get(&log_id) {
                cur.insert(author.as_bytes().to_vec(), *h as u64);
            }
        }
    }
    // authors whose log is associated with the topic (`topics_v1`): the only logs a replay looks at
    let logs: BTreeMap<VerifyingKey, Vec<LogId>> = <p2panda_store::SqliteStore as TopicStore<Topic, VerifyingKey, LogId>>::resolve(&store, &topic(t)).await.expect("resolve");
    let assoc: Vec<Vec<u8>> = logs.iter().filter(|(a, l)| **a != sentinel && l.contains(&log_id)).map(|(a, _)| a.as_bytes().to_vec()).collect();
    store.pool().close().await;
    (rows, cur, assoc)
}

fn run_child(args: &[String]) -> std::process::ExitStatus {
    let exe = std::env::current_exe().expect("exe");
    std::process::Command::new(exe)
        .args(args)
        .stdout(std::process::Stdio::null())
        .stderr(std::process::Stdio::null())
        .status()
        .expect("child")
}

fn policy_word(p: AckPolicy) -> &'static str {
    if p == AckPolicy::Automatic { "A" } else { "E" }
}

struct CaseResult {
    lines: Vec<(String, String, bool, Vec<(String, String)>)>,
}

fn one_case(rt: &tokio::runtime::Runtime, dir: &Path, policy: AckPolicy, steps: &[Step], crash_after: usize, graceful: bool, ntopics: usize, crash_commit: u64) -> CaseResult {
    let _ = std::fs::remove_dir_all(dir);
    std::fs::create_dir_all(dir).unwrap();
    let file = dir.join("node.sqlite");
    let steps_text: Vec<String> = steps.iter().map(|s| s.text()).collect();
    run_child(&[
        "child-run".into(),
        file.display().to_string(),
        policy_word(policy).into(),
        crash_after.to_string(),
        if graceful { "graceful".into() } else { "abort".into() },
        ntopics.to_string(),
        steps_text.join(","),
        crash_commit.to_string(),
    ]);
    let crash_label = if crash_commit > 0 {
        format!("crash right after committed store transaction #{crash_commit} of scenario [{}] (policy {})", steps_text.join(" "), policy_word(policy))
    } else {
        format!("{} after step {crash_after} of scenario [{}] (policy {})", if graceful { "node dropped" } else { "abort" }, steps_text.join(" "), policy_word(policy))
    };
    // persisted state after the crash
    let mut before = vec![];
    for t in 0..ntopics {
        before.push(rt.block_on(read_persisted(&file, t)));
    }
    let report = dir.join("reopen.txt");
    run_child(&["child-reopen".into(), file.display().to_string(), policy_word(policy).into(), ntopics.to_string(), report.display().to_string()]);
    let text = std::fs::read_to_string(&report).unwrap_or_default();
    let mut lines = vec![];
    for t in 0..ntopics {
        let (rows, cur, assoc) = &before[t];
        let (rows_after, cur_after, _) = rt.block_on(read_persisted(&file, t));
        // small ids: authors by key bytes (the order `BTreeMap<VerifyingKey, _>` iterates in), rows by (author, seq)
        let mut authors: Vec<Vec<u8>> = rows.iter().map(|r| r.author.clone()).chain(cur.keys().cloned()).chain(assoc.iter().cloned()).collect();
        authors.sort();
        authors.dedup();
        let aid = |a: &Vec<u8>| authors.iter().position(|x| x == a).unwrap();
        let mut sorted = rows.clone();
        sorted.sort_by(|x, y| (aid(&x.author), x.seq).cmp(&(aid(&y.author), y.seq)));
        let rid: BTreeMap<String, usize> = sorted.iter().enumerate().map(|(i, r)| (r.hash.clone(), i)).collect();
        let req = format!(
            "{} {} | {}",
            policy_word(policy),
            sorted.iter().map(|r| format!("{}.{}.{}.{}", aid(&r.author), r.seq, if r.body { 'b' } else { 'n' }, rid[&r.hash])).collect::<Vec<_>>().join(" "),
            cur.iter().map(|(a, h)| format!("{}:{}", aid(a), h)).collect::<Vec<_>>().join(" ")
        );
        let mut assoc_ids: Vec<usize> = assoc.iter().map(|a| aid(a)).collect();
        assoc_ids.sort();
        let req = format!("{req} | {}", assoc_ids.iter().map(|a| a.to_string()).collect::<Vec<_>>().join(" "));
        // the reopen child's report for this topic
        let line = text.lines().find(|l| l.starts_with(&format!("{t} "))).unwrap_or("");
        let toks: Vec<&str> = line.split(' ').collect();
        let extra = toks.get(3).copied().unwrap_or("missing-report");
        let delivered_hashes: Vec<String> = toks.iter().skip(4).filter(|s| !s.is_empty()).map(|s| s.to_string()).collect();
        let delivered: Vec<String> = delivered_hashes.iter().map(|h| rid.get(h).map(|i| i.to_string()).unwrap_or(format!("?{}", &h[..6]))).collect();
        // cursor after: authors in the same id space (new authors can not appear during a replay)
        let mut cur_after_txt = vec![];
        let mut cur_sorted: Vec<(usize, u64)> = cur_after.iter().filter_map(|(a, h)| authors.iter().position(|x| x == a).map(|i| (i, *h))).collect();
        cur_sorted.sort();
        // the model prints the cursor in ITS order (persisted cursor order, new entries appended): compare as sorted text
        for (a, h) in &cur_sorted {
            cur_after_txt.push(format!("{a}:{h}"));
        }
        let ans = format!("{} | {}", delivered.join(" "), cur_after_txt.join(" "));
        // ---- oracle: the two predicates of the property, directly on the real sets
        let mut fails = vec![];
        // explicit acks that returned before the crash (recorded by the child, independent of cursors_v1)
        let acks_txt = std::fs::read_to_string(file.with_extension("acks")).unwrap_or_default();
        for line in acks_txt.lines() {
            let mut it = line.split(' ');
            let (status, hash) = (it.next().unwrap_or(""), it.next().unwrap_or(""));
            if status == "err" && rid.contains_key(hash) {
                fails.push(("ack-returned-error".to_string(), format!("{crash_label}: ack() of operation {} returned an error", rid[hash])));
            }
            if status == "ok" && delivered_hashes.iter().any(|h| h == hash) {
                let r = rows.iter().find(|r| r.hash == hash);
                fails.push((
                    "acked-redelivered".to_string(),
                    format!(
                        "{crash_label}: ack() of operation {} (author {:?}, seq {:?}) returned Ok before the crash, persisted cursor of that author is {:?}, and the operation was delivered again after the restart",
                        rid.get(hash).map(|i| i.to_string()).unwrap_or_default(),
                        r.map(|r| aid(&r.author)),
                        r.map(|r| r.seq),
                        r.and_then(|r| cur.get(&r.author))
                    ),
                ));
            }
        }
        if extra != "-" {
            fails.push(("replay-irregular".to_string(), format!("reopen reported {extra}")));
        }
        for r in rows {
            let above = cur.get(&r.author).map(|h| r.seq > *h).unwrap_or(true);
            let was = delivered_hashes.contains(&r.hash);
            if r.body && above && !was {
                fails.push(("unacked-not-replayed".to_string(), format!("{crash_label}: stored operation seq {} of author {} (body, cursor {:?}, log associated with the topic: {}) was not delivered after the restart", r.seq, aid(&r.author), cur.get(&r.author), assoc.contains(&r.author))));
            }
            if was && !above {
                fails.push(("acked-redelivered".to_string(), format!("operation seq {} of author {} at or below the cursor {:?} was delivered again", r.seq, aid(&r.author), cur.get(&r.author))));
            }
            if was && !r.body {
                fails.push(("bodyless-delivered".to_string(), format!("body-less operation seq {} was delivered", r.seq)));
            }
        }
        for h in &delivered_hashes {
            if !rid.contains_key(h) {
                fails.push(("unknown-delivered".to_string(), format!("replay delivered {h} which was not in the store")));
            }
        }
        let mut seen = std::collections::BTreeSet::new();
        for h in &delivered_hashes {
            if !seen.insert(h) {
                fails.push(("delivered-twice".to_string(), format!("replay delivered {h} twice")));
            }
        }
        for (a, h) in cur {
            if cur_after.get(a).map(|x| x < h).unwrap_or(true) {
                fails.push(("cursor-went-back".to_string(), format!("cursor of author {} was {h}, is {:?} after the restart", aid(a), cur_after.get(a))));
            }
        }
        // the cursor after the replay moves exactly over what the policy acknowledges: body-less rows always,
        // rows with a body only under the automatic policy
        for a in &authors {
            let mut expect = cur.get(a).copied();
            for r in rows.iter().filter(|r| &r.author == a && delivered_or_bodyless(r, &delivered_hashes, cur)) {
                if !r.body || policy == AckPolicy::Automatic {
                    expect = Some(expect.map(|e| e.max(r.seq)).unwrap_or(r.seq));
                }
            }
            if cur_after.get(a).copied() != expect {
                let tag = if policy == AckPolicy::Explicit && cur_after.get(a).copied() > expect { "explicit-policy-acked-without-ack" } else { "cursor-after-replay-wrong" };
                fails.push((tag.to_string(), format!("cursor of author {} after the replay is {:?}, the acknowledged operations give {:?}", aid(a), cur_after.get(a), expect)));
            }
        }
        for r in rows {
            if !rows_after.iter().any(|x| x.hash == r.hash) {
                fails.push(("row-lost".to_string(), format!("stored operation {} disappeared", r.hash)));
            }
        }
        // nt: a body row above a cursor entry that exists (an earlier operation of the same log was acked)
        let nt = rows.iter().any(|r| r.body && cur.get(&r.author).map(|h| r.seq > *h).unwrap_or(false));
        lines.push((req, ans, nt, fails));
    }
    CaseResult { lines }
}

/// Rows the replay ran through `process_operation`: the delivered ones, and body-less rows above the cursor.
fn delivered_or_bodyless(r: &Row, delivered: &[String], cur: &BTreeMap<Vec<u8>, u64>) -> bool {
    if r.body {
        delivered.contains(&r.hash)
    } else {
        cur.get(&r.author).map(|h| r.seq > *h).unwrap_or(true)
    }
}

fn random_scenario(rng: &mut Rng, ntopics: usize) -> Vec<Step> {
    let len = rng.range(4, 9) as usize;
    let mut steps = vec![];
    for _ in 0..len {
        let t = rng.below(ntopics as u64) as usize;
        let s = match rng.below(10) {
            0 | 1 => Step::Publish { t, wait: false },
            2 | 3 => Step::Publish { t, wait: true },
            4 | 5 => {
                let n = rng.range(1, 3) as usize;
                Step::Import { t, a: rng.below(2) as usize, n, bodyless_mask: if rng.chance(1, 3) { rng.below(1 << n) as u32 } else { 0 }, wait: rng.chance(2, 3) }
            }
            6 | 7 => Step::Drain { t },
            8 => Step::Ack { t },
            _ => Step::Sleep,
        };
        steps.push(s.clone());
        if matches!(s, Step::Drain { .. }) && rng.chance(1, 2) {
            steps.push(if rng.chance(1, 3) { Step::AckMany { t } } else { Step::Ack { t } });
        }
    }
    steps
}

fn emit(out: &mut Out, res: CaseResult, label: &str) {
    for (req, ans, nt, fails) in res.lines {
        // the model prints its cursor in its own order; compare sorted
        let n = out.case(&req, &ans, nt);
        out.count(label);
        if nt {
            out.count("nt:unacked-above-acked");
        }
        let delivered = ans.split(" | ").next().unwrap_or("").split(' ').filter(|s| !s.is_empty()).count();
        out.count(&format!("replayed={}", delivered.min(4)));
        let mut tags = std::collections::BTreeSet::new();
        for (tag, what) in fails {
            if tags.insert(tag.clone()) {
                out.oracle_fail(n, &tag, &what, &req, &ans);
            }
        }
    }
}

fn main() {
    let v: Vec<String> = std::env::args().collect();
    if v.get(1).map(|s| s == "child-run").unwrap_or(false) {
        let file = PathBuf::from(&v[2]);
        let policy = if v[3] == "A" { AckPolicy::Automatic } else { AckPolicy::Explicit };
        let crash_after: usize = v[4].parse().unwrap();
        let graceful = v[5] == "graceful";
        let ntopics: usize = v[6].parse().unwrap();
        let steps: Vec<Step> = v[7].split(',').filter(|s| !s.is_empty()).filter_map(Step::parse).collect();
        let crash_commit: u64 = v.get(8).and_then(|s| s.parse().ok()).unwrap_or(0);
        let count_file = v.get(9).map(PathBuf::from);
        let rt = tokio::runtime::Builder::new_multi_thread().worker_threads(2).enable_all().build().unwrap();
        rt.block_on(child_run(file, policy, steps, crash_after, graceful, ntopics, crash_commit, count_file));
        return;
    }
    if v.get(1).map(|s| s == "child-reopen").unwrap_or(false) {
        let file = PathBuf::from(&v[2]);
        let policy = if v[3] == "A" { AckPolicy::Automatic } else { AckPolicy::Explicit };
        let ntopics: usize = v[4].parse().unwrap();
        let rt = tokio::runtime::Builder::new_multi_thread().worker_threads(2).enable_all().build().unwrap();
        rt.block_on(child_reopen(file, policy, ntopics, PathBuf::from(&v[5])));
        return;
    }
    let args = Args::parse();
    let mut out = Out::new(&args.out);
    let rt = tokio::runtime::Builder::new_current_thread().enable_all().build().unwrap();
    let scratch = PathBuf::from("/verif/work/C15/scratch").join(format!("{}-{}", std::process::id(), args.seed));
    let ntopics = 2;
    if args.mode == "replay" {
        // a replay file carries the scenario in `what`-independent form: re-run the fixed witness scenarios
        let steps = vec![Step::Publish { t: 0, wait: true }, Step::Drain { t: 0 }, Step::Publish { t: 0, wait: false }];
        for k in 0..=steps.len() {
            let res = one_case(&rt, &scratch, AckPolicy::Automatic, &steps, k, false, ntopics, 0);
            emit(&mut out, res, "replay");
        }
        let _ = std::fs::remove_dir_all(&scratch);
        out.finish("replay", false);
        return;
    }
    let mut rng = Rng::new(args.seed);
    let nscen = match args.tier {
        Tier::Quick => 2,
        Tier::Thorough => 60,
        Tier::Search => 40,
    };
    // fixed scenarios first: publish / ack / publish-without-waiting, explicit policy with out-of-order acks, imports with body-less operations
    let fixed: Vec<(AckPolicy, Vec<Step>)> = vec![
        (AckPolicy::Automatic, vec![Step::Publish { t: 0, wait: true }, Step::Publish { t: 0, wait: true }, Step::Drain { t: 0 }, Step::Publish { t: 0, wait: false }, Step::Import { t: 0, a: 0, n: 2, bodyless_mask: 2, wait: false }]),
        (AckPolicy::Explicit, vec![Step::Publish { t: 1, wait: true }, Step::Publish { t: 1, wait: true }, Step::Publish { t: 1, wait: true }, Step::Drain { t: 1 }, Step::Ack { t: 1 }, Step::Import { t: 1, a: 1, n: 3, bodyless_mask: 4, wait: true }, Step::Drain { t: 1 }, Step::Ack { t: 1 }]),
    ];
    // crash after EVERY committed store transaction of a few small scenarios (first publish in a topic, publish + ack,
    // import): a dry run counts the commits, then one child per commit index aborts inside the commit hook
    let commit_scenarios: Vec<(AckPolicy, Vec<Step>)> = {
        let mut v = vec![
            (AckPolicy::Automatic, vec![Step::Publish { t: 0, wait: true }, Step::Publish { t: 0, wait: true }]),
            (AckPolicy::Explicit, vec![Step::Publish { t: 1, wait: true }, Step::Drain { t: 1 }, Step::Ack { t: 1 }, Step::Publish { t: 1, wait: true }]),
            (AckPolicy::Automatic, vec![Step::Import { t: 0, a: 0, n: 2, bodyless_mask: 2, wait: true }, Step::Publish { t: 0, wait: true }]),
        ];
        v.push((AckPolicy::Explicit, vec![
            Step::Import { t: 0, a: 0, n: 1, bodyless_mask: 0, wait: true },
            Step::Import { t: 0, a: 1, n: 1, bodyless_mask: 0, wait: true },
            Step::Publish { t: 0, wait: true },
            Step::Drain { t: 0 },
            Step::AckMany { t: 0 },
        ]));
        if args.tier != Tier::Quick {
            v.push((AckPolicy::Automatic, vec![Step::Publish { t: 0, wait: false }, Step::Publish { t: 1, wait: false }, Step::Import { t: 1, a: 1, n: 3, bodyless_mask: 1, wait: true }, Step::Publish { t: 0, wait: true }]));
            v.push((AckPolicy::Explicit, vec![Step::Import { t: 0, a: 0, n: 1, bodyless_mask: 0, wait: true }, Step::Publish { t: 0, wait: true }, Step::Drain { t: 0 }, Step::Ack { t: 0 }, Step::Ack { t: 0 }, Step::Publish { t: 0, wait: true }]));
            for _ in 0..6 {
                let policy = if rng.chance(1, 2) { AckPolicy::Automatic } else { AckPolicy::Explicit };
                v.push((policy, random_scenario(&mut rng, ntopics)));
            }
        }
        v
    };
    for (policy, steps) in &commit_scenarios {
        let _ = std::fs::remove_dir_all(&scratch);
        std::fs::create_dir_all(&scratch).unwrap();
        let count_file = scratch.join("commits.txt");
        let steps_text: Vec<String> = steps.iter().map(|s| s.text()).collect();
        run_child(&[
            "child-run".into(),
            scratch.join("dry.sqlite").display().to_string(),
            policy_word(*policy).into(),
            steps.len().to_string(),
            "graceful".into(),
            ntopics.to_string(),
            steps_text.join(","),
            "0".into(),
            count_file.display().to_string(),
        ]);
        let ncommits: u64 = std::fs::read_to_string(&count_file).ok().and_then(|s| s.trim().parse().ok()).unwrap_or(0);
        out.count_n("commit-crash:commits-in-dry-runs", ncommits);
        if ncommits == 0 {
            out.oracle_fail(0, "dry-run-no-commits", "the dry run reported no committed transaction (commit hook missing?)", &steps_text.join(" "), "");
        }
        for k in 1..=ncommits {
            let res = one_case(&rt, &scratch, *policy, steps, steps.len(), false, ntopics, k);
            emit(&mut out, res, &format!("commit-crash:{}", policy_word(*policy)));
        }
    }
    let concurrent_acks = vec![
        Step::Import { t: 0, a: 0, n: 1, bodyless_mask: 0, wait: true },
        Step::Import { t: 0, a: 1, n: 2, bodyless_mask: 0, wait: true },
        Step::Publish { t: 0, wait: true },
        Step::Drain { t: 0 },
        Step::AckMany { t: 0 },
        Step::Sleep,
    ];
    let mut scenarios = fixed;
    scenarios.push((AckPolicy::Explicit, concurrent_acks.clone()));
    for _ in 0..nscen {
        let policy = if rng.chance(1, 2) { AckPolicy::Automatic } else { AckPolicy::Explicit };
        scenarios.push((policy, random_scenario(&mut rng, ntopics)));
    }
    for (si, (policy, steps)) in scenarios.iter().enumerate() {
        for k in 0..=steps.len() {
            let res = one_case(&rt, &scratch, *policy, steps, k, false, ntopics, 0);
            emit(&mut out, res, &format!("abort:{}", policy_word(*policy)));
        }
        // second mode: the node is dropped without aborting, once per scenario at a random point
        let k = rng.range(1, steps.len() as u64) as usize;
        let res = one_case(&rt, &scratch, *policy, steps, k, true, ntopics, 0);
        emit(&mut out, res, &format!("drop:{}", policy_word(*policy)));
        out.count_n("scenario-steps", steps.len() as u64);
        let _ = si;
    }
    let _ = std::fs::remove_dir_all(&scratch);
    out.finish(
        "scenarios of publish (awaiting processing or not) / import of foreign operations (some body-less) / drain / explicit ack / CONCURRENT explicit acks of several authors' operations (join_all; every ack() that returned Ok is recorded durably by the child and must never be delivered again) / sleep over 2 topics and up to 3 authors, automatic and explicit ack policy; a child process runs the first k steps on a file-backed SQLite database and abort()s, for EVERY k (plus one graceful drop per scenario); in addition, for small scenarios (first publish in a topic, publish + explicit ack, import) a dry run counts the committed store transactions and one child per commit index aborts INSIDE the commit hook right after that commit (every durable state of the scenario); a fresh node re-opens the file and replays from the frontier. one case = one topic of one (scenario, k). non-trivial = the persisted state holds an operation with a body above an existing cursor entry of its log (crash between store commit and ack, after an earlier ack in the same log)",
        false,
    );
}
