//! C24 — De-duplication buffer remembers exactly the last `capacity` items.
//! Drives the real `p2panda_sync::DeduplicationBuffer` (re-exported through the verif hook).
//!
//! Request line: `<cap> <op>*`, op = `i<n>` insert / `c<n>` contains; answer: `t`/`f` per op.
use hc::{Args, Out, Rng, Tier};
use p2panda_sync::DeduplicationBuffer;
use std::collections::VecDeque;

/// Runs one case on the implementation; returns (answers, nontrivial, oracle failure).
fn run_case(cap: usize, ops: &[(bool, u32)]) -> (Vec<bool>, bool, Option<String>) {
    let mut d: DeduplicationBuffer<u32> = DeduplicationBuffer::new(cap);
    // Oracle (independent of the Lean model): the accepted subsequence, judged on the
    // implementation's own answers; an insert must be refused iff the item is among the last
    // `cap` accepted ones, `contains` must say the same.
    let mut acc: Vec<u32> = vec![];
    let mut evicted: Vec<u32> = vec![];
    let mut nt = false;
    let mut fail = None;
    let mut answers = vec![];
    for (k, (is_ins, x)) in ops.iter().enumerate() {
        let lo = acc.len().saturating_sub(cap);
        let in_window = acc[lo..].contains(x);
        if *is_ins {
            let r = d.insert(*x);
            if r == in_window && fail.is_none() {
                fail = Some(format!("op {k}: insert({x}) returned {r} but window membership is {in_window}"));
            }
            if r {
                if evicted.contains(x) {
                    nt = true;
                }
                acc.push(*x);
                if acc.len() > cap {
                    evicted.push(acc[acc.len() - cap - 1]);
                }
            }
            answers.push(r);
        } else {
            let r = d.contains(x);
            if r != in_window && fail.is_none() {
                fail = Some(format!("op {k}: contains({x}) = {r} but window membership is {in_window}"));
            }
            answers.push(r);
        }
    }
    (answers, nt, fail)
}

fn emit(out: &mut Out, cap: usize, ops: &[(bool, u32)]) {
    let mut req = format!("{cap}");
    for (i, x) in ops {
        req.push_str(&format!(" {}{}", if *i { 'i' } else { 'c' }, x));
    }
    let (ans, nt, fail) = run_case(cap, ops);
    let a: Vec<&str> = ans.iter().map(|b| if *b { "t" } else { "f" }).collect();
    let a = a.join(" ");
    let n = out.case(&req, &a, nt);
    out.count(&format!("cap={}", if cap <= 4 { cap.to_string() } else { ">4".into() }));
    out.count_n("inserts", ops.iter().filter(|o| o.0).count() as u64);
    out.count_n("refused", ans.iter().zip(ops).filter(|(r, o)| o.0 && !**r).count() as u64);
    if let Some(w) = fail {
        out.oracle_fail(n, "window", &w, &req, &a);
    }
}

fn exhaustive(out: &mut Out, caps: std::ops::RangeInclusive<usize>, alpha: u32, maxlen: usize) {
    for cap in caps {
        for len in 0..=maxlen {
            let total = (alpha as u64).pow(len as u32);
            for code in 0..total {
                let mut c = code;
                let mut ops: Vec<(bool, u32)> = Vec::with_capacity(len + alpha as usize);
                for _ in 0..len {
                    ops.push((true, (c % alpha as u64) as u32));
                    c /= alpha as u64;
                }
                for x in 0..alpha {
                    ops.push((false, x));
                }
                emit(out, cap, &ops);
            }
        }
    }
}

fn main() {
    let args = Args::parse();
    let mut out = Out::new(&args.out);
    if args.mode == "replay" {
        // replay file: a single request line
        let line = std::fs::read_to_string(args.replay.as_ref().expect("replay file")).unwrap();
        let v: hc::serde_json::Value = hc::serde_json::from_str(&line).unwrap();
        let req = v["request"].as_str().unwrap().to_string();
        let mut it = req.split_whitespace();
        let cap: usize = it.next().unwrap().parse().unwrap();
        let ops: Vec<(bool, u32)> = it.map(|t| (t.starts_with('i'), t[1..].parse().unwrap())).collect();
        emit(&mut out, cap, &ops);
        out.finish("replay", false);
        return;
    }
    // The one std-library fact "exactly capacity" depends on.
    let mut cap_exact = true;
    for n in 1..=70usize {
        if VecDeque::<u32>::with_capacity(n).capacity() != n {
            cap_exact = false;
        }
    }
    out.extra.insert("vecdeque_capacity_exact_1_to_70".into(), cap_exact.into());
    out.extra.insert(
        "default_capacity".into(),
        (p2panda_sync::DEFAULT_BUFFER_CAPACITY as u64).into(),
    );
    let mut rng = Rng::new(args.seed);
    match args.tier {
        Tier::Quick => {
            exhaustive(&mut out, 1..=3, 3, 7);
            exhaustive(&mut out, 1..=4, 4, 6);
        }
        _ => {
            exhaustive(&mut out, 1..=4, 3, 9);
            exhaustive(&mut out, 1..=5, 4, 7);
            exhaustive(&mut out, 1..=5, 5, 6);
        }
    }
    let nrand = match args.tier {
        Tier::Quick => 1500,
        _ => 40000,
    };
    for _ in 0..nrand {
        let cap = if rng.chance(1, 2) { rng.range(1, 6) } else { rng.range(1, 64) } as usize;
        let alpha = (cap as u64 + rng.range(0, cap as u64 + 2)) as u32 + 1;
        let len = if rng.chance(1, 20) { rng.range(500, 3000) } else { rng.range(0, 80) } as usize;
        let ops: Vec<(bool, u32)> = (0..len)
            .map(|_| (rng.chance(4, 5), rng.below(alpha as u64) as u32))
            .collect();
        emit(&mut out, cap, &ops);
    }
    if !cap_exact {
        out.oracle_fail(0, "vecdeque-capacity", "VecDeque::with_capacity(n).capacity() != n", "", "");
    }
    out.finish(
        "exhaustive: every insert sequence over the alphabet up to the length bound for each capacity, each followed by contains() of every letter; random: capacity 1..64, alphabet slightly larger than capacity, length up to 3000. non-trivial = an item evicted from the window is later accepted again",
        false,
    );
}
