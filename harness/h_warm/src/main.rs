fn main() { println!("warm"); }
