//! C39 — Spaces message processing is idempotent and total.
//!
//! Real `p2panda_spaces::Manager`s (test forge + in-memory SQLite, exactly the set-up of the crate's own
//! tests) run random spaces histories; every message is re-delivered (immediately, later, and once more at
//! the end) and adversarial messages of every `SpacesArgs` variant are thrown at prepared peers.
//!
//! Request lines (see /verif/lean/Drv/C39.lean):
//!   `H <npeers> | <token>*`
//!        `c<p>:<kind><id>[.<bundle>]`          peer p created message id (it applied it locally)
//!        `n<p>:k<id>.<author>.<bundle>`        key bundle message forged outside p's manager (not yet in its registry)
//!        `d<p>:<kind><id>[.<bundle>]:<hint>`   message delivered to peer p; hint = what the inner handler
//!                                              did: `o<k>` ok with k events, `e` error, `p` panic
//!        kind: k key bundle, a auth, m space membership, u space update, p application
//!      answer: per `d` token `o<k>` / `e` / `p`, with `=` / `~` appended (state digest same / changed) when the
//!      delivery is a re-delivery
//!   `X <kind> <class>`  one adversarial message; answer `err` / `nopanic` / `panic`
use hc::{Args, Out, Rng, Tier};
use p2panda_auth::Access;
use p2panda_auth::group::GroupMember;
use p2panda_core::{Hash, Header, SigningKey};
use p2panda_encryption::Rng as CryptoRng;
use p2panda_encryption::crypto::x25519::SecretKey;
use p2panda_encryption::key_bundle::{Lifetime, LongTermKeyBundle, PreKey};
use p2panda_spaces::test_utils::{TestOperation, TestPeer};
use p2panda_spaces::{ActorId, SpaceId, SpacesArgs};
use std::collections::{BTreeMap, BTreeSet};
use std::panic::AssertUnwindSafe;
use std::time::{SystemTime, UNIX_EPOCH};

type Args_ = SpacesArgs<()>;

fn kind_of(a: &Args_) -> char {
    match a {
        SpacesArgs::KeyBundle { .. } => 'k',
        SpacesArgs::Auth { .. } => 'a',
        SpacesArgs::SpaceMembership { .. } => 'm',
        SpacesArgs::SpaceUpdate { .. } => 'u',
        SpacesArgs::Application { .. } => 'p',
    }
}

#[derive(Clone)]
struct Msg {
    op: TestOperation,
    kind: char,
    author: usize,
    /// small id of the carried key bundle (kind k)
    bundle: Option<usize>,
}

#[derive(Clone, Debug, PartialEq)]
enum Outcome {
    Ok(usize),
    Err(String),
    Panic(String),
}

impl Outcome {
    fn word(&self) -> String {
        match self {
            Outcome::Ok(k) => format!("o{k}"),
            Outcome::Err(_) => "e".into(),
            Outcome::Panic(_) => "p".into(),
        }
    }
}

/// Raw bytes of every persisted spaces / groups / key state row of a peer.
async fn digest(peer: &TestPeer) -> Vec<u8> {
    let mut out = vec![];
    for table in ["spaces_v1", "groups_v1", "key_registry_v1", "key_secrets_v1"] {
        let rows: Vec<(String, Vec<u8>)> = sqlx::query_as(&format!("SELECT id, state FROM {table} ORDER BY id"))
            .fetch_all(peer.store.pool())
            .await
            .expect("digest query");
        out.extend_from_slice(table.as_bytes());
        for (id, state) in rows {
            out.extend_from_slice(id.as_bytes());
            out.extend_from_slice(&(state.len() as u64).to_be_bytes());
            out.extend_from_slice(&state);
        }
    }
    out
}

/// Deliver one message to a peer the way the crate's tests do: persist the operation, then `process_persisted`.
async fn deliver(peer: &TestPeer, op: &TestOperation) -> Outcome {
    let _ = peer.persist_operation(op).await;
    let fut = AssertUnwindSafe(peer.manager.process_persisted(op));
    let prev = std::panic::take_hook();
    std::panic::set_hook(Box::new(|_| {}));
    let r = futures_catch(fut).await;
    std::panic::set_hook(prev);
    match r {
        Ok(Ok(events)) => Outcome::Ok(events.len()),
        Ok(Err(e)) => Outcome::Err(format!("{e}")),
        Err(m) => Outcome::Panic(m),
    }
}

/// Run a local API call; a panic inside it is reported as `None` (local operations are not what C39 judges).
async fn guarded<T, F: std::future::Future<Output = T>>(fut: F) -> Option<T> {
    let prev = std::panic::take_hook();
    std::panic::set_hook(Box::new(|_| {}));
    let r = futures_catch(AssertUnwindSafe(fut)).await;
    std::panic::set_hook(prev);
    r.ok()
}

/// `catch_unwind` around every poll of a future.
async fn futures_catch<F: std::future::Future>(fut: AssertUnwindSafe<F>) -> Result<F::Output, String> {
    let mut fut = Box::pin(fut.0);
    std::future::poll_fn(move |cx| {
        let r = std::panic::catch_unwind(AssertUnwindSafe(|| fut.as_mut().poll(cx)));
        match r {
            Ok(std::task::Poll::Ready(v)) => std::task::Poll::Ready(Ok(v)),
            Ok(std::task::Poll::Pending) => std::task::Poll::Pending,
            Err(e) => {
                let m = if let Some(s) = e.downcast_ref::<&str>() {
                    s.to_string()
                } else if let Some(s) = e.downcast_ref::<String>() {
                    s.clone()
                } else {
                    "panic".into()
                };
                std::task::Poll::Ready(Err(m))
            }
        }
    })
    .await
}

struct World {
    peers: Vec<TestPeer>,
    ids: Vec<ActorId>,
    log: Vec<Msg>,
    cursor: Vec<usize>,
    /// per peer: message ids it processed successfully
    seen: Vec<BTreeSet<usize>>,
    /// per peer: (author, bundle) pairs in its key registry as far as the history tells
    bundles_known: Vec<BTreeSet<(usize, usize)>>,
    bundle_ids: BTreeMap<Vec<u8>, usize>,
    spaces: Vec<SpaceId>,
    groups: Vec<ActorId>,
    tokens: Vec<String>,
    answers: Vec<String>,
    fails: Vec<(String, String)>,
    redelivered_kinds: BTreeSet<char>,
    membership_changes: usize,
    rotations: usize,
    app_msgs: usize,
    stats: BTreeMap<String, u64>,
}

impl World {
    async fn new(n: usize) -> World {
        let mut peers = vec![];
        for i in 0..n {
            peers.push(TestPeer::new(i as u8).await);
        }
        let ids = peers.iter().map(|p| p.manager.id()).collect();
        World {
            peers,
            ids,
            log: vec![],
            cursor: vec![0; n],
            seen: vec![BTreeSet::new(); n],
            bundles_known: vec![BTreeSet::new(); n],
            bundle_ids: BTreeMap::new(),
            spaces: vec![],
            groups: vec![],
            tokens: vec![],
            answers: vec![],
            fails: vec![],
            redelivered_kinds: BTreeSet::new(),
            membership_changes: 0,
            rotations: 0,
            app_msgs: 0,
            stats: BTreeMap::new(),
        }
    }

    fn count(&mut self, k: &str) {
        *self.stats.entry(k.to_string()).or_insert(0) += 1;
    }

    fn bundle_id(&mut self, op: &TestOperation) -> Option<usize> {
        if let SpacesArgs::KeyBundle { key_bundle } = &op.header.extensions {
            let bytes = hc::serde_json::to_vec(key_bundle).expect("bundle json");
            let n = self.bundle_ids.len();
            Some(*self.bundle_ids.entry(bytes).or_insert(n))
        } else {
            None
        }
    }

    fn tag(&self, m: usize) -> String {
        let msg = &self.log[m];
        match msg.bundle {
            Some(b) => format!("{}{}.{}.{}", msg.kind, m, msg.author, b),
            None => format!("{}{}", msg.kind, m),
        }
    }

    /// Messages a peer created by a local operation (already applied to its own state).
    fn created(&mut self, author: usize, ops: Vec<TestOperation>) {
        self.created_with(author, ops, true)
    }

    /// `self_known = false`: a key bundle message forged outside the author's manager (its own registry does not
    /// hold the bundle yet).
    fn created_with(&mut self, author: usize, ops: Vec<TestOperation>, self_known: bool) {
        for op in ops {
            let kind = kind_of(&op.header.extensions);
            let bundle = self.bundle_id(&op);
            let m = self.log.len();
            self.log.push(Msg { op, kind, author, bundle });
            // NB: creating a message is not "processing" it: the author's first `process` of its own message
            // counts as a first delivery (only its key registry already holds its own bundle).
            if let (Some(b), true) = (bundle, self_known) {
                self.bundles_known[author].insert((author, b));
            }
            self.tokens.push(format!("{}{}:{}", if self_known { 'c' } else { 'n' }, author, self.tag(m)));
            self.count(&format!("created:{kind}"));
        }
    }

    fn is_redelivery(&self, p: usize, m: usize) -> bool {
        if self.seen[p].contains(&m) {
            return true;
        }
        let msg = &self.log[m];
        match msg.bundle {
            Some(b) => self.bundles_known[p].contains(&(msg.author, b)),
            None => false,
        }
    }

    async fn deliver(&mut self, p: usize, m: usize) {
        let re = self.is_redelivery(p, m);
        let before = if re { Some(digest(&self.peers[p]).await) } else { None };
        let op = self.log[m].op.clone();
        let out = deliver(&self.peers[p], &op).await;
        let mut word = out.word();
        let kind = self.log[m].kind;
        if let Some(before) = before {
            let after = digest(&self.peers[p]).await;
            let same = before == after;
            word.push(if same { '=' } else { '~' });
            self.redelivered_kinds.insert(kind);
            self.count(&format!("redelivered:{kind}"));
            // Oracle, idempotence half: a second processing emits nothing and changes nothing.
            let bad = match &out {
                Outcome::Ok(0) if same => None,
                Outcome::Ok(0) => Some(("state-changed", "state digest changed".to_string())),
                Outcome::Ok(k) => Some(("reemits", format!("{k} event(s) emitted again"))),
                Outcome::Err(e) => Some(("errors", format!("returned an error: {e}"))),
                Outcome::Panic(e) => Some(("panics", format!("panicked: {e}"))),
            };
            if let Some((what, detail)) = bad {
                let kname = kind_name(kind);
                self.fails.push((
                    format!("redelivery-{kname}-{what}"),
                    format!("re-processing {kname} message {} on peer {p}: {detail}", self.tag(m)),
                ));
            }
        } else {
            self.count(&format!("first:{kind}:{}", out.word().chars().next().unwrap()));
            if let Outcome::Panic(e) = &out {
                self.fails.push((format!("panic-{}-{}", kind_name(kind), slug(e)), format!("processing {} on peer {p} panicked: {e}", self.tag(m))));
            }
        }
        if let Outcome::Ok(_) = out {
            self.seen[p].insert(m);
            if let Some(b) = self.log[m].bundle {
                let a = self.log[m].author;
                self.bundles_known[p].insert((a, b));
            }
        }
        self.tokens.push(format!("d{}:{}:{}", p, self.tag(m), out.word()));
        self.answers.push(word);
    }

    /// Peer p processes everything it has not seen yet, in log order, with random re-deliveries in between.
    async fn catch_up(&mut self, p: usize, rng: &mut Rng) {
        while self.cursor[p] < self.log.len() {
            let m = self.cursor[p];
            self.cursor[p] += 1;
            self.deliver(p, m).await;
            if rng.chance(1, 3) {
                // immediately again
                self.deliver(p, m).await;
            }
            if rng.chance(1, 3) && self.cursor[p] > 1 {
                let old = rng.below(self.cursor[p] as u64) as usize;
                self.deliver(p, old).await;
            }
        }
    }
}

/// Stable short classification of a panic message (so that a new kind of panic gets a new tag).
fn slug(msg: &str) -> String {
    let known = [
        ("not implemented", "unimplemented"),
        ("group already present in states map", "unknown-group"),
        ("all operations present in map", "auth-op-missing"),
        ("assertion `left == right` failed", "assert-eq"),
    ];
    for (pat, s) in known {
        if msg.contains(pat) {
            return s.to_string();
        }
    }
    let mut out = String::new();
    for c in msg.chars().take(40) {
        out.push(if c.is_ascii_alphanumeric() { c.to_ascii_lowercase() } else { '-' });
    }
    out
}

fn kind_name(k: char) -> &'static str {
    match k {
        'k' => "keybundle",
        'a' => "auth",
        'm' => "membership",
        'u' => "spaceupdate",
        _ => "application",
    }
}

fn random_access(rng: &mut Rng) -> Access<()> {
    match rng.below(4) {
        0 => Access::pull(),
        1 => Access::read(),
        2 => Access::write(),
        _ => Access::manage(),
    }
}

async fn history(rng: &mut Rng, n: usize, steps: usize) -> World {
    let mut w = World::new(n).await;
    // everybody publishes a key bundle first
    for p in 0..n {
        if let Ok(op) = w.peers[p].manager.key_bundle_message().await {
            w.created(p, vec![op]);
        }
    }
    for p in 0..n {
        w.catch_up(p, rng).await;
    }
    // pre-key rotations: 2-3 further REAL bundles per author — a second manager over the same store and credentials
    // whose config makes every key_bundle() call rotate (rotate window >= lifetime), with a later expiry each
    // time; every peer then knows several valid bundles of every author and the re-deliveries below hit bundles
    // that are NOT the author's latest one
    for round in 0..3u64 {
        for p in 0..n {
            if round == 2 && rng.chance(1, 2) {
                continue;
            }
            let lifetime = std::time::Duration::from_secs(60 * 60 * 24 * 90 + 3600 * (round + 1));
            let config = p2panda_spaces::Config { pre_key_lifetime: lifetime, pre_key_rotate_after: lifetime };
            let store = w.peers[p].store.clone();
            let credentials = w.peers[p].credentials.clone();
            let rotator = p2panda_spaces::test_utils::TestManager::new_with_config(
                p2panda_spaces::test_utils::TestSpacesStore::new(store.clone()),
                p2panda_spaces::test_utils::TestForge::new(store, credentials.signing_key()),
                credentials,
                &config,
                CryptoRng::from_seed([(40 + 10 * round as usize + p) as u8; 32]),
            );
            if let Ok(rotator) = rotator {
                if let Some(Ok(op)) = guarded(rotator.key_bundle_message()).await {
                    w.created(p, vec![op]);
                    w.rotations += 1;
                    w.count("op:key-bundle-rotation");
                }
            }
        }
        for q in 0..n {
            if rng.chance(3, 4) {
                w.catch_up(q, rng).await;
            }
        }
    }
    for p in 0..n {
        w.catch_up(p, rng).await;
    }
    for step in 0..steps {
        let p = rng.below(n as u64) as usize;
        let choice = if step == 0 { 0 } else { rng.below(12) };
        match choice {
            0 | 1 => {
                // create a space with a random subset of the others (and sometimes a group)
                let mut members: Vec<(ActorId, Access<()>)> = vec![];
                for q in 0..n {
                    if q != p && rng.chance(2, 3) {
                        members.push((w.ids[q], random_access(rng)));
                    }
                }
                if !w.groups.is_empty() && rng.chance(1, 3) {
                    let g = *rng.pick(&w.groups);
                    members.push((g, random_access(rng)));
                }
                let sid = SpaceId::digest(format!("space {}", w.spaces.len()).as_bytes());
                if let Some(Ok((_space, msgs))) = guarded(w.peers[p].manager.create_space_persisted(sid, &members)).await {
                    w.spaces.push(sid);
                    w.created(p, msgs);
                    w.count("op:create-space");
                } else {
                    w.count("op-failed:create-space");
                }
            }
            2 => {
                let mut members: Vec<(ActorId, Access<()>)> = vec![];
                for q in 0..n {
                    if rng.chance(1, 2) {
                        members.push((w.ids[q], random_access(rng)));
                    }
                }
                if let Some(Ok((group, msg))) = guarded(w.peers[p].manager.create_group_persisted(&members)).await {
                    w.groups.push(group.id());
                    w.created(p, vec![msg]);
                    w.count("op:create-group");
                }
            }
            3 | 4 | 5 if !w.spaces.is_empty() => {
                let sid = *rng.pick(&w.spaces);
                let target = if !w.groups.is_empty() && rng.chance(1, 4) { *rng.pick(&w.groups) } else { w.ids[rng.below(n as u64) as usize] };
                if let Ok(Some(space)) = w.peers[p].manager.space(sid).await {
                    let acc = random_access(rng);
                    let r = if choice == 5 {
                        guarded(space.remove_persisted(target)).await
                    } else {
                        guarded(space.add_persisted(target, acc)).await
                    };
                    match r {
                        None => w.count("op-panicked:space-add/remove"),
                        Some(Ok((a, m))) => {
                            w.created(p, vec![a, m]);
                            w.membership_changes += 1;
                            w.count(if choice == 5 { "op:space-remove" } else { "op:space-add" });
                        }
                        Some(Err(_)) => w.count("op-failed:space-add/remove"),
                    }
                }
            }
            6 if !w.groups.is_empty() => {
                let g = *rng.pick(&w.groups);
                let target = w.ids[rng.below(n as u64) as usize];
                if let Ok(Some(group)) = w.peers[p].manager.group(g).await {
                    let acc = random_access(rng);
                    let r = if rng.chance(1, 3) { guarded(group.remove_persisted(target)).await } else { guarded(group.add_persisted(target, acc)).await };
                    match r {
                        None => w.count("op-panicked:group-add/remove"),
                        Some(Ok(m)) => {
                            w.created(p, vec![m]);
                            w.membership_changes += 1;
                            w.count("op:group-add/remove");
                        }
                        Some(Err(_)) => w.count("op-failed:group-add/remove"),
                    }
                }
            }
            7 | 8 | 9 if !w.spaces.is_empty() => {
                let sid = *rng.pick(&w.spaces);
                if let Ok(Some(space)) = w.peers[p].manager.space(sid).await {
                    let text = format!("hello {step}");
                    match guarded(space.publish_persisted(text.as_bytes())).await {
                        None => w.count("op-panicked:publish"),
                        Some(Ok(m)) => {
                            w.created(p, vec![m]);
                            w.app_msgs += 1;
                            w.count("op:publish");
                        }
                        Some(Err(_)) => w.count("op-failed:publish"),
                    }
                }
            }
            10 => {
                // the same bundle again in a new message (no rotation is due)
                if let Ok(op) = w.peers[p].manager.key_bundle_message().await {
                    w.created(p, vec![op]);
                    w.count("op:key-bundle-again");
                }
            }
            11 if !w.spaces.is_empty() => {
                // repair (publishes pointers to auth messages a space has not seen): duplicate pointers
                let ids = w.spaces.clone();
                match guarded(w.peers[p].manager.repair_spaces_persisted(&ids)).await {
                    Some(Ok(msgs)) => {
                        if !msgs.is_empty() {
                            w.count("op:repair");
                        }
                        w.created(p, msgs);
                    }
                    Some(Err(_)) => w.count("op-failed:repair"),
                    None => w.count("op-panicked:repair"),
                }
            }
            _ => {}
        }
        for q in 0..n {
            if rng.chance(3, 4) {
                w.catch_up(q, rng).await;
            }
        }
    }
    for q in 0..n {
        w.catch_up(q, rng).await;
    }
    // every message once more to every peer, random order
    let mut all: Vec<(usize, usize)> = (0..n).flat_map(|p| (0..w.log.len()).map(move |m| (p, m))).collect();
    rng.shuffle(&mut all);
    for (p, m) in all {
        w.deliver(p, m).await;
    }
    w
}

fn emit_history(out: &mut Out, w: World) {
    let req = format!("H {} | {}", w.peers.len(), w.tokens.join(" "));
    let ans = w.answers.join(" ");
    let nt = w.membership_changes >= 1
        && w.app_msgs >= 1
        && w.redelivered_kinds.contains(&'m')
        && w.redelivered_kinds.contains(&'p');
    let n = out.case(&req, &ans, nt);
    out.count(&format!("history:peers={}", w.peers.len()));
    out.count_n("history:messages", w.log.len() as u64);
    out.count_n("history:deliveries", w.answers.len() as u64);
    for (k, v) in &w.stats {
        out.count_n(k, *v);
    }
    let mut seen_tags = BTreeSet::new();
    for (tag, what) in &w.fails {
        if seen_tags.insert(tag.clone()) {
            out.oracle_fail(n, tag, what, &req, &ans);
        }
    }
}

// ------------------------------------------------------------------------------------------------
// totality: adversarial messages
// ------------------------------------------------------------------------------------------------

fn forge(key: &SigningKey, seq: u64, args: Args_) -> TestOperation {
    let mut header = Header {
        version: 1,
        verifying_key: key.verifying_key(),
        signature: None,
        payload_size: 0,
        payload_hash: None,
        // seq 0: a header with seq > 0 and no backlink is not decodable when read back from the message store
        seq_num: { let _ = seq; 0 },
        backlink: None,
        extensions: args,
    };
    header.sign(key);
    let hash = header.hash();
    TestOperation { hash, header, body: None }
}

fn make_bundle(identity: &SecretKey, rng: &CryptoRng, not_before_off: i64, not_after_off: i64, break_sig: bool) -> LongTermKeyBundle {
    let now = SystemTime::now().duration_since(UNIX_EPOCH).unwrap().as_secs() as i64;
    let prekey_secret = SecretKey::from_rng(rng).unwrap();
    let prekey = PreKey::new(
        prekey_secret.verifying_key().unwrap(),
        Lifetime::from_range((now + not_before_off) as u64, (now + not_after_off) as u64),
    );
    let signer = if break_sig { SecretKey::from_rng(rng).unwrap() } else { identity.clone() };
    let signature = prekey.sign(&signer, rng).unwrap();
    LongTermKeyBundle::new(identity.verifying_key().unwrap(), prekey, signature)
}

struct Scene {
    w: World,
    space: SpaceId,
    auth_create: Hash,
    membership: usize,
    app: Option<usize>,
}

/// Two or three peers, one space with everybody, one application message; all delivered.
async fn scene(rng: &mut Rng) -> Scene {
    let n = 3;
    let mut w = World::new(n).await;
    for p in 0..n {
        let op = w.peers[p].manager.key_bundle_message().await.unwrap();
        w.created(p, vec![op]);
    }
    for p in 0..n {
        w.catch_up(p, rng).await;
    }
    let space = SpaceId::digest(b"scene");
    let members = vec![(w.ids[1], Access::manage()), (w.ids[2], Access::write())];
    let (_s, msgs) = w.peers[0].manager.create_space_persisted(space, &members).await.unwrap();
    let auth_create = msgs[0].hash;
    w.created(0, msgs);
    let membership = w.log.len() - 1;
    for p in 0..n {
        w.catch_up(p, rng).await;
    }
    let mut app = None;
    if let Ok(Some(s)) = w.peers[1].manager.space(space).await {
        if let Ok(m) = s.publish_persisted(b"scene message").await {
            w.created(1, vec![m]);
            app = Some(w.log.len() - 1);
        }
    }
    for p in 0..n {
        w.catch_up(p, rng).await;
    }
    Scene { w, space, auth_create, membership, app }
}

async fn adversarial(out: &mut Out, rng: &mut Rng, rounds: usize) {
    for round in 0..rounds {
        let sc = scene(rng).await;
        let w = &sc.w;
        let victim = 2usize;
        let stranger = SigningKey::from_bytes(&{
            let mut b = [0u8; 32];
            b.copy_from_slice(&rng.bytes(32));
            b
        });
        let member_key = w.peers[1].credentials.signing_key();
        let crng = CryptoRng::from_seed([100 + round as u8; 32]);
        let rand_hash = |rng: &mut Rng| Hash::digest(&rng.bytes(16));
        let mut cases: Vec<(char, String, TestOperation)> = vec![];
        let mut seq = 1000u64;
        #[allow(unused_assignments)]
        let mut add = |kind: char, class: &str, key: &SigningKey, args: Args_, cases: &mut Vec<(char, String, TestOperation)>| {
            seq += 1;
            cases.push((kind, class.to_string(), forge(key, seq, args)));
        };
        // --- SpaceUpdate: every combination of known / unknown space and group
        for (class, sid) in [("known-space", sc.space), ("unknown-space", rand_hash(rng))] {
            for key in [&stranger, &member_key] {
                add('u', class, key, SpacesArgs::SpaceUpdate { space_id: sid, group_id: w.ids[0], space_dependencies: vec![rand_hash(rng)] }, &mut cases);
                add('u', class, key, SpacesArgs::SpaceUpdate { space_id: sid, group_id: key.verifying_key(), space_dependencies: vec![] }, &mut cases);
            }
        }
        // --- Application
        let (gsid, nonce) = match sc.app.map(|m| w.log[m].op.header.extensions.clone()) {
            Some(SpacesArgs::Application { group_secret_id, nonce, .. }) => (group_secret_id, nonce),
            _ => (Default::default(), Default::default()),
        };
        for (class, sid) in [("known-space", sc.space), ("unknown-space", rand_hash(rng))] {
            for (cclass, ct) in [("empty", vec![]), ("short", rng.bytes(5)), ("random", rng.bytes(80)), ("oversized", rng.bytes(70_000))] {
                for (sclass, secret) in [("known-secret", gsid), ("unknown-secret", {
                    let mut s = gsid;
                    s[0] ^= 0xff;
                    s
                })] {
                    let key = if rng.chance(1, 2) { &stranger } else { &member_key };
                    let deps = match rng.below(3) {
                        0 => vec![],
                        1 => vec![rand_hash(rng)],
                        _ => vec![w.log[sc.membership].op.hash],
                    };
                    add('p', &format!("{class}/{cclass}/{sclass}"), key, SpacesArgs::Application { space_id: sid, space_dependencies: deps, group_secret_id: secret, nonce, ciphertext: ct.clone() }, &mut cases);
                }
            }
        }
        // --- SpaceMembership
        let app_hash = sc.app.map(|m| w.log[m].op.hash).unwrap_or(rand_hash(rng));
        for (class, sid) in [("known-space", sc.space), ("unknown-space", rand_hash(rng))] {
            for (aclass, auth_id) in [("unknown-auth", rand_hash(rng)), ("create-auth", sc.auth_create), ("non-auth-target", app_hash), ("keybundle-target", w.log[0].op.hash)] {
                let key = if rng.chance(1, 2) { &stranger } else { &member_key };
                add('m', &format!("{class}/{aclass}"), key, SpacesArgs::SpaceMembership { space_id: sid, group_id: w.ids[rng.below(3) as usize], space_dependencies: vec![rand_hash(rng)], auth_message_id: auth_id, direct_messages: vec![] }, &mut cases);
            }
        }
        // --- Auth: actions on unknown groups, by strangers, promote / demote by a real manager
        let space_group = match &w.log[sc.membership].op.header.extensions {
            SpacesArgs::SpaceMembership { group_id, .. } => *group_id,
            _ => w.ids[0],
        };
        let heads: Vec<Hash> = w.log.iter().filter(|m| m.kind == 'a').map(|m| m.op.hash).collect();
        let last_auth = heads.last().copied().into_iter().collect::<Vec<_>>();
        let ind = |i: usize| GroupMember::Individual(w.ids[i]);
        let auth_cases: Vec<(&str, &SigningKey, ActorId, p2panda_auth::group::GroupAction<ActorId, ()>, Vec<Hash>)> = vec![
            ("create/stranger", &stranger, stranger.verifying_key(), p2panda_auth::group::GroupAction::Create { initial_members: vec![(ind(2), Access::manage())] }, vec![]),
            ("create/empty", &stranger, w.ids[2], p2panda_auth::group::GroupAction::Create { initial_members: vec![] }, last_auth.clone()),
            ("create/existing-group", &member_key, space_group, p2panda_auth::group::GroupAction::Create { initial_members: vec![(ind(1), Access::manage())] }, last_auth.clone()),
            ("add/unknown-group", &member_key, stranger.verifying_key(), p2panda_auth::group::GroupAction::Add { member: ind(2), access: Access::read() }, last_auth.clone()),
            ("add/by-stranger", &stranger, space_group, p2panda_auth::group::GroupAction::Add { member: GroupMember::Individual(stranger.verifying_key()), access: Access::manage() }, last_auth.clone()),
            ("add/unknown-deps", &member_key, space_group, p2panda_auth::group::GroupAction::Add { member: ind(2), access: Access::read() }, vec![rand_hash(rng)]),
            ("add/self-group", &member_key, space_group, p2panda_auth::group::GroupAction::Add { member: GroupMember::Group(space_group), access: Access::read() }, last_auth.clone()),
            ("remove/non-member", &member_key, space_group, p2panda_auth::group::GroupAction::Remove { member: GroupMember::Individual(stranger.verifying_key()) }, last_auth.clone()),
            ("remove/by-stranger", &stranger, space_group, p2panda_auth::group::GroupAction::Remove { member: ind(0) }, last_auth.clone()),
            ("promote/by-manager", &member_key, space_group, p2panda_auth::group::GroupAction::Promote { member: ind(2), access: Access::manage() }, last_auth.clone()),
            ("demote/by-manager", &member_key, space_group, p2panda_auth::group::GroupAction::Demote { member: ind(2), access: Access::read() }, last_auth.clone()),
            ("promote/by-stranger", &stranger, space_group, p2panda_auth::group::GroupAction::Promote { member: ind(2), access: Access::manage() }, last_auth.clone()),
        ];
        for (class, key, gid, action, deps) in auth_cases {
            add('a', class, key, SpacesArgs::Auth { group_id: gid, group_action: action, auth_dependencies: deps }, &mut cases);
        }
        // --- SpaceMembership whose auth_message_id points at STORED messages of an unsupported / different kind
        {
            use p2panda_auth::group::GroupAction;
            let deps: Vec<Hash> = heads.last().copied().into_iter().collect();
            let mut pointer_targets: Vec<(String, Hash)> = vec![];
            // (a) valid Promote / Demote auth messages of a real manager, delivered first (must be an error, no panic)
            for (name, action) in [
                ("promote", GroupAction::Promote { member: GroupMember::Individual(w.ids[2]), access: Access::manage() }),
                ("demote", GroupAction::Demote { member: GroupMember::Individual(w.ids[2]), access: Access::read() }),
            ] {
                for (who, key) in [("manager1", &member_key), ("creator", &w.peers[0].credentials.signing_key())] {
                    let op = forge(key, 0, SpacesArgs::Auth { group_id: space_group, group_action: action.clone(), auth_dependencies: deps.clone() });
                    pointer_targets.push((format!("{name}-auth-by-{who}"), op.hash));
                    cases.push(('a', format!("{name}/stored-by-{who}"), op));
                }
            }
            // (b) stored non-auth messages: application, key bundle, the space's own membership message
            pointer_targets.push(("application-target".into(), app_hash));
            pointer_targets.push(("keybundle-target2".into(), w.log[1].op.hash));
            pointer_targets.push(("membership-target".into(), w.log[sc.membership].op.hash));
            // (c) unknown id
            pointer_targets.push(("unknown-target".into(), rand_hash(rng)));
            for (name, target) in pointer_targets {
                for (dclass, sdeps) in [("deps-tip", vec![w.log[sc.membership].op.hash]), ("deps-none", vec![])] {
                    let key = if name.ends_with("creator") { w.peers[0].credentials.signing_key() } else { member_key.clone() };
                    cases.push((
                        'm',
                        format!("pointer/{name}/{dclass}"),
                        forge(&key, 0, SpacesArgs::SpaceMembership { space_id: sc.space, group_id: space_group, space_dependencies: sdeps, auth_message_id: target, direct_messages: vec![] }),
                    ));
                }
            }
        }
        // --- KeyBundle
        let id1 = w.peers[1].credentials.identity_secret();
        let other_identity = SecretKey::from_rng(&crng).unwrap();
        add('k', "valid/new-prekey", &member_key, SpacesArgs::KeyBundle { key_bundle: make_bundle(&id1, &crng, -60, 3600, false) }, &mut cases);
        add('k', "expired", &member_key, SpacesArgs::KeyBundle { key_bundle: make_bundle(&id1, &crng, -7200, -3600, false) }, &mut cases);
        add('k', "not-yet-valid", &member_key, SpacesArgs::KeyBundle { key_bundle: make_bundle(&id1, &crng, 3600, 7200, false) }, &mut cases);
        add('k', "bad-signature", &member_key, SpacesArgs::KeyBundle { key_bundle: make_bundle(&id1, &crng, -60, 3600, true) }, &mut cases);
        add('k', "stranger/valid", &stranger, SpacesArgs::KeyBundle { key_bundle: make_bundle(&other_identity, &crng, -60, 3600, false) }, &mut cases);
        add('k', "changed-identity-key", &member_key, SpacesArgs::KeyBundle { key_bundle: make_bundle(&other_identity, &crng, -60, 3600, false) }, &mut cases);

        for (kind, class, op) in cases {
            let before = if class.starts_with("pointer/") { Some(digest(&w.peers[victim]).await) } else { None };
            let r = deliver(&w.peers[victim], &op).await;
            let pointer_changed = match &before { Some(b) => *b != digest(&w.peers[victim]).await, None => false };
            if std::env::var("C39_DEBUG").is_ok() { eprintln!("{kind} {class}: {:?}", r); }
            // kinds / contents the routing must reject outright: SpaceUpdate, auth Promote / Demote
            let must_reject = kind == 'u' || class.starts_with("promote") || class.starts_with("demote") || class.starts_with("pointer/promote") || class.starts_with("pointer/demote");
            let ans = match (&r, must_reject) {
                (Outcome::Panic(_), _) => "panic",
                (Outcome::Err(_), true) => "err",
                (Outcome::Ok(_), true) => "ok",
                _ => "nopanic",
            };
            let req = format!("X {kind} {class} {}", r.word().chars().next().unwrap());
            let n = out.case(&req, ans, true);
            out.count(&format!("adversarial:{}:{}", kind_name(kind), r.word()));
            if class.starts_with("pointer/") && !class.contains("membership-target") {
                // a pointer to a stored unsupported auth action, to a non-auth message or to nothing: error, nothing changes
                if matches!(r, Outcome::Ok(_)) {
                    out.oracle_fail(n, "membership-pointer-accepted", &format!("membership message pointing at {class} was accepted"), &req, ans);
                } else if pointer_changed {
                    out.oracle_fail(n, "membership-pointer-state-changed", &format!("rejected membership message ({class}) changed the persisted state"), &req, ans);
                }
            }
            if let Outcome::Panic(m) = &r {
                let short: String = m.chars().take(60).collect();
                let tag = if class.starts_with("pointer/promote") || class.starts_with("pointer/demote") {
                    "panic-membership-pointer-unsupported-auth".to_string()
                } else if class.starts_with("promote") || class.starts_with("demote") {
                    "panic-auth-promote-demote-unimplemented".to_string()
                } else if class == "changed-identity-key" {
                    "panic-keybundle-identity-key-changed".to_string()
                } else {
                    format!("panic-{}-{}", kind_name(kind), slug(m))
                };
                out.oracle_fail(n, &tag, &format!("Manager::process panicked on a remote-chosen {} message ({class}): {short}", kind_name(kind)), &req, ans);
            }
        }
    }
}

/// (seed, peers, steps) of histories that reproduce the inner-layer panics recorded as known findings.
const WITNESS_HISTORIES: &[(u64, usize, usize)] = &[(86, 2, 4), (107, 2, 9)];

fn main() {
    let args = Args::parse();
    if let Some(limit) = args.extra.get("find-witness") {
        // development aid: print the smallest histories that hit each failure tag
        let rt = tokio::runtime::Builder::new_current_thread().enable_all().build().unwrap();
        let limit: u64 = limit.parse().unwrap_or(200);
        let mut best: BTreeMap<String, (usize, u64, usize, usize)> = BTreeMap::new();
        rt.block_on(async {
            for seed in 0..limit {
                for n in 2..=4usize {
                    for steps in [4usize, 6, 9] {
                        let mut hr = Rng::new(seed);
                        let w = history(&mut hr, n, steps).await;
                        for (tag, _) in &w.fails {
                            let size = w.tokens.len();
                            let e = best.entry(tag.clone()).or_insert((usize::MAX, 0, 0, 0));
                            if size < e.0 {
                                *e = (size, seed, n, steps);
                            }
                        }
                    }
                }
            }
        });
        for (tag, (size, seed, n, steps)) in best {
            println!("{tag}: tokens={size} seed={seed} n={n} steps={steps}");
        }
        return;
    }
    let mut out = Out::new(&args.out);
    let rt = tokio::runtime::Builder::new_current_thread().enable_all().build().unwrap();
    if args.mode == "replay" {
        // Histories depend on fresh key material; a replay re-runs the generator with the recorded seed.
        let text = std::fs::read_to_string(args.replay.as_ref().expect("replay file")).unwrap();
        let v: hc::serde_json::Value = hc::serde_json::from_str(&text).unwrap();
        let req = v["request"].as_str().unwrap_or("").to_string();
        let mut rng = Rng::new(v["seed"].as_u64().unwrap_or(1));
        rt.block_on(async {
            if req.starts_with("X") {
                adversarial(&mut out, &mut rng, 1).await;
            } else {
                let n: usize = req.split_whitespace().nth(1).and_then(|t| t.parse().ok()).unwrap_or(3);
                let w = history(&mut rng, n, 10).await;
                emit_history(&mut out, w);
            }
        });
        out.finish("replay", false);
        return;
    }
    let mut rng = Rng::new(args.seed);
    let (nhist, nadv) = match args.tier {
        Tier::Quick => (40, 2),
        Tier::Thorough => (500, 12),
        Tier::Search => (150, 6),
    };
    rt.block_on(async {
        adversarial(&mut out, &mut rng, nadv).await;
        // witness histories of the known findings first (fixed seeds, found by `--find-witness`)
        for (seed, n, steps) in WITNESS_HISTORIES {
            let mut hr = Rng::new(*seed);
            let w = history(&mut hr, *n, *steps).await;
            emit_history(&mut out, w);
        }
        for k in 0..nhist {
            let n = 2 + (k % 3);
            let mut hr = rng.fork();
            let steps = hr.range(6, 14) as usize;
            let w = history(&mut hr, n, steps).await;
            emit_history(&mut out, w);
        }
    });
    out.finish(
        "histories: 2-4 real Managers (test forge, SQLite) run random create-space / create-group / add / remove / publish / key-bundle / repair operations after 2-3 pre-key rotations per author (several valid bundles per author known to every peer) with lagging peers; every message is delivered to every peer (its author included), re-delivered immediately and at random later points, and once more at the end; adversarial: every SpacesArgs variant with remote-chosen field values against a prepared peer. non-trivial history = at least one membership change and one application message, each re-delivered",
        false,
    );
}
