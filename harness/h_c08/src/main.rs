//! C08 — Log store queries agree with a reference model and never panic.
//!
//! Runs generated command sequences (inserts, deletes, payload deletions, prunes, and every query
//! of the `LogStore` trait with arbitrary arguments) against a fresh `SqliteStore::temporary()` and
//! compares every answer — errors and panics are answers too — with a plain in-memory reference
//! (oracle) and, through ./check, with the Lean reference model.
mod store_common;
use hc::{Args, Out, Rng, Tier};
use store_common::*;

fn profile(rng: &mut Rng) -> Profile {
    let long = rng.chance(1, 3);
    Profile {
        ins: 30,
        del: 4,
        delp: 5,
        getters: 4,
        prune: 8,
        latest: 10,
        heights: 12,
        size: 12,
        entries: 12,
        topics: 0,
        cursors: 0,
        blocked_per_1000: 2,
        notx_per_1000: 15,
        min_len: if long { 80 } else { 20 },
        max_len: if long { 200 } else { 80 },
    }
}

const KINDS: [&str; 8] = ["ins", "del", "delp", "prune", "latest", "heights", "size", "entries"];

fn nontrivial(cmds: &[Cmd]) -> bool {
    KINDS.iter().all(|k| cmds.iter().any(|c| c.kind() == *k || (*k == "latest" && c.kind() == "latesttx")))
        && cmds.iter().any(is_boundary)
}

/// Fixed, systematic part: one populated store, every (after, until) pair of a boundary set for
/// size and entries, heights over every sub-list shape incl. the empty one, prune at every cut.
fn systematic(w: &World) -> Vec<Vec<Cmd>> {
    let mut seqs = vec![];
    let bounds: Vec<Option<u64>> = vec![None, Some(0), Some(1), Some(2), Some(4), Some(5), Some(6), Some(SEQ_MAX - 1), Some(SEQ_MAX)];
    let _ = w;
    let base = |cmds: &mut Vec<Cmd>| {
        cmds.push(Cmd::Begin);
        let mut id = 0;
        for (a, l, seqs) in [(0usize, 0u64, vec![0u64, 1, 2, 5, SEQ_MAX]), (0, 1, vec![3]), (1, 0, vec![0, 1]), (1, 70000, vec![2, 2])] {
            for s in seqs {
                cmds.push(Cmd::Ins(InsSpec { id, a, l, s, p: (id * 7) % 23, body: id % 3 != 0 }));
                id += 1;
            }
        }
        cmds.push(Cmd::Commit);
    };
    // the witness of the pinned tree's defect: empty list, on an empty and on a populated store
    seqs.push(vec![Cmd::Heights(0, vec![])]);
    let mut c = vec![];
    base(&mut c);
    c.push(Cmd::Heights(0, vec![]));
    c.push(Cmd::Heights(0, vec![0]));
    seqs.push(c);
    for which in 0..2 {
        let mut c = vec![];
        base(&mut c);
        for af in &bounds {
            for un in &bounds {
                c.push(if which == 0 { Cmd::Size(0, 0, *af, *un) } else { Cmd::Entries(0, 0, *af, *un) });
            }
        }
        seqs.push(c);
    }
    let mut c = vec![];
    base(&mut c);
    for ls in [vec![], vec![0], vec![9], vec![0, 1], vec![1, 0], vec![0, 0], vec![9, 0, 9], vec![0, 1, 70000, u64::MAX, 9]] {
        for a in 0..4 {
            c.push(Cmd::Heights(a, ls.clone()));
        }
    }
    for a in 0..4 {
        for l in [0u64, 1, 70000, 9] {
            c.push(Cmd::Latest(a, l));
        }
    }
    seqs.push(c);
    for u in [0u64, 1, 2, 3, 5, 6, SEQ_MAX - 1, SEQ_MAX] {
        let mut c = vec![];
        base(&mut c);
        c.push(Cmd::Prune(0, 0, u));
        c.push(Cmd::Heights(0, vec![0, 1]));
        c.push(Cmd::Entries(0, 0, None, None));
        c.push(Cmd::Size(0, 0, None, None));
        c.push(Cmd::Latest(0, 0));
        c.push(Cmd::Size(1, 0, None, None));
        seqs.push(c);
    }
    seqs
}

fn main() {
    let args = Args::parse();
    install_quiet_panic_hook();
    let mut out = Out::new(&args.out);
    let rt = runtime();
    let w = World::new();
    if args.mode == "replay" {
        let text = std::fs::read_to_string(args.replay.as_ref().expect("replay file")).unwrap();
        let v: hc::serde_json::Value = hc::serde_json::from_str(&text).unwrap();
        let req = v["request"].as_str().unwrap_or("").to_string();
        match parse_line(&req) {
            Some(cmds) => {
                emit(&mut out, &rt, &w, &cmds, false, "replay");
            }
            None => {
                out.case(&req, "unparsable-replay", false);
            }
        }
        out.finish("replay", false);
        return;
    }
    // corpus first
    if let Ok(rd) = std::fs::read_dir("/verif/corpus/C08") {
        let mut files: Vec<_> = rd.filter_map(|e| e.ok()).map(|e| e.path()).collect();
        files.sort();
        for f in files {
            if let Ok(text) = std::fs::read_to_string(&f) {
                if let Ok(v) = hc::serde_json::from_str::<hc::serde_json::Value>(&text) {
                    if let Some(cmds) = v["request"].as_str().and_then(parse_line) {
                        emit(&mut out, &rt, &w, &cmds, nontrivial(&cmds), "corpus");
                    }
                }
            }
        }
    }
    for cmds in systematic(&w) {
        emit(&mut out, &rt, &w, &cmds, nontrivial(&cmds), "systematic");
    }
    let n = match args.tier {
        Tier::Quick => 300,
        Tier::Thorough => 10000,
        Tier::Search => 4000,
    };
    let mut rng = Rng::new(args.seed);
    let mut failures = 0;
    for _ in 0..n {
        let pf = profile(&mut rng);
        let cmds = gen_seq(&mut rng, &pf);
        if emit(&mut out, &rt, &w, &cmds, nontrivial(&cmds), "random") {
            failures += 1;
            if failures >= 5 {
                break; // enough concrete witnesses; keep the run short
            }
        }
    }
    out.finish(
        "case = command sequence (20-200 commands) on a fresh SqliteStore::temporary(): inserts/deletes/payload deletions/prunes over 3 authors x 4 logs (+ unknown author/log) with colliding and gapped seq_nums incl. u32::MAX, interleaved with get_latest_entry(_tx), get_log_heights (0-6 logs, duplicates, unknown), get_log_size and get_log_entries with (after, until) from {None, 0..7, 2^32-2, 2^32-1}; plus a fixed systematic block (all 81 boundary (after, until) pairs, heights list shapes incl. [], prune at every cut). non-trivial = sequence using every command kind (ins, del, delp, prune, latest, heights, size, entries) and at least one boundary argument (until = 0, after >= 2^32-2, after >= until, empty heights list, prune at 0 / 2^32-1)",
        false,
    );
}
