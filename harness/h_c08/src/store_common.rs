//! Shared by h_c08 and h_c09 (h_c09 includes this file with `#[path]`).
//!
//! One *case* = one command sequence run on a fresh `SqliteStore::temporary()`:
//!   * `Cmd`        the command language (same tokens as `lean/P2/Drv/StoreCmd.lean`)
//!   * `exec_seq`   runs the sequence on the real store, canonicalises every answer
//!   * `Shadow`     plain in-memory reference (Vec / BTreeSet / BTreeMap) = the oracle of C08/C09,
//!                  written independently of the Lean model
//!   * `gen_seq`    generator driven by a weight profile
use std::collections::{BTreeMap, BTreeSet};
use std::panic::AssertUnwindSafe;
use std::time::Duration;

use futures::FutureExt;
use hc::{Out, Rng};
use p2panda_core::cbor::encode_cbor;
use p2panda_core::{Body, Cursor, Hash, Header, Operation, SeqNum, SigningKey, VerifyingKey};
use p2panda_store::cursors::CursorStore;
use p2panda_store::logs::LogStore;
use p2panda_store::operations::OperationStore;
use p2panda_store::topics::TopicStore;
use p2panda_store::{SqliteError, SqliteStore, Transaction};

pub type Op = Operation<u64>;
pub type Log = u64;

pub const N_AUTHORS: usize = 4; // author 3 is never used for inserts by the generators ("unknown")
pub const LOGS: [u64; 5] = [0, 1, 70000, u64::MAX, 9]; // 9 = never inserted ("unknown")
pub const SEQ_MAX: u64 = u32::MAX as u64;
pub const NAMES: [&str; 6] = ["", "a", "A", "cursor-1", "ü∂ x", "a "];

#[derive(Clone, Debug, PartialEq)]
pub struct InsSpec {
    pub id: u64,
    pub a: usize,
    pub l: u64,
    pub s: u64,
    pub p: u64,
    pub body: bool,
}

#[derive(Clone, Debug, PartialEq)]
pub enum Cmd {
    Begin,
    Commit,
    Rollback,
    Drop,
    Ins(InsSpec),
    Del(u64),
    Delp(u64),
    Get(u64),
    Has(u64),
    GetTx(u64),
    HasTx(u64),
    Prune(usize, u64, u64),
    Latest(usize, u64),
    LatestTx(usize, u64),
    Heights(usize, Vec<u64>),
    Size(usize, u64, Option<u64>, Option<u64>),
    Entries(usize, u64, Option<u64>, Option<u64>),
    Assoc(u64, usize, u64),
    Unassoc(u64, usize, u64),
    Resolve(u64),
    Cset(usize, u64),
    Cget(usize),
    Cdel(usize),
}

impl Cmd {
    pub fn kind(&self) -> &'static str {
        match self {
            Cmd::Begin => "begin",
            Cmd::Commit => "commit",
            Cmd::Rollback => "rollback",
            Cmd::Drop => "drop",
            Cmd::Ins(_) => "ins",
            Cmd::Del(_) => "del",
            Cmd::Delp(_) => "delp",
            Cmd::Get(_) => "get",
            Cmd::Has(_) => "has",
            Cmd::GetTx(_) => "gettx",
            Cmd::HasTx(_) => "hastx",
            Cmd::Prune(..) => "prune",
            Cmd::Latest(..) => "latest",
            Cmd::LatestTx(..) => "latesttx",
            Cmd::Heights(..) => "heights",
            Cmd::Size(..) => "size",
            Cmd::Entries(..) => "entries",
            Cmd::Assoc(..) => "assoc",
            Cmd::Unassoc(..) => "unassoc",
            Cmd::Resolve(_) => "resolve",
            Cmd::Cset(..) => "cset",
            Cmd::Cget(_) => "cget",
            Cmd::Cdel(_) => "cdel",
        }
    }
}

fn on(x: &Option<u64>) -> String {
    match x {
        None => "-".into(),
        Some(v) => v.to_string(),
    }
}

/// The world of real keys / operations behind the small ids of the request lines.
pub struct World {
    pub keys: Vec<SigningKey>,
    pub vks: Vec<VerifyingKey>,
}

impl World {
    pub fn new() -> World {
        let keys: Vec<SigningKey> = (0..N_AUTHORS)
            .map(|i| {
                let mut b = [7u8; 32];
                b[0] = i as u8 + 1;
                b[31] = 0xA0 + i as u8;
                SigningKey::from_bytes(&b)
            })
            .collect();
        let vks = keys.iter().map(|k| k.verifying_key()).collect();
        World { keys, vks }
    }

    pub fn body_bytes(spec: &InsSpec) -> Vec<u8> {
        (0..spec.p).map(|i| (spec.id as u8).wrapping_mul(31).wrapping_add(i as u8)).collect()
    }

    /// The real, signed operation behind an `ins` command. The op id travels in the extensions so
    /// that two ops with the same (author, seq, payload) still have different hashes.
    pub fn build(&self, spec: &InsSpec) -> Op {
        let bytes = Self::body_bytes(spec);
        let body = Body::from(&bytes[..]);
        let mut header = Header::<u64> {
            version: 1,
            verifying_key: self.vks[spec.a],
            signature: None,
            payload_size: spec.p as u32,
            payload_hash: if spec.p == 0 { None } else { Some(body.hash()) },
            seq_num: spec.s as SeqNum,
            backlink: if spec.s == 0 { None } else { Some(Hash::digest(spec.id.to_be_bytes())) },
            extensions: spec.id,
        };
        header.sign(&self.keys[spec.a]);
        Operation { hash: header.hash(), header, body: if spec.body { Some(body) } else { None } }
    }

    pub fn hsize(&self, spec: &InsSpec) -> u64 {
        self.build(spec).header.to_bytes().len() as u64
    }

    pub fn cursor(&self, name: usize, v: u64) -> Cursor<VerifyingKey, Log> {
        let mut st: BTreeMap<VerifyingKey, BTreeMap<Log, SeqNum>> = BTreeMap::new();
        st.entry(self.vks[0]).or_default().insert(0, v as SeqNum);
        if v % 2 == 1 {
            st.entry(self.vks[(v % 3) as usize]).or_default().insert(v, 5);
        }
        Cursor::new(NAMES[name], st)
    }

    pub fn line(&self, cmds: &[Cmd]) -> String {
        let mut parts = vec![];
        for c in cmds {
            parts.push(match c {
                Cmd::Begin => "begin".to_string(),
                Cmd::Commit => "commit".to_string(),
                Cmd::Rollback => "rollback".to_string(),
                Cmd::Drop => "drop".to_string(),
                Cmd::Ins(s) => format!(
                    "ins {} {} {} {} {} {} {}",
                    s.id,
                    s.a,
                    s.l,
                    s.s,
                    self.hsize(s),
                    s.p,
                    if s.body { 1 } else { 0 }
                ),
                Cmd::Del(i) => format!("del {i}"),
                Cmd::Delp(i) => format!("delp {i}"),
                Cmd::Get(i) => format!("get {i}"),
                Cmd::Has(i) => format!("has {i}"),
                Cmd::GetTx(i) => format!("gettx {i}"),
                Cmd::HasTx(i) => format!("hastx {i}"),
                Cmd::Prune(a, l, u) => format!("prune {a} {l} {u}"),
                Cmd::Latest(a, l) => format!("latest {a} {l}"),
                Cmd::LatestTx(a, l) => format!("latesttx {a} {l}"),
                Cmd::Heights(a, ls) => {
                    let mut s = format!("heights {a}");
                    for l in ls {
                        s.push_str(&format!(" {l}"));
                    }
                    s
                }
                Cmd::Size(a, l, af, un) => format!("size {a} {l} {} {}", on(af), on(un)),
                Cmd::Entries(a, l, af, un) => format!("entries {a} {l} {} {}", on(af), on(un)),
                Cmd::Assoc(t, a, l) => format!("assoc {t} {a} {l}"),
                Cmd::Unassoc(t, a, l) => format!("unassoc {t} {a} {l}"),
                Cmd::Resolve(t) => format!("resolve {t}"),
                Cmd::Cset(n, v) => format!("cset {n} {v}"),
                Cmd::Cget(n) => format!("cget {n}"),
                Cmd::Cdel(n) => format!("cdel {n}"),
            });
        }
        parts.join(" ; ")
    }
}

/// Parse a request line back into commands (replay mode). `None` on anything unexpected.
pub fn parse_line(line: &str) -> Option<Vec<Cmd>> {
    let mut out = vec![];
    for part in line.split(';') {
        let t: Vec<&str> = part.split_whitespace().collect();
        if t.is_empty() {
            return None;
        }
        let n = |i: usize| -> Option<u64> { t.get(i)?.parse().ok() };
        let o = |i: usize| -> Option<Option<u64>> {
            let s = t.get(i)?;
            if *s == "-" { Some(None) } else { Some(Some(s.parse().ok()?)) }
        };
        let au = |i: usize| -> Option<usize> {
            let v = n(i)? as usize;
            if v < N_AUTHORS { Some(v) } else { None }
        };
        let nm = |i: usize| -> Option<usize> {
            let v = n(i)? as usize;
            if v < NAMES.len() { Some(v) } else { None }
        };
        let c = match t[0] {
            "begin" => Cmd::Begin,
            "commit" => Cmd::Commit,
            "rollback" => Cmd::Rollback,
            "drop" => Cmd::Drop,
            "ins" => Cmd::Ins(InsSpec { id: n(1)?, a: au(2)?, l: n(3)?, s: n(4)?, p: n(6)?, body: n(7)? == 1 }),
            "del" => Cmd::Del(n(1)?),
            "delp" => Cmd::Delp(n(1)?),
            "get" => Cmd::Get(n(1)?),
            "has" => Cmd::Has(n(1)?),
            "gettx" => Cmd::GetTx(n(1)?),
            "hastx" => Cmd::HasTx(n(1)?),
            "prune" => Cmd::Prune(au(1)?, n(2)?, n(3)?),
            "latest" => Cmd::Latest(au(1)?, n(2)?),
            "latesttx" => Cmd::LatestTx(au(1)?, n(2)?),
            "heights" => {
                let mut ls = vec![];
                for k in 2..t.len() {
                    ls.push(n(k)?);
                }
                Cmd::Heights(au(1)?, ls)
            }
            "size" => Cmd::Size(au(1)?, n(2)?, o(3)?, o(4)?),
            "entries" => Cmd::Entries(au(1)?, n(2)?, o(3)?, o(4)?),
            "assoc" => Cmd::Assoc(n(1)?, au(2)?, n(3)?),
            "unassoc" => Cmd::Unassoc(n(1)?, au(2)?, n(3)?),
            "resolve" => Cmd::Resolve(n(1)?),
            "cset" => Cmd::Cset(nm(1)?, n(2)?),
            "cget" => Cmd::Cget(nm(1)?),
            "cdel" => Cmd::Cdel(nm(1)?),
            _ => return None,
        };
        out.push(c);
    }
    Some(out)
}

// ------------------------------------------------------------------------------------------------
// Oracle: a plain in-memory reference of the three tables.
// ------------------------------------------------------------------------------------------------

#[derive(Clone, Debug)]
pub struct SRow {
    pub id: u64,
    pub a: usize,
    pub l: u64,
    pub s: u64,
    pub h: u64,
    pub p: u64,
    pub body: bool,
}

#[derive(Clone, Default, Debug)]
pub struct SDb {
    pub ops: Vec<SRow>,
    pub topics: BTreeSet<(u64, usize, u64)>,
    pub cursors: BTreeMap<usize, u64>,
}

#[derive(Default)]
pub struct Shadow {
    pub db: SDb,
    pub work: Option<SDb>,
}

fn bs(b: bool) -> &'static str {
    if b { "b" } else { "n" }
}
fn tf(b: bool) -> String {
    if b { "t".into() } else { "f".into() }
}

impl SDb {
    fn log(&self, a: usize, l: u64) -> Vec<&SRow> {
        self.ops.iter().filter(|r| r.a == a && r.l == l).collect()
    }
    fn latest(&self, a: usize, l: u64) -> String {
        let rows = self.log(a, l);
        match rows.iter().map(|r| r.s).max() {
            None => "none".into(),
            Some(m) => {
                let top: Vec<&&SRow> = rows.iter().filter(|r| r.s == m).collect();
                if top.len() > 1 { format!("{m}:tie") } else { format!("{m}:{}:{}", top[0].id, bs(top[0].body)) }
            }
        }
    }
    fn range(&self, a: usize, l: u64, af: &Option<u64>, un: &Option<u64>) -> Vec<&SRow> {
        let mut v: Vec<&SRow> = self
            .log(a, l)
            .into_iter()
            .filter(|r| match af {
                None => true,
                Some(x) => r.s > *x,
            })
            .filter(|r| match un {
                None => true,
                Some(x) => r.s <= *x,
            })
            .collect();
        v.sort_by_key(|r| (r.s, r.id));
        v
    }
    fn get(&self, id: u64) -> String {
        match self.ops.iter().find(|r| r.id == id) {
            None => "none".into(),
            Some(r) => format!("op:{}:{}", r.id, bs(r.body)),
        }
    }
}

impl Shadow {
    /// Expected canonical answer of a command (and the state change). `hsize` is looked up by the caller.
    pub fn step(&mut self, c: &Cmd, hsize: u64) -> String {
        let in_tx = self.work.is_some();
        // which connection the real method uses
        let uses_tx = matches!(
            c,
            Cmd::Ins(_) | Cmd::Del(_) | Cmd::GetTx(_) | Cmd::HasTx(_) | Cmd::LatestTx(..) | Cmd::Assoc(..) | Cmd::Unassoc(..) | Cmd::Cset(..) | Cmd::Cdel(_)
        );
        match c {
            Cmd::Begin => {
                if in_tx {
                    return "BLOCKED".into();
                }
                self.work = Some(self.db.clone());
                return "ok".into();
            }
            Cmd::Commit => {
                return match self.work.take() {
                    None => "MISUSE".into(),
                    Some(w) => {
                        self.db = w;
                        "ok".into()
                    }
                };
            }
            Cmd::Rollback | Cmd::Drop => {
                return match self.work.take() {
                    None => "MISUSE".into(),
                    Some(_) => "ok".into(),
                };
            }
            _ => {}
        }
        if let Cmd::Heights(_, ls) = c {
            if ls.is_empty() {
                return "none".into(); // no requested log: None without touching the pool
            }
        }
        let d: &mut SDb = if uses_tx {
            match self.work.as_mut() {
                None => return "E:notx".into(),
                Some(w) => w,
            }
        } else {
            if in_tx {
                return "BLOCKED".into();
            }
            &mut self.db
        };
        match c {
            Cmd::Ins(s) => {
                if d.ops.iter().any(|r| r.id == s.id) {
                    tf(false)
                } else {
                    d.ops.push(SRow { id: s.id, a: s.a, l: s.l, s: s.s, h: hsize, p: s.p, body: s.body });
                    tf(true)
                }
            }
            Cmd::Del(id) => {
                let had = d.ops.iter().any(|r| r.id == *id);
                d.ops.retain(|r| r.id != *id);
                tf(had)
            }
            Cmd::Delp(id) => {
                let mut had = false;
                for r in d.ops.iter_mut() {
                    if r.id == *id {
                        r.body = false;
                        had = true;
                    }
                }
                tf(had)
            }
            Cmd::Get(id) | Cmd::GetTx(id) => d.get(*id),
            Cmd::Has(id) | Cmd::HasTx(id) => tf(d.ops.iter().any(|r| r.id == *id)),
            Cmd::Prune(a, l, u) => {
                let before = d.ops.len();
                d.ops.retain(|r| !(r.a == *a && r.l == *l && r.s < *u));
                (before - d.ops.len()).to_string()
            }
            Cmd::Latest(a, l) | Cmd::LatestTx(a, l) => d.latest(*a, *l),
            Cmd::Heights(a, ls) => {
                let mut m: BTreeMap<u64, u64> = BTreeMap::new();
                for l in ls {
                    if let Some(h) = d.log(*a, *l).iter().map(|r| r.s).max() {
                        m.insert(*l, h);
                    }
                }
                if m.is_empty() {
                    "none".into()
                } else {
                    m.iter().map(|(l, h)| format!("{l}={h}")).collect::<Vec<_>>().join(",")
                }
            }
            Cmd::Size(a, l, af, un) => {
                let rs = d.range(*a, *l, af, un);
                format!("{}/{}", rs.len(), rs.iter().map(|r| r.h + r.p).sum::<u64>())
            }
            Cmd::Entries(a, l, af, un) => {
                let rs = d.range(*a, *l, af, un);
                if rs.is_empty() {
                    "none".into()
                } else {
                    rs.iter().map(|r| format!("{}:{}:{}", r.s, r.id, bs(r.body))).collect::<Vec<_>>().join(",")
                }
            }
            Cmd::Assoc(t, a, l) => tf(d.topics.insert((*t, *a, *l))),
            Cmd::Unassoc(t, a, l) => tf(d.topics.remove(&(*t, *a, *l))),
            Cmd::Resolve(t) => {
                let v: Vec<String> = d.topics.iter().filter(|x| x.0 == *t).map(|x| format!("{}.{}", x.1, x.2)).collect();
                if v.is_empty() { "-".into() } else { v.join(",") }
            }
            Cmd::Cset(n, v) => {
                d.cursors.insert(*n, *v);
                "ok".into()
            }
            Cmd::Cget(n) => match d.cursors.get(n) {
                None => "none".into(),
                Some(v) => v.to_string(),
            },
            Cmd::Cdel(n) => {
                d.cursors.remove(n);
                "ok".into()
            }
            Cmd::Begin | Cmd::Commit | Cmd::Rollback | Cmd::Drop => unreachable!(),
        }
    }
}

// ------------------------------------------------------------------------------------------------
// Running a sequence on the real store
// ------------------------------------------------------------------------------------------------

fn err_word(e: &SqliteError) -> String {
    match e {
        SqliteError::TransactionMissing => "E:notx".into(),
        SqliteError::Sqlite(_) => "E:sqlite".into(),
        SqliteError::Migrate(_) => "E:migrate".into(),
        SqliteError::Encode(..) => "E:encode".into(),
        SqliteError::Decode(..) => "E:decode".into(),
    }
}

/// How long a call may stay pending before the harness calls it BLOCKED (only reached by the few
/// commands the generator issues on purpose against an open transaction).
const BLOCK_MS: u64 = 60;

struct Exec<'w> {
    w: &'w World,
    store: SqliteStore,
    permit: Option<<SqliteStore as Transaction>::Permit>,
    /// every op ever inserted in this sequence, by id (to map answers back to ids)
    ops: BTreeMap<u64, Op>,
    by_hash: BTreeMap<Hash, u64>,
}


impl<'w> Exec<'w> {
    /// Canonical form of an operation read back from the store: its id and whether a body is present;
    /// `CORRUPT` if hash, header or body bytes differ from the operation that was inserted.
    fn op_word(&self, op: &Op) -> (Option<u64>, String) {
        match self.by_hash.get(&op.hash) {
            None => (None, "CORRUPT:unknown-hash".into()),
            Some(id) => {
                let orig = &self.ops[id];
                if orig.header != op.header {
                    return (Some(*id), "CORRUPT:header".into());
                }
                match (&op.body, &orig.body) {
                    (Some(b), Some(ob)) if b != ob => (Some(*id), "CORRUPT:body".into()),
                    (Some(b), None) => {
                        // the original was inserted without a body
                        let _ = b;
                        (Some(*id), "CORRUPT:body-appeared".into())
                    }
                    (b, _) => (Some(*id), format!("{}:{}", id, bs(b.is_some()))),
                }
            }
        }
    }

    async fn run(&mut self, c: &Cmd) -> String {
        let w = self.w;
        let store = self.store.clone();
        macro_rules! ls {
            ($m:ident ( $($a:expr),* )) => {
                <SqliteStore as LogStore<Op, VerifyingKey, Log, SeqNum, Hash>>::$m(&store, $($a),*).await
            };
        }
        macro_rules! os {
            ($m:ident ( $($a:expr),* )) => {
                <SqliteStore as OperationStore<Op, Hash>>::$m(&store, $($a),*).await
            };
        }
        match c {
            Cmd::Begin => match store.begin().await {
                Ok(p) => {
                    self.permit = Some(p);
                    "ok".into()
                }
                Err(e) => err_word(&e),
            },
            Cmd::Commit => match self.permit.take() {
                None => "MISUSE".into(),
                Some(p) => match store.commit(p).await {
                    Ok(()) => "ok".into(),
                    Err(e) => err_word(&e),
                },
            },
            Cmd::Rollback => match self.permit.take() {
                None => "MISUSE".into(),
                Some(p) => match store.rollback(p).await {
                    Ok(()) => "ok".into(),
                    Err(e) => err_word(&e),
                },
            },
            Cmd::Drop => match self.permit.take() {
                None => "MISUSE".into(),
                Some(p) => {
                    drop(p);
                    // barrier: the rollback runs in a spawned task; an empty transaction after it is
                    // neutral for the stores and only returns once the permit has been released.
                    match store.begin().await {
                        Ok(p2) => match store.commit(p2).await {
                            Ok(()) => "ok".into(),
                            Err(e) => err_word(&e),
                        },
                        Err(e) => err_word(&e),
                    }
                }
            },
            Cmd::Ins(s) => {
                let op = w.build(s);
                self.by_hash.entry(op.hash).or_insert(s.id);
                self.ops.entry(s.id).or_insert_with(|| op.clone());
                match os!(insert_operation(&op.hash, &op, &s.l)) {
                    Ok(b) => tf(b),
                    Err(e) => err_word(&e),
                }
            }
            Cmd::Del(id) => match os!(delete_operation(&self.hash_of(*id))) {
                Ok(b) => tf(b),
                Err(e) => err_word(&e),
            },
            Cmd::Delp(id) => match os!(delete_operation_payload(&self.hash_of(*id))) {
                Ok(b) => tf(b),
                Err(e) => err_word(&e),
            },
            Cmd::Get(id) => match os!(get_operation(&self.hash_of(*id))) {
                Ok(None) => "none".into(),
                Ok(Some(op)) => format!("op:{}", self.op_word(&op).1),
                Err(e) => err_word(&e),
            },
            Cmd::GetTx(id) => match os!(get_operation_tx(&self.hash_of(*id))) {
                Ok(None) => "none".into(),
                Ok(Some(op)) => format!("op:{}", self.op_word(&op).1),
                Err(e) => err_word(&e),
            },
            Cmd::Has(id) => match os!(has_operation(&self.hash_of(*id))) {
                Ok(b) => tf(b),
                Err(e) => err_word(&e),
            },
            Cmd::HasTx(id) => match os!(has_operation_tx(&self.hash_of(*id))) {
                Ok(b) => tf(b),
                Err(e) => err_word(&e),
            },
            Cmd::Prune(a, l, u) => match ls!(prune_entries(&w.vks[*a], l, &(*u as SeqNum))) {
                Ok(n) => n.to_string(),
                Err(e) => err_word(&e),
            },
            Cmd::Latest(a, l) => {
                let r = ls!(get_latest_entry(&w.vks[*a], l));
                self.latest_word(r, *a, *l)
            }
            Cmd::LatestTx(a, l) => {
                let r = ls!(get_latest_entry_tx(&w.vks[*a], l));
                self.latest_word(r, *a, *l)
            }
            Cmd::Heights(a, ls_) => match ls!(get_log_heights(&w.vks[*a], &ls_[..])) {
                Ok(None) => "none".into(),
                Ok(Some(m)) => m.iter().map(|(l, h)| format!("{l}={h}")).collect::<Vec<_>>().join(","),
                Err(e) => err_word(&e),
            },
            Cmd::Size(a, l, af, un) => {
                match ls!(get_log_size(&w.vks[*a], l, af.map(|x| x as SeqNum), un.map(|x| x as SeqNum))) {
                    Ok(None) => "none".into(),
                    Ok(Some((c, b))) => format!("{c}/{b}"),
                    Err(e) => err_word(&e),
                }
            }
            Cmd::Entries(a, l, af, un) => {
                match ls!(get_log_entries(&w.vks[*a], l, af.map(|x| x as SeqNum), un.map(|x| x as SeqNum))) {
                    Ok(None) => "none".into(),
                    Ok(Some(es)) => {
                        if es.is_empty() {
                            return "EMPTY-SOME".into();
                        }
                        // canonical: as returned, except that runs of equal seq_num (SQL leaves their
                        // order open) are listed by id
                        let mut items: Vec<(u64, u64, String)> = vec![];
                        for (op, hdr) in &es {
                            let (id, word) = self.op_word(op);
                            let word = match encode_cbor(&op.header) {
                                Ok(bytes) if &bytes == hdr => word,
                                _ => "CORRUPT:header-bytes".into(),
                            };
                            items.push((op.header.seq_num as u64, id.unwrap_or(u64::MAX), word));
                        }
                        let mut i = 0;
                        while i < items.len() {
                            let mut j = i;
                            while j < items.len() && items[j].0 == items[i].0 {
                                j += 1;
                            }
                            items[i..j].sort_by_key(|x| x.1);
                            i = j;
                        }
                        items.iter().map(|(s, _, wd)| format!("{s}:{wd}")).collect::<Vec<_>>().join(",")
                    }
                    Err(e) => err_word(&e),
                }
            }
            Cmd::Assoc(t, a, l) => {
                match <SqliteStore as TopicStore<u64, VerifyingKey, Log>>::associate(&store, t, &w.vks[*a], l).await {
                    Ok(b) => tf(b),
                    Err(e) => err_word(&e),
                }
            }
            Cmd::Unassoc(t, a, l) => {
                match <SqliteStore as TopicStore<u64, VerifyingKey, Log>>::remove(&store, t, &w.vks[*a], l).await {
                    Ok(b) => tf(b),
                    Err(e) => err_word(&e),
                }
            }
            Cmd::Resolve(t) => match <SqliteStore as TopicStore<u64, VerifyingKey, Log>>::resolve(&store, t).await {
                Ok(m) => {
                    let mut v: Vec<(usize, u64)> = vec![];
                    let mut dup = false;
                    for (vk, logs) in &m {
                        let a = w.vks.iter().position(|k| k == vk).unwrap_or(99);
                        if logs.is_empty() {
                            dup = true; // an author entry without logs is not what the set semantics gives
                        }
                        for l in logs {
                            if v.contains(&(a, *l)) {
                                dup = true;
                            }
                            v.push((a, *l));
                        }
                    }
                    v.sort();
                    if dup {
                        "CORRUPT:resolve-shape".into()
                    } else if v.is_empty() {
                        "-".into()
                    } else {
                        v.iter().map(|(a, l)| format!("{a}.{l}")).collect::<Vec<_>>().join(",")
                    }
                }
                Err(e) => err_word(&e),
            },
            Cmd::Cset(n, v) => {
                let cur = w.cursor(*n, *v);
                match <SqliteStore as CursorStore<VerifyingKey, Log>>::set_cursor(&store, &cur).await {
                    Ok(()) => "ok".into(),
                    Err(e) => err_word(&e),
                }
            }
            Cmd::Cget(n) => match <SqliteStore as CursorStore<VerifyingKey, Log>>::get_cursor(&store, NAMES[*n]).await {
                Ok(None) => "none".into(),
                Ok(Some(cur)) => {
                    let v = cur.log_height(&w.vks[0], &0).copied();
                    match v {
                        Some(v) if cur == w.cursor(*n, v as u64) => v.to_string(),
                        _ => "CORRUPT:cursor".into(),
                    }
                }
                Err(e) => err_word(&e),
            },
            Cmd::Cdel(n) => match <SqliteStore as CursorStore<VerifyingKey, Log>>::delete_cursor(&store, NAMES[*n]).await {
                Ok(()) => "ok".into(),
                Err(e) => err_word(&e),
            },
        }
    }

    fn hash_of(&self, id: u64) -> Hash {
        match self.ops.get(&id) {
            Some(op) => op.hash,
            None => Hash::digest(format!("never-inserted-{id}").as_bytes()),
        }
    }

    fn latest_word(&self, r: Result<Option<Op>, SqliteError>, _a: usize, _l: u64) -> String {
        match r {
            Ok(None) => "none".into(),
            Ok(Some(op)) => {
                let (_, word) = self.op_word(&op);
                format!("{}:{}", op.header.seq_num, word)
            }
            Err(e) => err_word(&e),
        }
    }
}

pub struct SeqResult {
    pub answers: Vec<String>,
    pub expected: Vec<String>,
}

/// Run one command sequence on a fresh store (real implementation) and on the shadow reference.
/// A `latest` answer is reduced to `<seq>:tie` when the reference says several rows share the top
/// sequence number (SQL does not say which one `LIMIT 1` returns).
pub fn exec_seq(rt: &tokio::runtime::Runtime, w: &World, cmds: &[Cmd]) -> SeqResult {
    rt.block_on(async {
        let store = SqliteStore::temporary().await;
        let mut ex = Exec { w, store, permit: None, ops: BTreeMap::new(), by_hash: BTreeMap::new() };
        let mut sh = Shadow::default();
        let mut answers = vec![];
        let mut expected = vec![];
        for c in cmds {
            let hs = if let Cmd::Ins(s) = c { w.hsize(s) } else { 0 };
            let exp = sh.step(c, hs);
            let may_block = exp == "BLOCKED";
            let fut = AssertUnwindSafe(ex.run(c)).catch_unwind();
            let mut ans = if may_block {
                match tokio::time::timeout(Duration::from_millis(BLOCK_MS), fut).await {
                    Err(_) => "BLOCKED".to_string(),
                    Ok(Ok(a)) => a,
                    Ok(Err(_)) => "PANIC".to_string(),
                }
            } else {
                // generous watchdog so that an unexpected wait shows up as an answer, not as a hang
                match tokio::time::timeout(Duration::from_secs(20), fut).await {
                    Err(_) => "BLOCKED".to_string(),
                    Ok(Ok(a)) => a,
                    Ok(Err(_)) => "PANIC".to_string(),
                }
            };
            if exp.ends_with(":tie") {
                // keep only the sequence number of the implementation's pick
                if let Some(p) = ans.find(':') {
                    if !ans.starts_with("E:") && !ans.contains("CORRUPT") {
                        ans = format!("{}:tie", &ans[..p]);
                    }
                }
            }
            answers.push(ans);
            expected.push(exp);
        }
        // leave no transaction open (the store is dropped anyway)
        if let Some(p) = ex.permit.take() {
            let _ = ex.store.rollback(p).await;
        }
        SeqResult { answers, expected }
    })
}

pub fn runtime() -> tokio::runtime::Runtime {
    // not start_paused: sqlx talks to its SQLite worker thread; a paused clock would auto-advance
    // while the runtime idles on that thread and fire sqlx' pool timeouts spuriously.
    tokio::runtime::Builder::new_current_thread().enable_all().build().expect("runtime")
}

// ------------------------------------------------------------------------------------------------
// Generation
// ------------------------------------------------------------------------------------------------

/// Relative weights of the command families.
#[derive(Clone)]
pub struct Profile {
    pub ins: u64,
    pub del: u64,
    pub delp: u64,
    pub getters: u64,
    pub prune: u64,
    pub latest: u64,
    pub heights: u64,
    pub size: u64,
    pub entries: u64,
    pub topics: u64,
    pub cursors: u64,
    /// chance (per 1000 commands) of a command that is expected to block / a tx-method outside a tx
    pub blocked_per_1000: u64,
    pub notx_per_1000: u64,
    pub max_len: u64,
    pub min_len: u64,
}

pub fn pick_seq(rng: &mut Rng) -> u64 {
    match rng.below(20) {
        0 => SEQ_MAX,
        1 => SEQ_MAX - 1,
        2 => rng.range(7, 300),
        _ => rng.range(0, 6),
    }
}

pub fn pick_bound(rng: &mut Rng) -> Option<u64> {
    match rng.below(12) {
        0 | 1 | 2 => None,
        3 => Some(SEQ_MAX),
        4 => Some(SEQ_MAX - 1),
        5 => Some(0),
        _ => Some(rng.range(0, 7)),
    }
}

pub fn pick_log(rng: &mut Rng) -> u64 {
    if rng.chance(1, 12) { LOGS[4] } else { LOGS[rng.below(4) as usize] }
}

pub fn pick_author(rng: &mut Rng) -> usize {
    if rng.chance(1, 15) { 3 } else { rng.below(3) as usize }
}

pub fn is_boundary(c: &Cmd) -> bool {
    match c {
        Cmd::Size(_, _, af, un) | Cmd::Entries(_, _, af, un) => {
            matches!(un, Some(0))
                || matches!(af, Some(x) if *x >= SEQ_MAX - 1)
                || matches!((af, un), (Some(a), Some(u)) if a >= u)
        }
        Cmd::Heights(_, ls) => ls.is_empty(),
        Cmd::Prune(_, _, u) => *u == 0 || *u == SEQ_MAX,
        _ => false,
    }
}

/// Generate one command sequence. Transactions are well bracketed (a permit is needed to commit);
/// tx-methods mostly run inside a transaction, pool methods mostly outside.
pub fn gen_seq(rng: &mut Rng, pf: &Profile) -> Vec<Cmd> {
    let len = rng.range(pf.min_len, pf.max_len) as usize;
    let mut cmds: Vec<Cmd> = vec![];
    let mut in_tx = false;
    let mut next_id: u64 = 0;
    let mut known: Vec<InsSpec> = vec![];
    // (author, log, seq) already used, to make collisions a deliberate, rarer event
    let mut used: BTreeSet<(usize, u64, u64)> = BTreeSet::new();
    let total_tx = pf.ins + pf.del + pf.getters / 2 + pf.latest / 3 + pf.topics * 2 / 3 + pf.cursors * 2 / 3;
    let total_pool = pf.delp + pf.getters / 2 + pf.prune + pf.latest + pf.heights + pf.size + pf.entries + pf.topics / 3 + pf.cursors / 3;
    while cmds.len() < len {
        // transaction control
        if in_tx {
            if rng.chance(1, 6) {
                cmds.push(match rng.below(10) {
                    0 | 1 => Cmd::Rollback,
                    2 => Cmd::Drop,
                    _ => Cmd::Commit,
                });
                in_tx = false;
                continue;
            }
        } else if rng.chance(total_tx, total_tx + total_pool) && !rng.chance(pf.notx_per_1000, 1000) {
            cmds.push(Cmd::Begin);
            in_tx = true;
            continue;
        }
        let id_pick = |rng: &mut Rng, known: &Vec<InsSpec>, next_id: u64| -> u64 {
            if known.is_empty() || rng.chance(1, 10) { next_id + 50 } else { rng.pick(known).id }
        };
        // Which family? inside a tx prefer tx-methods; outside prefer pool methods.
        let want_tx_method = if in_tx { !rng.chance(pf.blocked_per_1000, 1000) } else { rng.chance(pf.notx_per_1000, 1000) };
        let c = if want_tx_method {
            let t = pf.ins + pf.del + pf.getters + pf.latest + pf.topics + pf.cursors;
            let mut r = rng.below(t.max(1));
            if r < pf.ins {
                if !known.is_empty() && rng.chance(1, 7) {
                    // re-insert a known op (sometimes under another log id: same hash → ignored)
                    let mut s = rng.pick(&known).clone();
                    if rng.chance(1, 3) {
                        s.l = pick_log(rng);
                    }
                    Cmd::Ins(s)
                } else {
                    let a = rng.below(3) as usize;
                    let l = LOGS[rng.below(4) as usize];
                    let mut s = pick_seq(rng);
                    if used.contains(&(a, l, s)) && !rng.chance(1, 6) {
                        // avoid an accidental tie: take the next free seq of that log
                        let mut k = 0;
                        while used.contains(&(a, l, k)) {
                            k += 1;
                        }
                        s = k;
                    }
                    used.insert((a, l, s));
                    let p = if rng.chance(1, 5) { 0 } else { rng.range(1, 40) };
                    let body = if p == 0 { rng.chance(1, 8) } else { !rng.chance(1, 6) };
                    let spec = InsSpec { id: next_id, a, l, s, p, body };
                    next_id += 1;
                    known.push(spec.clone());
                    Cmd::Ins(spec)
                }
            } else {
                r -= pf.ins;
                if r < pf.del {
                    Cmd::Del(id_pick(rng, &known, next_id))
                } else {
                    r -= pf.del;
                    if r < pf.getters {
                        if rng.chance(1, 2) { Cmd::GetTx(id_pick(rng, &known, next_id)) } else { Cmd::HasTx(id_pick(rng, &known, next_id)) }
                    } else {
                        r -= pf.getters;
                        if r < pf.latest {
                            Cmd::LatestTx(pick_author(rng), pick_log(rng))
                        } else {
                            r -= pf.latest;
                            if r < pf.topics {
                                let t = rng.below(3);
                                if rng.chance(2, 3) { Cmd::Assoc(t, pick_author(rng), pick_log(rng)) } else { Cmd::Unassoc(t, pick_author(rng), pick_log(rng)) }
                            } else if rng.chance(3, 4) {
                                Cmd::Cset(rng.below(NAMES.len() as u64) as usize, rng.below(9))
                            } else {
                                Cmd::Cdel(rng.below(NAMES.len() as u64) as usize)
                            }
                        }
                    }
                }
            }
        } else {
            let t = pf.delp + pf.getters + pf.prune + pf.latest + pf.heights + pf.size + pf.entries + pf.topics + pf.cursors;
            let mut r = rng.below(t.max(1));
            if r < pf.delp {
                Cmd::Delp(id_pick(rng, &known, next_id))
            } else {
                r -= pf.delp;
                if r < pf.getters {
                    if rng.chance(1, 2) { Cmd::Get(id_pick(rng, &known, next_id)) } else { Cmd::Has(id_pick(rng, &known, next_id)) }
                } else {
                    r -= pf.getters;
                    if r < pf.prune {
                        let u = match rng.below(8) {
                            0 => 0,
                            1 => SEQ_MAX,
                            _ => rng.range(0, 7),
                        };
                        Cmd::Prune(pick_author(rng), pick_log(rng), u)
                    } else {
                        r -= pf.prune;
                        if r < pf.latest {
                            Cmd::Latest(pick_author(rng), pick_log(rng))
                        } else {
                            r -= pf.latest;
                            if r < pf.heights {
                                let n = match rng.below(8) {
                                    0 => 0,
                                    1 => 1,
                                    _ => rng.range(1, 6),
                                };
                                let ls: Vec<u64> = (0..n).map(|_| LOGS[rng.below(5) as usize]).collect();
                                Cmd::Heights(pick_author(rng), ls)
                            } else {
                                r -= pf.heights;
                                if r < pf.size {
                                    Cmd::Size(pick_author(rng), pick_log(rng), pick_bound(rng), pick_bound(rng))
                                } else {
                                    r -= pf.size;
                                    if r < pf.entries {
                                        Cmd::Entries(pick_author(rng), pick_log(rng), pick_bound(rng), pick_bound(rng))
                                    } else {
                                        r -= pf.entries;
                                        if r < pf.topics {
                                            Cmd::Resolve(rng.below(4))
                                        } else {
                                            Cmd::Cget(rng.below(NAMES.len() as u64) as usize)
                                        }
                                    }
                                }
                            }
                        }
                    }
                }
            }
        };
        cmds.push(c);
    }
    if in_tx {
        cmds.push(if rng.chance(3, 4) { Cmd::Commit } else { Cmd::Rollback });
    }
    cmds
}

/// Run + record one case. `tag_prefix`: "c08"/"c09". Returns whether an oracle failure was recorded.
pub fn emit(out: &mut Out, rt: &tokio::runtime::Runtime, w: &World, cmds: &[Cmd], nt: bool, origin: &str) -> bool {
    let req = w.line(cmds);
    let res = exec_seq(rt, w, cmds);
    let ans = res.answers.join(" ; ");
    let n = out.case(&req, &ans, nt);
    out.count(&format!("origin={origin}"));
    out.count(&format!("len={}", match cmds.len() { 0..=9 => "<10", 10..=49 => "10-49", 50..=119 => "50-119", _ => ">=120" }));
    let mut failed = false;
    for (k, c) in cmds.iter().enumerate() {
        out.count(&format!("cmd={}", c.kind()));
        let a = &res.answers[k];
        if is_boundary(c) {
            out.count("boundary-args");
        }
        if a == "none" {
            out.count(&format!("ans-none:{}", c.kind()));
        } else if a.starts_with("E:") || a == "BLOCKED" || a == "PANIC" || a.contains("CORRUPT") {
            out.count(&format!("ans={a}"));
        } else if a.ends_with(":tie") {
            out.count("ans-latest-tie");
        }
        if a != &res.expected[k] && !failed {
            failed = true;
            let tag = if a == "PANIC" {
                match c {
                    Cmd::Heights(_, ls) if ls.is_empty() => "heights-empty-panic".to_string(),
                    _ => format!("{}-panic", c.kind()),
                }
            } else {
                c.kind().to_string()
            };
            let what = format!(
                "command {k} `{}`: implementation answered `{a}`, the in-memory reference says `{}`",
                w.line(std::slice::from_ref(c)),
                res.expected[k]
            );
            out.oracle_fail(n, &tag, &what, &req, &ans);
            if origin != "shrunk" && cmds.len() > 3 {
                // cheap delta debugging: drop chunks while the same kind of failure persists, then
                // record the small case as well (./check reports the shortest failing request)
                let small = shrink(rt, w, cmds, &tag);
                if small.len() < cmds.len() {
                    emit(out, rt, w, &small, false, "shrunk");
                }
            }
        }
    }
    failed
}

fn fail_tag(rt: &tokio::runtime::Runtime, w: &World, cmds: &[Cmd]) -> Option<String> {
    let res = exec_seq(rt, w, cmds);
    for (k, c) in cmds.iter().enumerate() {
        if res.answers[k] != res.expected[k] {
            return Some(if res.answers[k] == "PANIC" {
                match c {
                    Cmd::Heights(_, ls) if ls.is_empty() => "heights-empty-panic".to_string(),
                    _ => format!("{}-panic", c.kind()),
                }
            } else {
                c.kind().to_string()
            });
        }
    }
    None
}

pub fn shrink(rt: &tokio::runtime::Runtime, w: &World, cmds: &[Cmd], tag: &str) -> Vec<Cmd> {
    let mut cur: Vec<Cmd> = cmds.to_vec();
    let mut chunk = (cur.len() / 2).max(1);
    let mut budget = 400;
    while chunk >= 1 && budget > 0 {
        let mut i = 0;
        let mut progressed = false;
        while i < cur.len() && budget > 0 {
            let mut cand = cur.clone();
            let hi = (i + chunk).min(cand.len());
            cand.drain(i..hi);
            budget -= 1;
            if !cand.is_empty() && fail_tag(rt, w, &cand).as_deref() == Some(tag) {
                cur = cand;
                progressed = true;
            } else {
                i += chunk;
            }
        }
        if chunk == 1 && !progressed {
            break;
        }
        if !progressed || chunk > 1 {
            chunk = if chunk == 1 { 1 } else { chunk / 2 };
        }
    }
    cur
}

pub fn install_quiet_panic_hook() {
    std::panic::set_hook(Box::new(|_| {}));
}
