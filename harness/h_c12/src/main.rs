//! C12 — Released orderer items survive cancellation of `next`.
//!
//! Drives the real `p2panda_stream::orderer::Orderer` (Processor impl: `process` / `next`) over the real
//! `SqliteStore`, wrapped in `VStore`: a pass-through store that logs which store call *really* started /
//! completed and yields once before and after each call, so that every boundary between two store calls
//! of `Orderer::next` is a point where the future can be dropped. `next()` is polled by hand with a
//! counting waker and dropped after the k-th poll, for every k.
//!
//! Request line: `cur <op>*`
//!   `p<k>`                      process item k (no dependencies) to completion
//!   `n@<polls>:<ev>,…:<end>`    one `next()` call, dropped after `<polls>` polls (`-` = never; the model ignores
//!                               this field, replay uses it); `<ev>` = store calls that really completed, in order
//!                               (`begin`, `take<k>` / `take-`, `gettx`, `commit`, `get`; `wake` = `notified()`
//!                               returned and the loop went round), `<end>` =
//!                               `ret` (ran to completion) | `cx` (dropped; all started store calls had
//!                               completed) | `cc` / `cr` (dropped after `commit` was entered and before it returned; the commit
//!                               went through / was rolled back — observed in the database afterwards)
//!                               | `blk` (queue empty: blocked in `notified()`, then dropped)
//! Answer: per `p`: `q<queue_len>`; per `n`: `=<k>` (returned item) or `-`, then `q<queue_len>`.
use hc::{Args, Out, Rng, Tier};
use p2panda_core::traits::Digest;
use p2panda_core::{Body, Hash, Header, LogId, Operation, SigningKey, Topic};
use p2panda_store::operations::OperationStore;
use p2panda_store::orderer::{OrdererStore, OrdererTestExt};
use p2panda_store::sqlite::{SqliteError, TransactionPermit};
use p2panda_store::{SqliteStore, Transaction};
use p2panda_stream::Processor;
use p2panda_stream::orderer::{Orderer, Ordering};
use serde::{Deserialize, Serialize};
use std::cell::RefCell;
use std::collections::{BTreeMap, HashSet};
use std::future::Future;
use std::pin::Pin;
use std::rc::Rc;
use std::sync::Arc;
use std::sync::atomic::{AtomicUsize, Ordering as AtomicOrdering};
use std::task::{Context, Poll, Wake, Waker};
use std::time::Duration;

#[derive(Clone, Debug, Default, Serialize, Deserialize, PartialEq)]
pub struct Ext {
    n: u32,
    deps: Vec<Hash>,
}

/// Local item type (foreign traits on a local type; `Operation<Ext>` itself cannot get `Ordering`).
#[derive(Clone, Debug, PartialEq)]
pub struct Item(Operation<Ext>);

impl Digest<Hash> for Item {
    fn hash(&self) -> Hash {
        self.0.hash
    }
}
impl Ordering<Hash> for Item {
    fn dependencies(&self) -> &[Hash] {
        &self.0.header.extensions.deps
    }
}

struct YieldOnce(bool);
impl Future for YieldOnce {
    type Output = ();
    fn poll(mut self: Pin<&mut Self>, cx: &mut Context<'_>) -> Poll<()> {
        if self.0 {
            Poll::Ready(())
        } else {
            self.0 = true;
            cx.waker().wake_by_ref();
            Poll::Pending
        }
    }
}

/// Pass-through store with an event log. `+x` = call x entered, `>x` = really started, `<x` = really completed.
#[derive(Clone)]
pub struct VStore {
    inner: SqliteStore,
    log: Rc<RefCell<Vec<String>>>,
    back: Rc<RefCell<BTreeMap<Hash, u32>>>,
    /// extra delay inside get_operation (second driver: widens the window after the commit)
    get_delay_ms: u64,
}

impl VStore {
    fn ev(&self, s: String) {
        self.log.borrow_mut().push(s);
    }
    async fn around<T>(&self, name: &str, f: impl Future<Output = T>, done: impl FnOnce(&T) -> String) -> T {
        self.ev(format!("+{name}")); // entered (the caller's statements before this call have run)
        YieldOnce(false).await;
        self.ev(format!(">{name}"));
        let r = f.await;
        self.ev(format!("<{}", done(&r)));
        YieldOnce(false).await;
        r
    }
}

impl Transaction for VStore {
    type Error = SqliteError;
    type Permit = TransactionPermit;
    async fn begin(&self) -> Result<TransactionPermit, SqliteError> {
        self.around("begin", self.inner.begin(), |_| "begin".into()).await
    }
    async fn rollback(&self, permit: TransactionPermit) -> Result<(), SqliteError> {
        self.around("rollback", self.inner.rollback(permit), |_| "rollback".into()).await
    }
    async fn commit(&self, permit: TransactionPermit) -> Result<(), SqliteError> {
        self.around("commit", self.inner.commit(permit), |_| "commit".into()).await
    }
}

impl OrdererStore<Hash> for VStore {
    type Error = SqliteError;
    async fn mark_ready(&self, id: Hash) -> Result<bool, SqliteError> {
        self.inner.mark_ready(id).await
    }
    async fn mark_pending(&self, id: Hash, dependencies: Vec<Hash>) -> Result<bool, SqliteError> {
        self.inner.mark_pending(id, dependencies).await
    }
    async fn get_next_pending(&self, id: Hash) -> Result<Option<HashSet<(Hash, Vec<Hash>)>>, SqliteError> {
        self.inner.get_next_pending(id).await
    }
    async fn take_next_ready(&self) -> Result<Option<Hash>, SqliteError> {
        let back = self.back.clone();
        self.around("take", OrdererStore::<Hash>::take_next_ready(&self.inner), move |r| match r {
            Ok(Some(h)) => format!("take{}", back.borrow().get(h).copied().unwrap_or(9999)),
            Ok(None) => "take-".into(),
            Err(_) => "takeERR".into(),
        })
        .await
    }
    async fn remove_pending(&self, id: Hash) -> Result<bool, SqliteError> {
        self.inner.remove_pending(id).await
    }
    async fn ready(&self, keys: &[Hash]) -> Result<bool, SqliteError> {
        self.inner.ready(keys).await
    }
}

impl OperationStore<Item, Hash> for VStore {
    type Error = SqliteError;
    async fn insert_operation<L: LogId>(&self, id: &Hash, operation: &Item, log_id: &L) -> Result<bool, SqliteError> {
        self.inner.insert_operation(id, &operation.0, log_id).await
    }
    async fn get_operation(&self, id: &Hash) -> Result<Option<Item>, SqliteError> {
        let d = self.get_delay_ms;
        let inner = self.inner.clone();
        let id = *id;
        self.around(
            "get",
            async move {
                if d > 0 {
                    tokio::time::sleep(Duration::from_millis(d)).await;
                }
                OperationStore::<Operation<Ext>, Hash>::get_operation(&inner, &id).await.map(|o| o.map(Item))
            },
            |_| "get".into(),
        )
        .await
    }
    async fn get_operation_tx(&self, id: &Hash) -> Result<Option<Item>, SqliteError> {
        self.around(
            "gettx",
            async { OperationStore::<Operation<Ext>, Hash>::get_operation_tx(&self.inner, id).await.map(|o| o.map(Item)) },
            |_| "gettx".into(),
        )
        .await
    }
    async fn has_operation(&self, id: &Hash) -> Result<bool, SqliteError> {
        OperationStore::<Operation<Ext>, Hash>::has_operation(&self.inner, id).await
    }
    async fn has_operation_tx(&self, id: &Hash) -> Result<bool, SqliteError> {
        OperationStore::<Operation<Ext>, Hash>::has_operation_tx(&self.inner, id).await
    }
    async fn delete_operation(&self, id: &Hash) -> Result<bool, SqliteError> {
        OperationStore::<Operation<Ext>, Hash>::delete_operation(&self.inner, id).await
    }
    async fn delete_operation_payload(&self, id: &Hash) -> Result<bool, SqliteError> {
        OperationStore::<Operation<Ext>, Hash>::delete_operation_payload(&self.inner, id).await
    }
}

struct CountWaker(AtomicUsize);
impl Wake for CountWaker {
    fn wake(self: Arc<Self>) {
        self.0.fetch_add(1, AtomicOrdering::SeqCst);
    }
    fn wake_by_ref(self: &Arc<Self>) {
        self.0.fetch_add(1, AtomicOrdering::SeqCst);
    }
}

fn make_item(key: &SigningKey, n: u32) -> Item {
    let body: Body = format!("item {n}").into_bytes().into();
    let mut header = Header {
        verifying_key: key.verifying_key(),
        payload_size: body.size(),
        payload_hash: Some(body.hash()),
        seq_num: 0,
        extensions: Ext { n, deps: vec![] },
        ..Default::default()
    };
    header.sign(key);
    Item(Operation { hash: header.hash(), header, body: Some(body) })
}

#[derive(Clone, Debug, PartialEq)]
enum Op {
    P(u32),
    /// next(): drop after this many polls (None = run to completion / until blocked)
    N(Option<u32>),
    /// uncancelled next() calls until one blocks on the empty queue
    Drain,
}

#[derive(Clone, Debug)]
struct NextObs {
    events: Vec<String>,
    end: String,
    returned: Option<u32>,
    polls: u32,
    completed: bool,
}

struct World {
    store: VStore,
    orderer: Orderer<Item, Hash, VStore>,
    key: SigningKey,
    topic: Topic,
}

async fn settle(store: &SqliteStore) -> usize {
    // Wait until a dropped call's rollback task has run (begin() queues behind it), then read the queue.
    let permit = store.begin().await.expect("begin");
    let q = store.ready_queue_len().await;
    store.commit(permit).await.expect("commit");
    q
}

async fn do_next(w: &World, cancel_after: Option<u32>) -> NextObs {
    w.store.log.borrow_mut().clear();
    let waker_state = Arc::new(CountWaker(AtomicUsize::new(0)));
    let waker = Waker::from(waker_state.clone());
    let mut cx = Context::from_waker(&waker);
    let mut fut: Pin<Box<dyn Future<Output = _>>> = Box::pin(w.orderer.next());
    let mut polls = 0u32;
    let mut result = None;
    let mut blocked = false;
    loop {
        let seen = waker_state.0.load(AtomicOrdering::SeqCst);
        polls += 1;
        match fut.as_mut().poll(&mut cx) {
            Poll::Ready(r) => {
                result = Some(r);
                break;
            }
            Poll::Pending => {}
        }
        if Some(polls) == cancel_after {
            break;
        }
        // wait for a wake-up (SQLite worker thread / self-wake); none for 150 ms = blocked in notified()
        let mut waited = 0;
        while waker_state.0.load(AtomicOrdering::SeqCst) == seen {
            tokio::time::sleep(Duration::from_micros(300)).await;
            waited += 1;
            if waited > 120 {
                blocked = true;
                break;
            }
        }
        if blocked {
            break;
        }
    }
    drop(fut); // cancellation (no-op if completed)
    // let the rollback task spawned by a dropped TransactionPermit run
    tokio::task::yield_now().await;
    let log: Vec<String> = w.store.log.borrow().clone();
    let mut events = vec![];
    let mut open: Option<String> = None;
    for e in &log {
        if let Some(name) = e.strip_prefix('+') {
            if name == "begin" && events.last().map(|e: &String| e.as_str()) == Some("take-") {
                // `notified()` returned (stored permit consumed) and the loop went round
                events.push("wake".to_string());
            }
            open = Some(name.to_string());
        } else if e.starts_with('>') {
        } else if let Some(name) = e.strip_prefix('<') {
            events.push(name.to_string());
            open = None;
        }
    }
    let (end, returned) = match &result {
        Some(Ok(item)) => ("ret".to_string(), Some(item.0.header.extensions.n)),
        Some(Err((_, e))) => {
            if std::env::var("VERIF_TRACE").is_ok() {
                eprintln!("next error: {e}");
            }
            ("err".to_string(), None)
        }
        None => {
            if blocked && events.last().map(|e| e.as_str()) == Some("take-") && open.is_none() {
                ("blk".to_string(), None)
            } else if open.as_deref() == Some("commit") {
                ("c?".to_string(), None) // resolved by the caller from the database
            } else {
                ("cx".to_string(), None)
            }
        }
    };
    NextObs { events, end, returned, polls, completed: result.is_some() }
}

struct CaseObs {
    request: String,
    answer: String,
    processed: Vec<u32>,
    returned: Vec<u32>,
    cancelled_commits: u32,
    /// some cancel landed after the take statement had completed
    cancel_after_take: bool,
    lost_window: Option<String>,
    first_cancel_completed: bool,
    stages: Vec<String>,
}

async fn run_case(inner: SqliteStore, ops: &[Op]) -> CaseObs {
    // One database for the whole run (creating one per case costs ~1 s of migrations): start from an
    // empty queue; items of earlier cases stay in the ready table with in_queue = FALSE, every case
    // signs its items with a fresh key so ids never repeat.
    loop {
        let permit = inner.begin().await.expect("begin");
        let r = OrdererStore::<Hash>::take_next_ready(&inner).await.expect("take");
        inner.commit(permit).await.expect("commit");
        if r.is_none() {
            break;
        }
    }
    let store = VStore { inner: inner.clone(), log: Rc::default(), back: Rc::default(), get_delay_ms: 0 };
    let w = World { orderer: Orderer::new(store.clone()), store, key: SigningKey::generate(), topic: Topic::random() };
    let mut req = String::from("cur");
    let mut ans: Vec<String> = vec![];
    let mut processed = vec![];
    let mut returned = vec![];
    let mut cancelled_commits = 0;
    let mut cancel_after_take = false;
    let mut lost_window = None;
    let mut first_cancel_completed = true;
    let mut seen_cancel = false;
    let mut stages = vec![];
    let mut qlen_before;
    let mut expanded: Vec<Op> = ops.to_vec();
    let mut idx = 0;
    let mut drain_guard = 0;
    while idx < expanded.len() {
        let op = expanded[idx].clone();
        idx += 1;
        match &op {
            Op::Drain => {
                // one uncancelled call now; continue draining unless it truly blocked
                expanded.insert(idx, Op::N(None));
                expanded.insert(idx + 1, Op::Drain);
                drain_guard += 1;
                if drain_guard > 40 {
                    break;
                }
                continue;
            }
            Op::P(k) => {
                let item = make_item(&w.key, *k);
                w.store.back.borrow_mut().insert(item.0.hash, *k);
                let permit = inner.begin().await.unwrap();
                inner.insert_operation(&item.0.hash, &item.0, &w.topic).await.unwrap();
                inner.commit(permit).await.unwrap();
                let r = w.orderer.process(item).await;
                assert!(r.is_ok(), "process failed");
                processed.push(*k);
                let q = settle(&inner).await;
                req.push_str(&format!(" p{k}"));
                ans.push(format!("q{q}"));
            }
            Op::N(c) => {
                qlen_before = settle(&inner).await;
                let mut o = do_next(&w, *c).await;
                let q = settle(&inner).await;
                if o.end == "c?" {
                    // commit in flight when dropped: did it go through?
                    o.end = if q < qlen_before { "cc".into() } else { "cr".into() };
                    cancelled_commits += 1;
                }
                if c.is_some() && !seen_cancel {
                    seen_cancel = true;
                    first_cancel_completed = o.completed;
                }
                if !o.completed {
                    if o.events.iter().any(|e| e.starts_with("take") && e != "take-") {
                        cancel_after_take = true;
                        let last = o.events.last().cloned().unwrap_or_default();
                        stages.push(format!("after-{}", if last.starts_with("take") { "take" } else { &last }));
                        if o.events.iter().any(|e| e == "commit") || o.end == "cc" {
                            lost_window = Some(format!("{}:{}", o.events.join(","), o.end));
                        }
                    } else {
                        stages.push(format!("at-{}", o.events.last().cloned().unwrap_or("start".into())));
                    }
                }
                if let Some(x) = o.returned {
                    returned.push(x);
                }
                if c.is_none() && o.end == "blk" && expanded.get(idx) == Some(&Op::Drain) {
                    idx += 1; // a drain in progress stops here
                }
                req.push_str(&format!(
                    " n@{}:{}:{}",
                    c.map(|k| k.to_string()).unwrap_or("-".into()),
                    o.events.join(","),
                    o.end
                ));
                ans.push(format!("{}q{}", o.returned.map(|x| format!("={x}")).unwrap_or("-".into()), q));
            }
        }
    }
    CaseObs {
        request: req,
        answer: ans.join(" "),
        processed,
        returned,
        cancelled_commits,
        cancel_after_take,
        lost_window,
        first_cancel_completed,
        stages,
    }
}

/// File-backed database (tmpfs): with `:memory:` a connection that sqlx discards after a dropped call
/// would come back as a fresh, empty database.
fn open_store(rt: &tokio::runtime::Runtime) -> (SqliteStore, String) {
    let path = format!("/dev/shm/h_c12_{}.db", std::process::id());
    let _ = std::fs::remove_file(&path);
    let store = rt.block_on(async {
        p2panda_store::sqlite::SqliteStoreBuilder::new()
            .database_url(&format!("sqlite://{path}"))
            .min_connections(1)
            .max_connections(1)
            .build()
            .await
            .expect("store")
    });
    (store, path)
}

fn close_store(rt: &tokio::runtime::Runtime, store: &SqliteStore, path: &str) {
    rt.block_on(store.pool().close());
    for suffix in ["", "-wal", "-shm", "-journal"] {
        let _ = std::fs::remove_file(format!("{path}{suffix}"));
    }
}

fn emit(rt: &tokio::runtime::Runtime, db: &SqliteStore, out: &mut Out, ops: &[Op], kind: &str) -> CaseObs {
    let local = tokio::task::LocalSet::new();
    let obs = local.block_on(rt, run_case(db.clone(), ops));
    let n = out.case(&obs.request, &obs.answer, obs.cancel_after_take);
    out.count(&format!("kind={kind}"));
    for s in &obs.stages {
        out.count(&format!("cancel-{s}"));
    }
    out.count_n("next-calls", obs.request.matches(" n@").count() as u64);
    if std::env::var("VERIF_TRACE").is_ok() {
        eprintln!("{} -> {}", obs.request, obs.answer);
    }
    out.count_n("cancelled-commits-in-flight", obs.cancelled_commits as u64);
    // Oracle: every processed (= released: no dependencies) item is returned by some completed next();
    // an item is returned at most once more than commits were cancelled in flight / after parking.
    let mut fail: Option<(String, String)> = None;
    for k in &obs.processed {
        let c = obs.returned.iter().filter(|x| *x == k).count();
        if c == 0 && fail.is_none() {
            let tag = if obs.lost_window.is_some() { "lost-cancelled-after-commit" } else { "lost" };
            fail = Some((
                tag.into(),
                format!(
                    "item {k} was released (process committed) but no next() call ever returned it; cancelled call: {}",
                    obs.lost_window.clone().unwrap_or_default()
                ),
            ));
        }
        let cancels = ops.iter().filter(|o| matches!(o, Op::N(Some(_)))).count();
        if c > 1 + cancels && fail.is_none() {
            fail = Some(("returned-too-often".into(), format!("item {k} returned {c} times with {cancels} cancelled calls")));
        }
    }
    for x in &obs.returned {
        if !obs.processed.contains(x) && fail.is_none() {
            fail = Some(("returned-unknown".into(), format!("next() returned {x} which was never processed")));
        }
    }
    if let Some((tag, what)) = fail {
        out.oracle_fail(n, &tag, &what, &obs.request, &obs.answer);
    }
    obs
}

/// Second driver: the real `ProcessorStream` / `Buffer` (`input.layer(orderer)`): items arrive at random
/// times on a channel, `Buffer`'s `select!` drops the `next()` future whenever input wins the race.
async fn run_stream(inner: SqliteStore, n: u32, delays: Vec<u64>) -> Vec<u32> {
    use futures::StreamExt;
    use p2panda_stream::StreamLayerExt;
    loop {
        let permit = inner.begin().await.expect("begin");
        let r = OrdererStore::<Hash>::take_next_ready(&inner).await.expect("take");
        inner.commit(permit).await.expect("commit");
        if r.is_none() {
            break;
        }
    }
    let store = VStore { inner: inner.clone(), log: Rc::default(), back: Rc::default(), get_delay_ms: 1 };
    let key = SigningKey::generate();
    let topic = Topic::random();
    let items: Vec<Item> = (0..n).map(|k| make_item(&key, k)).collect();
    let permit = inner.begin().await.unwrap();
    for it in &items {
        inner.insert_operation(&it.0.hash, &it.0, &topic).await.unwrap();
    }
    inner.commit(permit).await.unwrap();
    let (tx, rx) = futures::channel::mpsc::unbounded::<Item>();
    let orderer: Orderer<Item, Hash, VStore> = Orderer::new(store.clone());
    let mut stream = Box::pin(rx.layer(orderer));
    let feeder = tokio::task::spawn_local(async move {
        for (it, d) in items.into_iter().zip(delays) {
            tokio::time::sleep(Duration::from_micros(d)).await;
            let _ = tx.unbounded_send(it);
        }
        // keep the channel open: the stream never terminates by design
        tokio::time::sleep(Duration::from_secs(3600)).await;
        drop(tx);
    });
    let mut got = vec![];
    let deadline = tokio::time::Instant::now() + Duration::from_millis(1500 + 60 * n as u64);
    loop {
        let distinct: std::collections::BTreeSet<u32> = got.iter().cloned().collect();
        if distinct.len() as u32 == n {
            // a little longer: duplicates, if any, follow immediately
            match tokio::time::timeout(Duration::from_millis(30), stream.next()).await {
                Ok(Some(Ok(it))) => {
                    got.push(it.0.header.extensions.n);
                    continue;
                }
                _ => break,
            }
        }
        match tokio::time::timeout_at(deadline, stream.next()).await {
            Ok(Some(Ok(it))) => got.push(it.0.header.extensions.n),
            Ok(Some(Err(_))) => got.push(9999),
            Ok(None) | Err(_) => break,
        }
    }
    feeder.abort();
    drop(stream);
    tokio::task::yield_now().await;
    tokio::time::sleep(Duration::from_millis(5)).await;
    got
}

fn emit_stream(rt: &tokio::runtime::Runtime, db: &SqliteStore, out: &mut Out, n: u32, delays: Vec<u64>) {
    let local = tokio::task::LocalSet::new();
    let got = local.block_on(rt, run_stream(db.clone(), n, delays));
    let distinct: std::collections::BTreeSet<u32> = got.iter().cloned().collect();
    let req = format!("cur s{n}");
    let ans = format!("d{}", distinct.len());
    let c = out.case(&req, &ans, false);
    out.count("kind=stream-layer");
    out.count_n("stream-items", n as u64);
    out.count_n("stream-duplicates", (got.len() - distinct.len()) as u64);
    if distinct.len() as u32 != n || distinct.contains(&9999) {
        let lost: Vec<u32> = (0..n).filter(|k| !distinct.contains(k)).collect();
        out.oracle_fail(
            c,
            "stream-layer-lost",
            &format!("items {lost:?} were fed to `input.layer(orderer)` but never yielded by the stream (yielded: {got:?})"),
            &req,
            &ans,
        );
    }
}

/// Scenario followed by a full drain: uncancelled next() calls until one blocks.
fn with_drain(mut ops: Vec<Op>, n_items: usize) -> Vec<Op> {
    let _ = n_items;
    ops.push(Op::Drain);
    ops
}

fn main() {
    let args = Args::parse();
    let mut out = Out::new(&args.out);
    let rt = tokio::runtime::Builder::new_current_thread().enable_all().build().unwrap();
    let (db, db_path) = open_store(&rt);
    if args.mode == "replay" {
        let text = std::fs::read_to_string(args.replay.as_ref().expect("replay file")).unwrap();
        let v: hc::serde_json::Value = hc::serde_json::from_str(&text).unwrap();
        // the request is an observed trace; the poll schedule to re-run is its `p<k>` / `n@<polls>` part
        let reqs = v["request"].as_str().unwrap_or("").to_string();
        if let Some(n) = reqs.strip_prefix("cur s").and_then(|x| x.trim().parse::<u32>().ok()) {
            let mut rng = Rng::new(args.seed);
            for _ in 0..10 {
                let delays: Vec<u64> = (0..n).map(|_| *rng.pick(&[0u64, 0, 50, 200, 500, 1000, 2000, 4000])).collect();
                emit_stream(&rt, &db, &mut out, n, delays);
            }
            out.finish("replay", false);
            close_store(&rt, &db, &db_path);
            return;
        }
        let mut ops = parse_sched(&reqs);
        ops.push(Op::Drain);
        emit(&rt, &db, &mut out, &ops, "replay");
        out.finish("replay", false);
        close_store(&rt, &db, &db_path);
        return;
    }
    let mut rng = Rng::new(args.seed);
    // 1. one item, cancel after the k-th poll for every k
    let mut k = 1;
    let mut completed_in_a_row = 0;
    loop {
        let obs = emit(&rt, &db, &mut out, &with_drain(vec![Op::P(0), Op::N(Some(k))], 1), "one-item-all-k");
        // the number of polls a call needs varies with the SQLite worker thread: stop after the call
        // completed three times in a row before it could be dropped
        completed_in_a_row = if obs.first_cancel_completed { completed_in_a_row + 1 } else { 0 };
        if completed_in_a_row >= 3 || k > 80 {
            break;
        }
        k += 1;
    }
    let kmax = k;
    out.extra.insert("polls_to_completion_one_item".into(), (kmax as u64).into());
    // 2. two items, two cancelled calls, all (k, j)
    let step = match args.tier {
        Tier::Quick => 3,
        _ => 1,
    };
    let mut a = 1;
    while a <= kmax {
        let mut b = 1;
        while b <= kmax {
            emit(&rt, &db, &mut out, &with_drain(vec![Op::P(0), Op::P(1), Op::N(Some(a)), Op::N(Some(b))], 2), "two-items-two-cancels");
            b += step;
        }
        a += step;
    }
    // 3. cancel on an empty queue (blocked in notified while holding lock + permit), then process
    for k in 1..=kmax.min(12) {
        emit(&rt, &db, &mut out, &with_drain(vec![Op::N(Some(k)), Op::P(0), Op::N(Some(k)), Op::P(1)], 2), "cancel-on-empty");
    }
    // 4. random interleavings as Buffer produces them: process only between next calls
    let n_rand = match args.tier {
        Tier::Quick => 25,
        Tier::Thorough => 700,
        Tier::Search => 300,
    };
    for _ in 0..n_rand {
        let n_items = rng.range(1, 5) as u32;
        let mut ops = vec![];
        let mut next_item = 0;
        while next_item < n_items {
            if rng.chance(1, 2) {
                ops.push(Op::P(next_item));
                next_item += 1;
            } else {
                ops.push(Op::N(if rng.chance(4, 5) { Some(rng.range(1, kmax as u64 + 1) as u32) } else { None }));
            }
        }
        for _ in 0..rng.range(0, 3) {
            ops.push(Op::N(Some(rng.range(1, kmax as u64 + 1) as u32)));
        }
        emit(&rt, &db, &mut out, &with_drain(ops, n_items as usize), "random");
    }
    // 5. second driver: the real stream layer (Buffer + ProcessorStream) over the real Orderer
    let n_stream = match args.tier {
        Tier::Quick => 8,
        Tier::Thorough => 150,
        Tier::Search => 60,
    };
    for _ in 0..n_stream {
        let n = rng.range(1, 12) as u32;
        let delays: Vec<u64> = (0..n).map(|_| *rng.pick(&[0u64, 0, 50, 200, 500, 1000, 2000, 4000])).collect();
        emit_stream(&rt, &db, &mut out, n, delays);
    }
    close_store(&rt, &db, &db_path);
    out.finish(
        "non-trivial = run in which a next() future was dropped after the take_next_ready statement had completed",
        false,
    );
}

fn parse_sched(s: &str) -> Vec<Op> {
    s.split_whitespace()
        .filter_map(|t| {
            if let Some(k) = t.strip_prefix('p') {
                k.parse().ok().map(Op::P)
            } else if let Some(rest) = t.strip_prefix("n@") {
                let k = rest.split(':').next().unwrap_or("-");
                k.parse().ok().map(|k| Op::N(Some(k)))
            } else {
                None
            }
        })
        .collect()
}
