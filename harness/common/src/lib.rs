//! Shared plumbing for the property harnesses: deterministic PRNG, command-line handling and
//! the writer for the four artefacts every `gen` run produces:
//!
//! * `ops.txt`      one request line per case (fed verbatim to the Lean model driver)
//! * `impl.out`     the implementation's canonical answer per request line
//! * `oracle.jsonl` one JSON object per *failed* oracle evaluation (property predicate judged
//!                  on the implementation's own output) — `{"case":N,"tag":..,"what":..,"line":..}`
//! * `stats.json`   measured input distribution + counts
use std::collections::{BTreeMap, BTreeSet};
use std::fs::File;
use std::io::{BufWriter, Write};
use std::path::PathBuf;

pub use serde_json;
use serde_json::{json, Value};

/// SplitMix64: tiny, deterministic, good enough for case generation. Every random choice of a
/// harness derives from one instance seeded with VERIF_SEED so that a run replays exactly.
#[derive(Clone, Debug)]
pub struct Rng(pub u64);

impl Rng {
    pub fn new(seed: u64) -> Self {
        Rng(seed ^ 0x9E37_79B9_7F4A_7C15)
    }
    pub fn next_u64(&mut self) -> u64 {
        self.0 = self.0.wrapping_add(0x9E37_79B9_7F4A_7C15);
        let mut z = self.0;
        z = (z ^ (z >> 30)).wrapping_mul(0xBF58_476D_1CE4_E5B9);
        z = (z ^ (z >> 27)).wrapping_mul(0x94D0_49BB_1331_11EB);
        z ^ (z >> 31)
    }
    /// uniform in 0..n (n > 0)
    pub fn below(&mut self, n: u64) -> u64 {
        self.next_u64() % n
    }
    pub fn range(&mut self, lo: u64, hi_incl: u64) -> u64 {
        lo + self.below(hi_incl - lo + 1)
    }
    pub fn chance(&mut self, num: u64, den: u64) -> bool {
        self.below(den) < num
    }
    pub fn pick<'a, T>(&mut self, xs: &'a [T]) -> &'a T {
        &xs[self.below(xs.len() as u64) as usize]
    }
    pub fn shuffle<T>(&mut self, xs: &mut [T]) {
        for i in (1..xs.len()).rev() {
            let j = self.below(i as u64 + 1) as usize;
            xs.swap(i, j);
        }
    }
    pub fn bytes(&mut self, n: usize) -> Vec<u8> {
        (0..n).map(|_| self.next_u64() as u8).collect()
    }
    pub fn fork(&mut self) -> Rng {
        Rng::new(self.next_u64())
    }
}

#[derive(Clone, Debug, PartialEq, Eq)]
pub enum Tier {
    Quick,
    Thorough,
    /// violation search after a broken proof / correspondence: widest generation
    Search,
}

pub struct Args {
    pub mode: String, // gen | replay
    pub seed: u64,
    pub tier: Tier,
    pub out: PathBuf,
    pub replay: Option<PathBuf>,
    pub extra: BTreeMap<String, String>,
}

impl Args {
    /// `<bin> gen --seed S --tier quick|thorough|search --out DIR [--key value]*`
    /// `<bin> replay FILE --out DIR`
    pub fn parse() -> Args {
        let v: Vec<String> = std::env::args().collect();
        let mode = v.get(1).cloned().unwrap_or_else(|| "gen".into());
        let mut a = Args {
            mode,
            seed: 0,
            tier: Tier::Quick,
            out: PathBuf::from("."),
            replay: None,
            extra: BTreeMap::new(),
        };
        let mut i = 2;
        while i < v.len() {
            match v[i].as_str() {
                "--seed" => {
                    a.seed = v[i + 1].parse().expect("seed");
                    i += 2
                }
                "--tier" => {
                    a.tier = match v[i + 1].as_str() {
                        "thorough" => Tier::Thorough,
                        "search" => Tier::Search,
                        _ => Tier::Quick,
                    };
                    i += 2
                }
                "--out" => {
                    a.out = PathBuf::from(&v[i + 1]);
                    i += 2
                }
                s if s.starts_with("--") => {
                    a.extra.insert(s[2..].to_string(), v.get(i + 1).cloned().unwrap_or_default());
                    i += 2
                }
                s => {
                    a.replay = Some(PathBuf::from(s));
                    i += 1
                }
            }
        }
        a
    }
}

/// Writer for one harness run.
pub struct Out {
    ops: BufWriter<File>,
    imp: BufWriter<File>,
    oracle: BufWriter<File>,
    dir: PathBuf,
    pub cases: u64,
    pub oracle_failures: u64,
    nontrivial: BTreeSet<u64>,
    distinct: BTreeSet<u64>,
    hist: BTreeMap<String, u64>,
    samples: Vec<Value>,
    pub extra: BTreeMap<String, Value>,
    max_samples: usize,
}

fn fnv(s: &str) -> u64 {
    let mut h: u64 = 0xcbf29ce484222325;
    for b in s.as_bytes() {
        h ^= *b as u64;
        h = h.wrapping_mul(0x100000001b3);
    }
    h
}

impl Out {
    pub fn new(dir: &PathBuf) -> Out {
        std::fs::create_dir_all(dir).expect("mkdir out");
        let f = |n: &str| BufWriter::new(File::create(dir.join(n)).expect("create"));
        Out {
            ops: f("ops.txt"),
            imp: f("impl.out"),
            oracle: f("oracle.jsonl"),
            dir: dir.clone(),
            cases: 0,
            oracle_failures: 0,
            nontrivial: BTreeSet::new(),
            distinct: BTreeSet::new(),
            hist: BTreeMap::new(),
            samples: vec![],
            extra: BTreeMap::new(),
            max_samples: 4,
        }
    }

    /// Record one case: the request line for the model and the implementation's answer.
    /// `nontrivial`: the property's "nt" rule evaluated by the harness for this case.
    /// Lines must not contain newlines. Returns the case number (0-based line index).
    pub fn case(&mut self, request: &str, impl_answer: &str, nontrivial: bool) -> u64 {
        debug_assert!(!request.contains('\n') && !impl_answer.contains('\n'));
        writeln!(self.ops, "{}", request).unwrap();
        writeln!(self.imp, "{}", impl_answer).unwrap();
        let h = fnv(request);
        self.distinct.insert(h);
        if nontrivial {
            self.nontrivial.insert(h);
        }
        if self.samples.len() < self.max_samples && (nontrivial || self.cases < 1) && request.len() < 600 {
            self.samples.push(json!({"request": request, "impl": impl_answer}));
        }
        self.cases += 1;
        self.cases - 1
    }

    /// Record an oracle failure (the property's own predicate is false on the implementation's
    /// output). `tag` is a stable classification used to match known findings.
    pub fn oracle_fail(&mut self, case: u64, tag: &str, what: &str, request: &str, impl_answer: &str) {
        self.oracle_failures += 1;
        let v = json!({"case": case, "tag": tag, "what": what, "request": request, "impl": impl_answer});
        writeln!(self.oracle, "{}", v).unwrap();
    }

    /// Count something in the input-distribution histogram.
    pub fn count(&mut self, key: &str) {
        *self.hist.entry(key.to_string()).or_insert(0) += 1;
    }
    pub fn count_n(&mut self, key: &str, n: u64) {
        *self.hist.entry(key.to_string()).or_insert(0) += n;
    }

    pub fn finish(mut self, rule: &str, exhaustive: bool) {
        self.ops.flush().unwrap();
        self.imp.flush().unwrap();
        self.oracle.flush().unwrap();
        let stats = json!({
            "evaluations": self.cases,
            "distinct": self.distinct.len(),
            "distinct_nontrivial": self.nontrivial.len(),
            "oracle_failures": self.oracle_failures,
            "rule": rule,
            "exhaustive": exhaustive,
            "distribution": self.hist,
            "samples": self.samples,
            "extra": self.extra,
        });
        std::fs::write(self.dir.join("stats.json"), serde_json::to_string_pretty(&stats).unwrap()).unwrap();
    }
}

/// Run a closure catching panics; `Err(message)` when it panicked.
pub fn catch<T>(f: impl FnOnce() -> T + std::panic::UnwindSafe) -> Result<T, String> {
    let prev = std::panic::take_hook();
    std::panic::set_hook(Box::new(|_| {}));
    let r = std::panic::catch_unwind(f);
    std::panic::set_hook(prev);
    r.map_err(|e| {
        if let Some(s) = e.downcast_ref::<&str>() {
            s.to_string()
        } else if let Some(s) = e.downcast_ref::<String>() {
            s.clone()
        } else {
            "panic".to_string()
        }
    })
}

/// Small stable ids in order of first appearance (for hashes, keys, topics in request lines).
#[derive(Default)]
pub struct Ids {
    map: BTreeMap<Vec<u8>, usize>,
}
impl Ids {
    pub fn id(&mut self, bytes: &[u8]) -> usize {
        let n = self.map.len();
        *self.map.entry(bytes.to_vec()).or_insert(n)
    }
}

pub fn hex(b: &[u8]) -> String {
    b.iter().map(|x| format!("{:02x}", x)).collect()
}
