//! C40 — Topic sync metrics count every session's bytes exactly once.
//! Drives the real `p2panda::streams::sync_metrics::Aggregator` (verif re-export) with
//! interleaved session lifecycles and reads its accessors after every event.
//!
//! Request / answer format: see lean/Drv/C40.lean.
use std::collections::BTreeMap;

use hc::{Args, Out, Rng, Tier};
use p2panda::streams::verif::{Aggregator, verif_process};
use p2panda_core::{Hash, Header, Operation, VerifyingKey};
use p2panda_sync::FromSync;
use p2panda_sync::protocols::{Metrics, TopicLogSyncEvent};

#[derive(Clone, Debug, PartialEq)]
enum Ev {
    Ss,
    Sy(Metrics),
    Op(Metrics),
    Sf(Metrics),
    Lm,
    Fin(Metrics),
    Fail,
}

fn mnums(m: &Metrics) -> [u32; 12] {
    [
        m.outbound_sync_bytes,
        m.outbound_sync_operations,
        m.inbound_sync_bytes,
        m.inbound_sync_operations,
        m.sent_sync_bytes,
        m.sent_sync_operations,
        m.received_sync_bytes,
        m.received_sync_operations,
        m.sent_live_bytes,
        m.sent_live_operations,
        m.received_live_bytes,
        m.received_live_operations,
    ]
}

fn mfrom(n: &[u32]) -> Metrics {
    Metrics {
        outbound_sync_bytes: n[0],
        outbound_sync_operations: n[1],
        inbound_sync_bytes: n[2],
        inbound_sync_operations: n[3],
        sent_sync_bytes: n[4],
        sent_sync_operations: n[5],
        received_sync_bytes: n[6],
        received_sync_operations: n[7],
        sent_live_bytes: n[8],
        sent_live_operations: n[9],
        received_live_bytes: n[10],
        received_live_operations: n[11],
    }
}

fn ev_str(id: u64, e: &Ev) -> String {
    let m = |k: &str, m: &Metrics| {
        let v: Vec<String> = mnums(m).iter().map(|x| x.to_string()).collect();
        format!("{id} {k} {}", v.join(" "))
    };
    match e {
        Ev::Ss => format!("{id} ss"),
        Ev::Lm => format!("{id} lm"),
        Ev::Fail => format!("{id} fail"),
        Ev::Sy(x) => m("sy", x),
        Ev::Op(x) => m("op", x),
        Ev::Sf(x) => m("sf", x),
        Ev::Fin(x) => m("fin", x),
    }
}

fn dummy_operation() -> Box<Operation<()>> {
    Box::new(Operation { hash: Hash::digest(b"c40"), header: Header::default(), body: None })
}

fn to_sync(id: u64, e: &Ev) -> FromSync<TopicLogSyncEvent<()>> {
    let event = match e {
        Ev::Ss => TopicLogSyncEvent::SessionStarted,
        Ev::Sy(m) => TopicLogSyncEvent::SyncStarted { metrics: m.clone() },
        Ev::Op(m) => TopicLogSyncEvent::OperationReceived { operation: dummy_operation(), metrics: m.clone() },
        Ev::Sf(m) => TopicLogSyncEvent::SyncFinished { metrics: m.clone() },
        Ev::Lm => TopicLogSyncEvent::LiveModeStarted,
        Ev::Fin(m) => TopicLogSyncEvent::SessionFinished { metrics: m.clone() },
        Ev::Fail => TopicLogSyncEvent::Failed { error: "connection dropped".into() },
    };
    FromSync { session_id: id, remote: VerifyingKey::default(), event }
}

/// Per-session bookkeeping of the oracle: what the property says the session contributes.
#[derive(Default, Clone)]
struct Sess {
    started: bool,
    ended: bool,
    failed: bool,
    last_seen: (u64, u64),     // last metrics seen (sent, recv)
    last_finish: (u64, u64),   // sent/recv of the last SyncFinished / SessionFinished
    live: bool,
    live_bytes: bool,
    sync_finished: bool,
}

struct Verdict {
    tag: String,
    what: String,
}

/// Runs the events through the real aggregator. `judge` = the sequence is well-formed, so the
/// property's predicate applies after every event.
fn run_events(evs: &[(u64, Ev)], judge: bool) -> Result<(String, Option<Verdict>, bool), String> {
    let evs2 = evs.to_vec();
    hc::catch(move || {
        let mut agg = Aggregator::new();
        let mut outs = vec![];
        let mut sess: BTreeMap<u64, Sess> = BTreeMap::new();
        let mut fail: Option<Verdict> = None;
        let mut nt = false;
        let (mut started, mut ended) = (0u64, 0u64);
        for (k, (id, e)) in evs2.iter().enumerate() {
            let r = verif_process(&mut agg, to_sync(*id, e));
            let (run, sent, recv) = (agg.running_sessions() as u64, agg.total_bytes_sent() as u64, agg.total_bytes_received() as u64);
            let emitted = match &r {
                None => "-".to_string(),
                Some((kind, nums, flag)) => {
                    let v: Vec<String> = nums.iter().map(|x| x.to_string()).collect();
                    match *kind {
                        "SyncStarted" => format!("S:{}", v.join(",")),
                        "SyncEnded" => format!("E:{}:{}", v.join(","), if *flag { "t" } else { "f" }),
                        _ => format!("O:{}:{}", v.join(","), if *flag { "t" } else { "f" }),
                    }
                }
            };
            outs.push(format!("{emitted}/{run},{sent},{recv}"));
            // ---- oracle bookkeeping (independent of the Lean model) ----
            let s = sess.entry(*id).or_default();
            let mb = |m: &Metrics| (m.sent_bytes() as u64, m.received_bytes() as u64);
            match e {
                Ev::Ss => {
                    s.started = true;
                    started += 1;
                }
                Ev::Sy(m) | Ev::Op(m) => {
                    s.last_seen = mb(m);
                    if s.live && (m.sent_live_bytes > 0 || m.received_live_bytes > 0) {
                        s.live_bytes = true;
                    }
                }
                Ev::Sf(m) => {
                    s.last_seen = mb(m);
                    s.last_finish = mb(m);
                    s.sync_finished = true;
                }
                Ev::Lm => s.live = true,
                Ev::Fin(m) => {
                    s.last_seen = mb(m);
                    s.last_finish = mb(m);
                    s.ended = true;
                    ended += 1;
                    if m.sent_live_bytes > 0 || m.received_live_bytes > 0 {
                        s.live_bytes = true;
                    }
                }
                Ev::Fail => {
                    s.ended = true;
                    s.failed = true;
                    ended += 1;
                }
            }
            if let Ev::Fin(_) = e {
                let me_live = sess[id].live_bytes;
                let other_mid_sync = sess.iter().any(|(j, o)| j != id && !o.ended && !o.sync_finished && o.last_seen != (0, 0));
                if me_live && other_mid_sync {
                    nt = true;
                }
            }
            if judge && fail.is_none() {
                // every session contributes: finished / running -> bytes of its last
                // SyncFinished / SessionFinished exactly; failed -> between that and the last
                // metrics seen
                let (mut lo_s, mut hi_s, mut lo_r, mut hi_r) = (0u64, 0u64, 0u64, 0u64);
                for o in sess.values() {
                    lo_s += o.last_finish.0;
                    lo_r += o.last_finish.1;
                    if o.failed {
                        hi_s += o.last_seen.0.max(o.last_finish.0);
                        hi_r += o.last_seen.1.max(o.last_finish.1);
                    } else {
                        hi_s += o.last_finish.0;
                        hi_r += o.last_finish.1;
                    }
                }
                let ev = ev_str(*id, e);
                if sent > hi_s {
                    fail = Some(Verdict { tag: "sent-double-count".into(), what: format!("after event {k} ({ev}): total_bytes_sent = {sent} but the sessions transferred {hi_s} in total") });
                } else if sent < lo_s {
                    fail = Some(Verdict { tag: "sent-under-count".into(), what: format!("after event {k} ({ev}): total_bytes_sent = {sent} < {lo_s}") });
                } else if recv > hi_r {
                    fail = Some(Verdict { tag: "recv-double-count".into(), what: format!("after event {k} ({ev}): total_bytes_received = {recv} but the sessions received {hi_r} in total") });
                } else if recv < lo_r {
                    fail = Some(Verdict { tag: "recv-under-count".into(), what: format!("after event {k} ({ev}): total_bytes_received = {recv} < {lo_r}") });
                } else if sess.values().all(|o| o.started) && run != started - ended {
                    fail = Some(Verdict { tag: "running-count".into(), what: format!("after event {k} ({ev}): running_sessions = {run}, started {started}, ended {ended}") });
                } else if let Some((kind, nums, _)) = &r {
                    if *kind != "SyncStarted" && nums.len() == 7 && (nums[5] != sent || nums[6] != recv) {
                        fail = Some(Verdict { tag: "event-total-mismatch".into(), what: format!("event {k} ({ev}) reports totals {}/{} but the accessors say {sent}/{recv}", nums[5], nums[6]) });
                    }
                }
            }
        }
        (outs.join(" ; "), fail, nt)
    })
}

fn request(evs: &[(u64, Ev)], orig: bool) -> String {
    let v: Vec<String> = evs.iter().map(|(id, e)| ev_str(*id, e)).collect();
    format!("{}{}", if orig { "orig " } else { "" }, v.join(" ; "))
}

fn emit(out: &mut Out, evs: &[(u64, Ev)], judge: bool, orig: bool) {
    let req = request(evs, orig);
    out.count(if judge { "well-formed interleaving" } else { "adversarial sequence (correspondence only)" });
    out.count_n("events", evs.len() as u64);
    for (_, e) in evs {
        out.count(match e {
            Ev::Ss => "ev=SessionStarted",
            Ev::Sy(_) => "ev=SyncStarted",
            Ev::Op(_) => "ev=OperationReceived",
            Ev::Sf(_) => "ev=SyncFinished",
            Ev::Lm => "ev=LiveModeStarted",
            Ev::Fin(_) => "ev=SessionFinished",
            Ev::Fail => "ev=Failed",
        });
    }
    match run_events(evs, judge) {
        Ok((ans, fail, nt)) => {
            let n = out.case(&req, &ans, nt && judge);
            if let Some(v) = fail {
                out.oracle_fail(n, &v.tag, &v.what, &req, &ans);
            }
        }
        Err(p) => {
            let n = out.case(&req, "PANIC", false);
            out.oracle_fail(n, "panic", &p, &req, "PANIC");
        }
    }
}

fn grow(rng: &mut Rng, x: &mut u32) {
    *x += match rng.below(4) {
        0 => 0,
        1 => 1,
        _ => rng.below(2000) as u32,
    };
}

/// One session's lifecycle following the documented grammar, metrics cumulative.
fn lifecycle(rng: &mut Rng, with_start: bool) -> Vec<Ev> {
    let mut v = vec![];
    if with_start {
        v.push(Ev::Ss);
    }
    let fail_at = if rng.chance(1, 3) { rng.below(6) } else { 99 };
    if fail_at == 0 {
        v.push(Ev::Fail);
        return v;
    }
    let mut m = Metrics::default();
    m.outbound_sync_bytes = rng.below(5000) as u32;
    m.outbound_sync_operations = rng.below(20) as u32;
    m.inbound_sync_bytes = rng.below(5000) as u32;
    m.inbound_sync_operations = rng.below(20) as u32;
    v.push(Ev::Sy(m.clone()));
    if fail_at == 1 {
        v.push(Ev::Fail);
        return v;
    }
    for _ in 0..rng.below(4) {
        grow(rng, &mut m.received_sync_bytes);
        m.received_sync_operations += 1;
        grow(rng, &mut m.sent_sync_bytes);
        m.sent_sync_operations += rng.below(2) as u32;
        v.push(Ev::Op(m.clone()));
    }
    if fail_at == 2 {
        v.push(Ev::Fail);
        return v;
    }
    grow(rng, &mut m.sent_sync_bytes);
    grow(rng, &mut m.received_sync_bytes);
    v.push(Ev::Sf(m.clone()));
    if fail_at == 3 {
        v.push(Ev::Fail);
        return v;
    }
    if rng.chance(2, 3) {
        v.push(Ev::Lm);
        for _ in 0..rng.below(4) {
            grow(rng, &mut m.received_live_bytes);
            m.received_live_operations += 1;
            grow(rng, &mut m.sent_live_bytes);
            m.sent_live_operations += rng.below(2) as u32;
            v.push(Ev::Op(m.clone()));
        }
        if fail_at == 4 {
            v.push(Ev::Fail);
            return v;
        }
        grow(rng, &mut m.sent_live_bytes);
        grow(rng, &mut m.received_live_bytes);
    }
    if fail_at == 5 {
        v.push(Ev::Fail);
        return v;
    }
    v.push(Ev::Fin(m));
    v
}

fn interleave(rng: &mut Rng, mut lives: Vec<(u64, Vec<Ev>)>) -> Vec<(u64, Ev)> {
    let mut out = vec![];
    for l in lives.iter_mut() {
        l.1.reverse();
    }
    while !lives.is_empty() {
        let i = rng.below(lives.len() as u64) as usize;
        // bias towards finishing one session's burst
        let burst = 1 + rng.below(3);
        for _ in 0..burst {
            if let Some(e) = lives[i].1.pop() {
                out.push((lives[i].0, e));
            }
        }
        if lives[i].1.is_empty() {
            lives.remove(i);
        }
    }
    out
}

fn gen_wellformed(rng: &mut Rng) -> Vec<(u64, Ev)> {
    let n = rng.range(1, 6);
    let with_start = rng.chance(1, 2); // the pinned event source never emits SessionStarted (C22)
    let lives = (0..n).map(|i| (i + 1, lifecycle(rng, with_start))).collect();
    interleave(rng, lives)
}

/// Sequences outside the grammar: events after the end, repeated/misplaced SessionStarted,
/// decreasing metrics, unknown sessions. Only the model/implementation agreement is checked.
fn gen_adversarial(rng: &mut Rng) -> Vec<(u64, Ev)> {
    let n = rng.range(1, 25);
    (0..n)
        .map(|_| {
            let id = rng.range(1, 3);
            let mut nums = [0u32; 12];
            for x in nums.iter_mut() {
                *x = if rng.chance(1, 2) { 0 } else { rng.below(500) as u32 };
            }
            let m = mfrom(&nums);
            let e = match rng.below(7) {
                0 => Ev::Ss,
                1 => Ev::Sy(m),
                2 => Ev::Op(m),
                3 => Ev::Sf(m),
                4 => Ev::Lm,
                5 => Ev::Fin(m),
                _ => Ev::Fail,
            };
            (id, e)
        })
        .collect()
}

fn parse_request(req: &str) -> Option<(Vec<(u64, Ev)>, bool)> {
    let mut ts: Vec<&str> = req.split_whitespace().collect();
    let orig = ts.first() == Some(&"orig");
    if orig {
        ts.remove(0);
    }
    let mut evs = vec![];
    for part in ts.split(|t| *t == ";") {
        let id: u64 = part.first()?.parse().ok()?;
        let kind = *part.get(1)?;
        let nums: Option<Vec<u32>> = part[2..].iter().map(|x| x.parse().ok()).collect();
        let nums = nums?;
        let e = match (kind, nums.len()) {
            ("ss", 0) => Ev::Ss,
            ("lm", 0) => Ev::Lm,
            ("fail", 0) => Ev::Fail,
            ("sy", 12) => Ev::Sy(mfrom(&nums)),
            ("op", 12) => Ev::Op(mfrom(&nums)),
            ("sf", 12) => Ev::Sf(mfrom(&nums)),
            ("fin", 12) => Ev::Fin(mfrom(&nums)),
            _ => return None,
        };
        evs.push((id, e));
    }
    Some((evs, orig))
}

/// Well-formedness as the theorems require it (per session: nothing after the end,
/// SessionStarted only first, metrics non-decreasing).
fn wellformed(evs: &[(u64, Ev)]) -> bool {
    let mut st: BTreeMap<u64, (bool, bool, (u32, u32))> = BTreeMap::new(); // seen, ended, last
    for (id, e) in evs {
        let s = st.entry(*id).or_insert((false, false, (0, 0)));
        if s.1 {
            return false;
        }
        match e {
            Ev::Ss => {
                if s.0 {
                    return false;
                }
            }
            Ev::Sy(m) | Ev::Op(m) | Ev::Sf(m) | Ev::Fin(m) => {
                let b = (m.sent_bytes(), m.received_bytes());
                if b.0 < s.2.0 || b.1 < s.2.1 {
                    return false;
                }
                s.2 = b;
            }
            _ => {}
        }
        s.0 = true;
        if matches!(e, Ev::Fin(_) | Ev::Fail) {
            s.1 = true;
        }
    }
    true
}

fn malformed(out: &mut Out) {
    for l in [
        "1 sf 1 2 3",                       // too few counters
        "1 sf 0 0 0 0 0 0 0 0 0 0 0 0 0",   // too many
        "1 ss 5",                           // counters on an event without metrics
        "x ss",                             // session id not a number
        "1 boom",                           // unknown kind
        "1 ss ; ; 1 fail",                  // empty event
        "1 fin 0 0 0 0 -1 0 0 0 0 0 0 0",   // negative
        "orig",
        "",
    ] {
        out.case(l, "bad-op", false);
        out.count("malformed line");
    }
}

fn main() {
    let args = Args::parse();
    let mut out = Out::new(&args.out);
    let orig = args.extra.get("model").map(|s| s == "orig").unwrap_or(false);
    if args.mode == "replay" {
        let text = std::fs::read_to_string(args.replay.as_ref().expect("replay file")).unwrap();
        let v: hc::serde_json::Value = hc::serde_json::from_str(&text).unwrap();
        let req = v["request"].as_str().unwrap().to_string();
        match parse_request(&req) {
            Some((evs, o)) => emit(&mut out, &evs, wellformed(&evs), o),
            None => {
                out.case(&req, "bad-op", false);
            }
        }
        out.finish("replay", false);
        return;
    }
    let mut rng = Rng::new(args.seed);
    if let Ok(rd) = std::fs::read_dir("/verif/corpus/C40") {
        let mut files: Vec<_> = rd.filter_map(|e| e.ok()).map(|e| e.path()).collect();
        files.sort();
        for f in files {
            if let Ok(text) = std::fs::read_to_string(&f) {
                if let Ok(v) = hc::serde_json::from_str::<hc::serde_json::Value>(&text) {
                    if let Some((evs, _)) = v["request"].as_str().and_then(parse_request) {
                        emit(&mut out, &evs, wellformed(&evs), orig);
                        out.count("corpus case");
                    }
                }
            }
        }
    }
    malformed(&mut out);
    let (n_wf, n_adv) = match args.tier {
        Tier::Quick => (20_000, 5_000),
        Tier::Thorough => (200_000, 40_000),
        Tier::Search => (60_000, 5_000),
    };
    for _ in 0..n_wf {
        let evs = gen_wellformed(&mut rng);
        emit(&mut out, &evs, true, orig);
    }
    for _ in 0..n_adv {
        let evs = gen_adversarial(&mut rng);
        let wf = wellformed(&evs);
        emit(&mut out, &evs, wf, orig);
    }
    out.finish(
        "random interleavings of 1-6 session lifecycles following the documented grammar (with / without SessionStarted, with / without live phase, failing in any phase, cumulative metrics growing by random amounts) fed to the real Aggregator, accessors read and emitted event compared after every event; plus adversarial sequences outside the grammar (events after the end, misplaced SessionStarted, decreasing metrics) checked for model agreement only. non-trivial = a session with live-phase bytes finishes normally while another session is mid-sync",
        false,
    );
}
