//! C23 — Live mode forwards every new operation once to every other session.
//! Drives the real `TopicSyncManager` (+ `ManagerEventStream`, `SessionTopicMap`) with 2–5 real
//! `TopicLogSync` sessions on 1–2 topics. Every session's remote end is played by the harness
//! over in-memory channels: a trivially empty sync phase (`Have{}`, `Done`), then raw `Live`
//! messages. Session futures and the manager event stream are polled by hand, so the
//! interleaving is exactly the one written in the request line.
//!
//! Request: `<consumer cap> ; <sid>:<topic>:<live>:<cap> … ; <action> …` (see lean/Drv/C23.lean)
use std::collections::{BTreeMap, BTreeSet, HashMap};
use std::future::Future;
use std::pin::Pin;
use std::task::Poll;
use std::time::Duration;

use futures::channel::mpsc;
use futures::{SinkExt, Stream, StreamExt};
use hc::{Args, Out, Rng, Tier};
use p2panda_core::{Body, Hash, Header, Operation, SigningKey, Topic};
use p2panda_store::SqliteStore;
use p2panda_sync::manager::TopicSyncManager;
use p2panda_sync::protocols::{LogSyncMessage, TopicLogSyncError, TopicLogSyncEvent, TopicLogSyncMessage};
use p2panda_sync::traits::{Manager, Protocol};
use p2panda_sync::{FromSync, SessionConfig, ToSync};

type Ext = usize;
type LogId = usize;
type Msg = TopicLogSyncMessage<LogId, Ext>;
type Mgr = TopicSyncManager<Topic, SqliteStore, LogId, Ext>;
type Ev = FromSync<TopicLogSyncEvent<Ext>>;

const CONSUMER_CAP: usize = 1024; // DeduplicationBuffer::default() in ManagerEventStreamState

/// `CHANNEL_BUFFER` of p2panda-sync/src/manager/mod.rs (private), read from the source text the
/// harness is compiled against: capacity of every session's live channel and event channel.
fn channel_buffer() -> usize {
    let src = include_str!("/repo/p2panda-sync/src/manager/mod.rs");
    let key = "static CHANNEL_BUFFER: usize =";
    let i = src.find(key).expect("CHANNEL_BUFFER in manager/mod.rs");
    src[i + key.len()..].trim_start().chars().take_while(|c| c.is_ascii_digit() || *c == '_').filter(|c| *c != '_').collect::<String>().parse().expect("CHANNEL_BUFFER value")
}

#[derive(Clone, Debug)]
struct SessSpec {
    sid: u64,
    topic: usize,
    live: bool,
    cap: usize,
}

#[derive(Clone, Debug, PartialEq)]
enum Act {
    R(u64, usize),
    P(u64, usize),
    S(u64),
    C(u64),
    /// sync phase of the session, its remote sending these operations
    Y(u64, Vec<usize>),
}

struct Pool {
    ops: Vec<Operation<Ext>>,
    by_hash: HashMap<Hash, usize>,
    keys: Vec<SigningKey>,
    topics: Vec<Topic>,
}

impl Pool {
    fn new(rng: &mut Rng, n: usize) -> Pool {
        let keys: Vec<SigningKey> = (0..6)
            .map(|_| {
                let b: [u8; 32] = rng.bytes(32).try_into().unwrap();
                SigningKey::from_bytes(&b)
            })
            .collect();
        let mut ops = vec![];
        let mut by_hash = HashMap::new();
        for i in 0..n {
            let key = &keys[i % keys.len()];
            let body = Body::new(format!("op {i}").as_bytes());
            let mut header = Header::<Ext> {
                version: 1,
                verifying_key: key.verifying_key(),
                signature: None,
                payload_size: body.size(),
                payload_hash: Some(body.hash()),
                seq_num: 0,
                backlink: None,
                extensions: i,
            };
            header.sign(key);
            let hash = header.hash();
            by_hash.insert(hash, i);
            ops.push(Operation { hash, header, body: Some(body) });
        }
        let topics = (0..3)
            .map(|_| {
                let b: [u8; 32] = rng.bytes(32).try_into().unwrap();
                Topic::from(b)
            })
            .collect();
        Pool { ops, by_hash, keys, topics }
    }
}

struct SessRt {
    own_events: tokio::sync::broadcast::Receiver<TopicLogSyncEvent<Ext>>,
    live: bool,
    synced: bool,
    fut: Option<Pin<Box<dyn Future<Output = Result<(), TopicLogSyncError>>>>>,
    to_node: mpsc::UnboundedSender<Result<Msg, String>>,
    from_node: mpsc::UnboundedReceiver<Msg>,
    sent: Vec<usize>,
    sync_msgs: Vec<String>,
    result: Option<String>,
}

struct FlowOut {
    sent: BTreeMap<u64, Vec<usize>>,
    reports: Vec<(u64, usize)>,
    anomalies: Vec<String>,
}

fn collect_out(s: &mut SessRt, pool: &Pool, anomalies: &mut Vec<String>, sid: u64, live_phase: bool) {
    while let Ok(Some(m)) = s.from_node.try_next() {
        match m {
            TopicLogSyncMessage::Live(h, _) => match pool.by_hash.get(&h.hash()) {
                Some(i) => s.sent.push(*i),
                None => anomalies.push(format!("session {sid} sent an unknown operation")),
            },
            TopicLogSyncMessage::Sync(m) => {
                if live_phase {
                    anomalies.push(format!("session {sid} sent a sync message in live mode"));
                }
                s.sync_msgs.push(m.to_string());
            }
            TopicLogSyncMessage::Close => anomalies.push(format!("session {sid} sent Close")),
        }
    }
}

async fn poll_sess(s: &mut SessRt) {
    for _ in 0..2 {
        if let Some(f) = s.fut.as_mut() {
            if let Poll::Ready(r) = futures::poll!(f.as_mut()) {
                s.result = Some(match r {
                    Ok(()) => "ok".into(),
                    Err(e) => format!("err: {e}"),
                });
                s.fut = None;
            }
        }
    }
}

/// Poll the manager stream until it is pending twice in a row; returns all events.
async fn drain_events(stream: &mut (impl Stream<Item = Ev> + Unpin)) -> Vec<Ev> {
    let mut out = vec![];
    let mut pend = 0;
    while pend < 2 {
        match futures::poll!(stream.next()) {
            Poll::Ready(Some(e)) => {
                pend = 0;
                out.push(e)
            }
            Poll::Ready(None) => break,
            Poll::Pending => {
                pend += 1;
                tokio::task::yield_now().await;
            }
        }
    }
    out
}

async fn run_flow(store: &SqliteStore, pool: &Pool, sess: &[SessSpec], acts: &[Act], subscribe_first: bool) -> FlowOut {
    let mut anomalies = vec![];
    let mut mgr: Mgr = TopicSyncManager::new(store.clone());
    let mut stream_opt = if subscribe_first { Some(mgr.subscribe()) } else { None };
    let mut rts: BTreeMap<u64, SessRt> = BTreeMap::new();
    for (i, sp) in sess.iter().enumerate() {
        let config = SessionConfig { topic: pool.topics[sp.topic], remote: pool.keys[i % pool.keys.len()].verifying_key(), live_mode: sp.live };
        let mut proto = mgr.session(sp.sid, &config).await;
        proto.buffer_capacity = sp.cap;
        let own_events = proto.event_tx.subscribe();
        let (tx_out, rx_out) = mpsc::unbounded::<Msg>();
        let (tx_in, rx_in) = mpsc::unbounded::<Result<Msg, String>>();
        let fut: Pin<Box<dyn Future<Output = Result<(), TopicLogSyncError>>>> = Box::pin(async move {
            let mut sink = tx_out;
            let mut stream = rx_in;
            proto.run(&mut sink, &mut stream).await
        });
        rts.insert(sp.sid, SessRt { own_events, live: sp.live, synced: false, fut: Some(fut), to_node: tx_in, from_node: rx_out, sent: vec![], sync_msgs: vec![], result: None });
    }
    let mut stream = match stream_opt.take() {
        Some(s) => s,
        None => mgr.subscribe(),
    };
    let mut reports: Vec<(u64, usize)> = vec![];
    // ---- live phase: exactly the schedule of the request ----
    for a in acts {
        match a {
            Act::R(sid, op) => {
                let o = &pool.ops[*op];
                let _ = rts.get_mut(sid).unwrap().to_node.unbounded_send(Ok(TopicLogSyncMessage::Live(o.header.clone(), o.body.clone())));
            }
            Act::P(sid, op) => {
                if let Some(mut h) = mgr.session_handle(*sid).await {
                    let _ = h.send(ToSync::Payload(pool.ops[*op].clone())).await;
                } else {
                    anomalies.push(format!("no session handle for {sid}"));
                }
            }
            Act::S(sid) => {
                let s = rts.get_mut(sid).unwrap();
                if !s.synced {
                    anomalies.push(format!("harness: S{sid} before Y{sid}"));
                }
                poll_sess(s).await;
                collect_out(s, pool, &mut anomalies, *sid, true);
            }
            Act::Y(sid, ops) => {
                // the remote's side of the sync phase: Have{}, [PreSync, Operation*], Done
                let s = rts.get_mut(sid).unwrap();
                s.synced = true;
                let mut msgs = vec![LogSyncMessage::Have(BTreeMap::new())];
                if !ops.is_empty() {
                    let bytes: usize = ops.iter().map(|o| pool.ops[*o].header.to_bytes().len() + pool.ops[*o].body.as_ref().map(|b| b.to_bytes().len()).unwrap_or(0)).sum();
                    msgs.push(LogSyncMessage::PreSync { total_operations: ops.len() as u32, total_bytes: bytes as u32 });
                    for o in ops {
                        let op = &pool.ops[*o];
                        msgs.push(LogSyncMessage::Operation(op.header.to_bytes(), op.body.as_ref().map(|b| b.to_bytes())));
                    }
                }
                msgs.push(LogSyncMessage::Done);
                for m in msgs {
                    let _ = s.to_node.unbounded_send(Ok(TopicLogSyncMessage::Sync(m)));
                }
                let mut spins = 0;
                loop {
                    poll_sess(s).await;
                    let mut live_started = false;
                    while let Ok(e) = s.own_events.try_recv() {
                        if let TopicLogSyncEvent::LiveModeStarted = e {
                            live_started = true;
                        }
                    }
                    if (s.live && live_started) || s.result.is_some() {
                        break;
                    }
                    spins += 1;
                    if spins > 20000 {
                        anomalies.push(format!("sync phase of session {sid} did not complete"));
                        break;
                    }
                    tokio::time::sleep(Duration::from_micros(100)).await;
                }
                if s.live {
                    // first live-mode poll: the live channel is emptied
                    poll_sess(s).await;
                }
                collect_out(s, pool, &mut anomalies, *sid, false);
                if s.sync_msgs != vec!["have".to_string(), "done".to_string()] {
                    anomalies.push(format!("session {sid} sync phase sent {:?}", s.sync_msgs));
                }
                if !s.live && s.result.as_deref() != Some("ok") {
                    anomalies.push(format!("session {sid} without live mode ended with {:?}", s.result));
                }
            }
            Act::C(_) => {
                for e in drain_events(&mut stream).await {
                    if let TopicLogSyncEvent::OperationReceived { operation, .. } = &e.event {
                        match pool.by_hash.get(&operation.hash) {
                            Some(i) => reports.push((e.session_id, *i)),
                            None => anomalies.push("unknown operation reported".into()),
                        }
                    } else if let TopicLogSyncEvent::Failed { error } = &e.event {
                        anomalies.push(format!("session {} failed: {error}", e.session_id));
                    }
                }
            }
        }
    }
    for sp in sess {
        let s = rts.get_mut(&sp.sid).unwrap();
        if sp.live {
            if let Some(r) = &s.result {
                anomalies.push(format!("live session {} ended: {r}", sp.sid));
            }
        }
    }
    FlowOut { sent: rts.iter().map(|(k, v)| (*k, v.sent.clone())).collect(), reports, anomalies }
}

fn req_line(sess: &[SessSpec], acts: &[Act]) -> String {
    let s: Vec<String> = sess.iter().map(|s| format!("{}:{}:{}:{}", s.sid, s.topic, s.live as u8, s.cap)).collect();
    let a: Vec<String> = acts
        .iter()
        .map(|a| match a {
            Act::R(s, o) => format!("R{s}:{o}"),
            Act::P(s, o) => format!("P{s}:{o}"),
            Act::S(s) => format!("S{s}"),
            Act::C(s) => format!("C{s}"),
            Act::Y(s, ops) => {
                if ops.is_empty() {
                    format!("Y{s}")
                } else {
                    format!("Y{s}:{}", ops.iter().map(|o| o.to_string()).collect::<Vec<_>>().join(","))
                }
            }
        })
        .collect();
    format!("{} ; {} ; {}", CONSUMER_CAP, s.join(" "), a.join(" ")).trim().to_string()
}

fn ans_line(sess: &[SessSpec], o: &FlowOut) -> String {
    let mut parts: Vec<String> = sess
        .iter()
        .map(|s| {
            let v = &o.sent[&s.sid];
            format!("{}={}", s.sid, if v.is_empty() { "-".to_string() } else { v.iter().map(|x| x.to_string()).collect::<Vec<_>>().join(",") })
        })
        .collect();
    parts.push("|".into());
    if o.reports.is_empty() {
        parts.push("-".into());
    } else {
        parts.extend(o.reports.iter().map(|(s, x)| format!("{s}.{x}")));
    }
    parts.join(" ")
}

/// The property judged directly on what the implementation did (independent of the Lean model).
fn oracle(out: &mut Out, n: u64, req: &str, ans: &str, sess: &[SessSpec], acts: &[Act], o: &FlowOut, quiesced: bool) {
    for a in &o.anomalies {
        out.oracle_fail(n, "anomaly", a, req, ans);
    }
    let spec: BTreeMap<u64, &SessSpec> = sess.iter().map(|s| (s.sid, s)).collect();
    // inputs per topic / per session
    let mut r_in: BTreeMap<u64, BTreeSet<usize>> = BTreeMap::new();
    let mut p_in: BTreeMap<u64, BTreeSet<usize>> = BTreeMap::new();
    let mut topic_in: BTreeMap<usize, BTreeSet<usize>> = BTreeMap::new();
    let mut published_on_topic: BTreeMap<usize, BTreeSet<usize>> = BTreeMap::new();
    let mut distinct: BTreeSet<usize> = BTreeSet::new();
    for a in acts {
        match a {
            Act::R(s, x) => {
                distinct.insert(*x);
                if spec[s].live {
                    r_in.entry(*s).or_default().insert(*x);
                    topic_in.entry(spec[s].topic).or_default().insert(*x);
                }
            }
            Act::P(s, x) => {
                distinct.insert(*x);
                if spec[s].live {
                    p_in.entry(*s).or_default().insert(*x);
                    topic_in.entry(spec[s].topic).or_default().insert(*x);
                    published_on_topic.entry(spec[s].topic).or_default().insert(*x);
                }
            }
            Act::Y(s, ops) => {
                // sync-phase operations are received from the session's remote, live mode or not
                for x in ops {
                    distinct.insert(*x);
                    r_in.entry(*s).or_default().insert(*x);
                    topic_in.entry(spec[s].topic).or_default().insert(*x);
                }
            }
            _ => {}
        }
    }
    let empty = BTreeSet::new();
    // (a) nothing crosses topics, nothing comes from nowhere; a session without live mode is silent
    for s in sess {
        for x in &o.sent[&s.sid] {
            if !s.live {
                out.oracle_fail(n, "non-live-sent", &format!("session {} without live mode sent Live({x})", s.sid), req, ans);
            } else if !topic_in.get(&s.topic).unwrap_or(&empty).contains(x) {
                out.oracle_fail(n, "cross-topic", &format!("session {} (topic {}) sent operation {x} that never entered through its topic", s.sid, s.topic), req, ans);
            } else {
                // whatever the windows: an operation can only be offered to a session by a publish on it
                // or by *another* session of the topic that got it from its remote
                let published_here = p_in.get(&s.sid).unwrap_or(&empty).contains(x);
                let from_others = sess.iter().any(|t| t.sid != s.sid && t.topic == s.topic && r_in.get(&t.sid).unwrap_or(&empty).contains(x));
                if !published_here && !from_others {
                    out.oracle_fail(n, "echo-sole-source", &format!("session {} sent operation {x} to its remote, the only peer it ever came from", s.sid), req, ans);
                }
            }
        }
    }
    for (s, x) in &o.reports {
        if !r_in.get(s).unwrap_or(&empty).contains(x) {
            out.oracle_fail(n, "report-origin", &format!("operation {x} reported for session {s} whose remote never sent it"), req, ans);
        }
    }
    // (b) windows that cannot overflow: strictly at most once
    let no_evict_c = distinct.len() <= CONSUMER_CAP;
    for s in sess {
        if distinct.len() <= s.cap {
            let v = &o.sent[&s.sid];
            let set: BTreeSet<_> = v.iter().collect();
            if set.len() != v.len() {
                out.oracle_fail(n, "dup-send", &format!("session {} sent an operation twice within its window", s.sid), req, ans);
            }
            // (c) echo: accepted from its own remote (visible as a report of that session) and also sent to it
            for (rs, x) in &o.reports {
                if *rs == s.sid && v.contains(x) {
                    out.oracle_fail(n, "echo", &format!("session {} sent operation {x} back to the remote it came from", s.sid), req, ans);
                }
            }
        }
    }
    if no_evict_c {
        let set: BTreeSet<_> = o.reports.iter().map(|r| r.1).collect();
        if set.len() != o.reports.len() {
            out.oracle_fail(n, "dup-report", "an operation was reported twice to the consumer within its window", req, ans);
        }
    }
    // (d) forward to all others / report once — for quiesced flows whose windows cannot overflow
    if quiesced && sess.iter().all(|s| distinct.len() <= s.cap && s.live) {
        for s in sess.iter().filter(|s| s.live) {
            let pubs = published_on_topic.get(&s.topic).unwrap_or(&empty);
            for x in topic_in.get(&s.topic).unwrap_or(&empty) {
                if pubs.contains(x) {
                    // published copies stay on their own session; whether a remote copy is still
                    // new there depends on the order — left to the model comparison
                    continue;
                }
                let from_others = sess.iter().any(|t| t.sid != s.sid && t.live && t.topic == s.topic && r_in.get(&t.sid).unwrap_or(&empty).contains(x));
                let own = r_in.get(&s.sid).unwrap_or(&empty).contains(x);
                if from_others && !own && !o.sent[&s.sid].contains(x) {
                    out.oracle_fail(n, "not-forwarded", &format!("operation {x} received on topic {} was never sent by live session {}", s.topic, s.sid), req, ans);
                }
                if no_evict_c && !o.reports.iter().any(|r| r.1 == *x) {
                    out.oracle_fail(n, "not-reported", &format!("operation {x} was never reported to the consumer"), req, ans);
                }
            }
            for x in p_in.get(&s.sid).unwrap_or(&empty) {
                let own = r_in.get(&s.sid).unwrap_or(&empty).contains(x);
                if !own && !o.sent[&s.sid].contains(x) {
                    out.oracle_fail(n, "publish-lost", &format!("operation {x} published on session {} was never sent", s.sid), req, ans);
                }
            }
        }
    }
}

fn emit(rt: &tokio::runtime::Runtime, store: &SqliteStore, pool: &Pool, out: &mut Out, sess: &[SessSpec], acts: &[Act], subscribe_first: bool, quiesced: bool) {
    let o = rt.block_on(run_flow(store, pool, sess, acts, subscribe_first));
    let req = req_line(sess, acts);
    let ans = ans_line(sess, &o);
    // nt: one operation reached the node through >= 2 sessions and a window eviction showed
    let mut via: BTreeMap<usize, BTreeSet<u64>> = BTreeMap::new();
    for a in acts {
        if let Act::R(s, x) = a {
            via.entry(*x).or_default().insert(*s);
        }
        if let Act::Y(s, ops) = a {
            for x in ops {
                via.entry(*x).or_default().insert(*s);
            }
        }
    }
    let multi = via.values().any(|v| v.len() >= 2);
    let evicted = o.sent.values().any(|v| v.iter().collect::<BTreeSet<_>>().len() != v.len())
        || o.reports.iter().map(|r| r.1).collect::<BTreeSet<_>>().len() != o.reports.len();
    let n = out.case(&req, &ans, multi && evicted);
    out.count(&format!("sessions={}", sess.len()));
    out.count(&format!("topics={}", sess.iter().map(|s| s.topic).collect::<BTreeSet<_>>().len()));
    out.count(&format!("actions={}", match acts.len() { 0..=20 => "<=20", 21..=60 => "21-60", 61..=200 => "61-200", _ => ">200" }));
    if multi {
        out.count("op arrives through >=2 sessions");
    }
    if evicted {
        out.count("window eviction visible (re-send / re-report)");
    }
    if sess.iter().any(|s| !s.live) {
        out.count("has session without live mode");
    }
    out.count(if subscribe_first { "subscribe before sessions" } else { "subscribe after sessions" });
    out.count_n("live messages sent", o.sent.values().map(|v| v.len() as u64).sum());
    out.count_n("events reported", o.reports.len() as u64);
    out.count_n("sync-phase operations", acts.iter().map(|a| if let Act::Y(_, o) = a { o.len() as u64 } else { 0 }).sum());
    out.count_n("remote inputs", acts.iter().filter(|a| matches!(a, Act::R(..))).count() as u64);
    out.count_n("publish inputs", acts.iter().filter(|a| matches!(a, Act::P(..))).count() as u64);
    oracle(out, n, &req, &ans, sess, acts, &o, quiesced);
}

fn gen_sessions(rng: &mut Rng, caps: &[usize]) -> Vec<SessSpec> {
    let n = rng.range(2, 5) as usize;
    let ntop = rng.range(1, 2) as usize;
    let base = rng.below(50);
    let stride = rng.range(1, 4);
    (0..n)
        .map(|i| SessSpec {
            sid: base + (i as u64) * stride, // distinct ids
            topic: if ntop == 1 { 0 } else { rng.below(2) as usize },
            live: !rng.chance(1, 10),
            cap: *rng.pick(caps),
        })
        .collect()
}

/// Random flow: bursts of remote / publish inputs, then a poll of one session followed by the
/// consumer draining that session's events; optionally a final quiescing round.
fn gen_flow(rng: &mut Rng, sess: &[SessSpec], alphabet: usize, len: usize, quiesce: bool) -> Vec<Act> {
    let mut acts = vec![];
    let all: Vec<u64> = sess.iter().map(|s| s.sid).collect();
    // every session runs its sync phase (mostly empty, sometimes with a few operations) before
    // anything is delivered to it; some sessions start late, while forwards/publishes queue up
    let mut order = all.clone();
    rng.shuffle(&mut order);
    let mut late: Vec<u64> = vec![];
    let mut sids: Vec<u64> = vec![];
    let sync_ops = |rng: &mut Rng| -> Vec<usize> {
        if rng.chance(2, 3) { vec![] } else { (0..rng.range(1, 3)).map(|_| rng.below(alphabet as u64) as usize).collect() }
    };
    for s in order {
        if rng.chance(1, 5) && !sids.is_empty() {
            late.push(s);
        } else {
            let ops = sync_ops(rng);
            acts.push(Act::Y(s, ops));
            acts.push(Act::C(s));
            sids.push(s);
        }
    }
    if sids.is_empty() {
        let s = late.pop().unwrap();
        acts.push(Act::Y(s, vec![]));
        acts.push(Act::C(s));
        sids.push(s);
    }
    while acts.len() < len || !late.is_empty() {
        if !late.is_empty() && rng.chance(1, 3) {
            let s = late.pop().unwrap();
            let ops = sync_ops(rng);
            acts.push(Act::Y(s, ops));
            acts.push(Act::C(s));
            sids.push(s);
        }
        for _ in 0..rng.range(1, 4) {
            let sid = *rng.pick(&sids);
            let op = rng.below(alphabet as u64) as usize;
            if rng.chance(1, 6) {
                // publishes may also go to sessions that have not started yet
                acts.push(Act::P(*rng.pick(&all), op));
            } else {
                acts.push(Act::R(sid, op));
                // the same operation arriving through a second session right away
                if rng.chance(1, 3) {
                    acts.push(Act::R(*rng.pick(&sids), op));
                }
            }
        }
        for _ in 0..rng.range(1, 3) {
            let sid = *rng.pick(&sids);
            acts.push(Act::S(sid));
            acts.push(Act::C(sid));
        }
    }
    if quiesce {
        for _ in 0..2 {
            for s in &sids {
                acts.push(Act::S(*s));
                acts.push(Act::C(*s));
            }
        }
    }
    acts
}

fn parse_req(req: &str) -> (Vec<SessSpec>, Vec<Act>) {
    let parts: Vec<&str> = req.split(';').collect();
    let sess = parts[1]
        .split_whitespace()
        .map(|t| {
            let f: Vec<usize> = t.split(':').map(|x| x.parse().unwrap()).collect();
            SessSpec { sid: f[0] as u64, topic: f[1], live: f[2] == 1, cap: f[3] }
        })
        .collect();
    let acts = parts
        .get(2)
        .unwrap_or(&"")
        .split_whitespace()
        .map(|t| {
            let (c, r) = t.split_at(1);
            if c == "Y" {
                let mut it = r.split(':');
                let sid: u64 = it.next().unwrap().parse().unwrap();
                let ops: Vec<usize> = it.next().map(|o| o.split(',').map(|x| x.parse().unwrap()).collect()).unwrap_or_default();
                return Act::Y(sid, ops);
            }
            let f: Vec<usize> = r.split(':').map(|x| x.parse().unwrap()).collect();
            match c {
                "R" => Act::R(f[0] as u64, f[1]),
                "P" => Act::P(f[0] as u64, f[1]),
                "S" => Act::S(f[0] as u64),
                _ => Act::C(f[0] as u64),
            }
        })
        .collect();
    (sess, acts)
}

fn main() {
    let args = Args::parse();
    let mut out = Out::new(&args.out);
    let rt = tokio::runtime::Builder::new_current_thread().enable_all().build().unwrap();
    let mut rng = Rng::new(args.seed);
    let pool = Pool::new(&mut rng, 1200);
    let store = rt.block_on(SqliteStore::temporary());
    if args.mode == "replay" {
        let text = std::fs::read_to_string(args.replay.as_ref().expect("replay file")).unwrap();
        let v: hc::serde_json::Value = hc::serde_json::from_str(&text).unwrap();
        let (sess, acts) = parse_req(v["request"].as_str().unwrap());
        emit(&rt, &store, &pool, &mut out, &sess, &acts, true, false);
        out.finish("replay", false);
        return;
    }
    let (n_small, n_window, n_big) = match args.tier {
        Tier::Quick => (500, 500, 2),
        Tier::Thorough => (8000, 8000, 12),
        Tier::Search => (3000, 3000, 4),
    };
    // fixed scenarios first: the three-peer forwarding of the repo's own test, an echo attempt,
    // the same operation from two remotes, a publish, two topics
    {
        let s3 = vec![
            SessSpec { sid: 0, topic: 0, live: true, cap: 1024 },
            SessSpec { sid: 1, topic: 0, live: true, cap: 1024 },
            SessSpec { sid: 2, topic: 1, live: true, cap: 1024 },
        ];
        let a = vec![Act::Y(0, vec![]), Act::C(0), Act::Y(1, vec![]), Act::C(1), Act::Y(2, vec![]), Act::C(2), Act::R(0, 0), Act::S(0), Act::C(0), Act::S(1), Act::C(1), Act::S(2), Act::C(2), Act::R(1, 0), Act::R(0, 0), Act::S(1), Act::C(1), Act::S(0), Act::C(0), Act::P(2, 1), Act::S(2), Act::C(2), Act::S(0), Act::C(0), Act::S(1), Act::C(1)];
        emit(&rt, &store, &pool, &mut out, &s3, &a, true, true);
        emit(&rt, &store, &pool, &mut out, &s3, &a, false, true);
        let a2 = vec![Act::Y(0, vec![]), Act::C(0), Act::Y(1, vec![]), Act::C(1), Act::Y(2, vec![]), Act::C(2), Act::R(0, 5), Act::R(1, 5), Act::S(0), Act::C(0), Act::S(1), Act::C(1), Act::S(0), Act::C(0)];
        emit(&rt, &store, &pool, &mut out, &s3, &a2, true, true);
        // buffer handed over from the sync phase: operation 3 synced on session 0 is not sent on it later
        let a3 = vec![Act::Y(0, vec![3, 4, 3]), Act::C(0), Act::Y(1, vec![]), Act::C(1), Act::Y(2, vec![]), Act::C(2), Act::R(1, 3), Act::R(1, 6), Act::S(1), Act::C(1), Act::S(0), Act::C(0), Act::S(1), Act::C(1)];
        emit(&rt, &store, &pool, &mut out, &s3, &a3, true, true);
        // a session without live mode next to a live one: its registration in the event stream
        // goes away with the first forward; operations it syncs afterwards are not reported
        let s2 = vec![
            SessSpec { sid: 1, topic: 0, live: true, cap: 1024 },
            SessSpec { sid: 2, topic: 0, live: false, cap: 1024 },
        ];
        let a4 = vec![Act::Y(1, vec![]), Act::C(1), Act::R(1, 0), Act::S(1), Act::C(1), Act::Y(2, vec![5]), Act::C(2), Act::S(1), Act::C(1)];
        emit(&rt, &store, &pool, &mut out, &s2, &a4, true, false);
        let a5 = vec![Act::Y(2, vec![5, 6]), Act::C(2), Act::Y(1, vec![6]), Act::C(1), Act::S(1), Act::C(1)];
        emit(&rt, &store, &pool, &mut out, &s2, &a5, false, false);
    }
    // no window overflow possible: direct forward-all / once / no-echo oracles apply
    for i in 0..n_small {
        let sess = gen_sessions(&mut rng, &[1024]);
        let alphabet = rng.range(2, 12) as usize;
        let len = rng.range(4, 60) as usize;
        let acts = gen_flow(&mut rng, &sess, alphabet, len, true);
        emit(&rt, &store, &pool, &mut out, &sess, &acts, i % 2 == 0, true);
    }
    // small session windows: evictions, re-sends, re-reports
    for i in 0..n_window {
        let sess = gen_sessions(&mut rng, &[2, 3, 2, 3, 1024, 1]);
        let alphabet = rng.range(2, 7) as usize;
        let len = rng.range(10, 120) as usize;
        let quiesce = rng.chance(2, 3);
        let acts = gen_flow(&mut rng, &sess, alphabet, len, quiesce);
        emit(&rt, &store, &pool, &mut out, &sess, &acts, i % 2 == 0, quiesce);
    }
    // consumer window (1024): more than 1024 distinct operations through small-window sessions, then the first ones again
    for _ in 0..n_big {
        let sess = vec![
            SessSpec { sid: 7, topic: 0, live: true, cap: 3 },
            SessSpec { sid: 9, topic: 0, live: true, cap: 2 },
        ];
        let mut acts = vec![Act::Y(7, vec![]), Act::C(7), Act::Y(9, vec![]), Act::C(9)];
        let total = 1024 + rng.range(1, 60) as usize;
        let mut k = 0;
        while k < total {
            let burst = rng.range(1, 40) as usize;
            for _ in 0..burst {
                if k < total {
                    acts.push(Act::R(7, k));
                    k += 1;
                }
            }
            acts.push(Act::S(7));
            acts.push(Act::C(7));
            if rng.chance(1, 2) {
                acts.push(Act::S(9));
                acts.push(Act::C(9));
            }
        }
        for x in [0usize, 1, 2, total - 1, 30] {
            acts.push(Act::R(7, x));
            acts.push(Act::R(9, x));
        }
        for _ in 0..2 {
            for s in [7u64, 9] {
                acts.push(Act::S(s));
                acts.push(Act::C(s));
            }
        }
        emit(&rt, &store, &pool, &mut out, &sess, &acts, true, true);
    }
    // back-pressure: one live session does not drain its live channel while more than the channel's
    // capacity of new operations arrive through another session. `next_event` has to wait for room
    // (hand-polled: it stays Pending), resumes when the slow session drains, and afterwards the slow
    // session must have sent every operation exactly once.
    let n_back = match args.tier {
        Tier::Quick => 1,
        Tier::Thorough => 4,
        Tier::Search => 2,
    };
    let chan = channel_buffer();
    out.extra.insert("live_channel_capacity_from_source".into(), (chan as u64).into());
    for i in 0..n_back {
        let three = i % 2 == 1;
        let mut sess = vec![
            SessSpec { sid: 7, topic: 0, live: true, cap: 4096 },
            SessSpec { sid: 9, topic: 0, live: true, cap: 4096 },
        ];
        if three {
            sess.push(SessSpec { sid: 11, topic: 0, live: true, cap: 4096 });
        }
        let mut acts = vec![];
        for s in &sess {
            acts.push(Act::Y(s.sid, vec![]));
            acts.push(Act::C(s.sid));
        }
        let total = (chan + rng.range(8, 90) as usize).min(pool.ops.len());
        let mut k = 0;
        while k < total {
            for _ in 0..rng.range(5, 40) {
                if k < total {
                    acts.push(Act::R(7, k));
                    k += 1;
                }
            }
            acts.push(Act::S(7));
            acts.push(Act::C(7)); // session 9 is never polled here: its live channel fills up
            if three {
                acts.push(Act::S(11));
                acts.push(Act::C(11));
            }
        }
        // the slow session wakes up; the event stream resumes; everybody drains
        for _ in 0..3 {
            acts.push(Act::S(9));
            acts.push(Act::C(9));
            acts.push(Act::C(7));
            if three {
                acts.push(Act::S(11));
                acts.push(Act::C(11));
            }
        }
        out.count("back-pressure flow (burst > live channel capacity into an undrained session)");
        emit(&rt, &store, &pool, &mut out, &sess, &acts, true, true);
    }
    out.finish(
        "real TopicSyncManager with 2-5 sessions (some without live mode) on 1-2 topics, session windows 1/2/3/1024, consumer window 1024; flows of remote Live messages (duplicates through several sessions), operations published through session_handle, hand-polled session futures and manager event stream in the interleaving given by the request; one flow family with > 1024 distinct operations to overflow the consumer window; one family with a burst larger than the live channel's capacity (read from the source) into a session that is not polled, then drained (back-pressure: nothing may be lost). non-trivial = one operation reaches the node through >= 2 sessions and a window eviction is visible (an operation re-sent on a session or re-reported)",
        false,
    );
}
