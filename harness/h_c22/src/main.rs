//! C22 — Sync session events follow the documented lifecycle.
//!
//! Real `TopicLogSync` sessions driven by scripted transport ends and an interposing store:
//! otherwise valid sessions (with and without live mode, live traffic in both directions, `Close`
//! from either side) in which one I/O step fails — `resolve`, every store call, every sink send,
//! every stream item (error / closed / wrong message kind), `sink.close()`, missing event receiver.
//! The event sequence of the session's broadcast channel is compared with the Lean model
//! (`P2/Model/SyncEvents.lean`, fed with the recorded I/O outcomes) and judged by the lifecycle
//! grammar directly.
//!
//! Request: `#<seed>.<variant> cap=<c> rx=<0|1> live=<0|1> scope=… | <I/O outcomes in program order>`
//! Answer:  `ev=<events> | res=<ok|E:kind|spin>`
use std::collections::{BTreeMap, VecDeque};
use std::pin::Pin;
use std::sync::Arc;
use std::sync::atomic::{AtomicUsize, Ordering};
use std::task::{Context, Poll};

use futures::Stream;
use futures::channel::mpsc;
use h_synclib::*;
use hc::{Args, Out, Rng, Tier};
use p2panda_core::{SeqNum, Topic, VerifyingKey};
use p2panda_store::SqliteStore;
use p2panda_sync::ToSync;
use p2panda_sync::protocols::{
    LogSyncMessage, TopicLogSync, TopicLogSyncChannelError, TopicLogSyncError, TopicLogSyncEvent, TopicLogSyncMessage,
};
use p2panda_sync::traits::Protocol;
use tokio::sync::broadcast;

type TMsg = TopicLogSyncMessage<L, E>;

static WATCHDOG: std::sync::OnceLock<Watchdog> = std::sync::OnceLock::new();

thread_local! {
    static STORE_CACHE: std::cell::RefCell<Option<(u64, SqliteStore)>> = const { std::cell::RefCell::new(None) };
}

#[derive(Clone, Debug)]
enum Step {
    /// the stream yields this message
    Recv(TMsg),
    RecvErr,
    /// the live channel gets this item (delivered when the session next polls the stream)
    Live(ToSync<Op>),
}

/// Scripted topic-level stream that also feeds the session's live channel, so that live items and
/// stream items reach the session in script order (`select!` in live mode is `biased` towards the
/// live channel: an item pushed while the stream is polled is taken before the stream is polled again).
struct TopicStream {
    log: IoLog,
    uni: Arc<Universe>,
    steps: VecDeque<Step>,
    live_tx: mpsc::Sender<ToSync<Op>>,
    closed_polls: usize,
    spun: Arc<AtomicUsize>,
    spin_notify: Arc<tokio::sync::Notify>,
    hang_at_end: bool,
}

impl Stream for TopicStream {
    type Item = Result<TMsg, String>;
    fn poll_next(self: Pin<&mut Self>, cx: &mut Context<'_>) -> Poll<Option<Self::Item>> {
        let this = self.get_mut();
        match this.steps.pop_front() {
            None => {
                if this.hang_at_end {
                    return Poll::Pending;
                }
                this.closed_polls += 1;
                if this.closed_polls == 1 {
                    this.log.lock().unwrap().push("Rc".into());
                }
                if this.closed_polls > 2000 {
                    this.spun.store(1, Ordering::SeqCst);
                    this.spin_notify.notify_one();
                    return Poll::Pending;
                }
                Poll::Ready(None)
            }
            Some(Step::Live(item)) => {
                this.log.lock().unwrap().push(match &item {
                    ToSync::Payload(op) => match this.uni.find(&op.hash) {
                        Some(d) => format!("Lp{}", d.tok()),
                        None => "Lp999997/0".into(),
                    },
                    ToSync::Close => "Lc".into(),
                });
                this.live_tx.try_send(item).expect("live channel");
                cx.waker().wake_by_ref();
                Poll::Pending
            }
            Some(Step::RecvErr) => {
                this.log.lock().unwrap().push("Re".into());
                Poll::Ready(Some(Err("scripted stream error".into())))
            }
            Some(Step::Recv(m)) => {
                this.log.lock().unwrap().push(match &m {
                    TopicLogSyncMessage::Sync(m) => recv_tok(&this.uni, m),
                    TopicLogSyncMessage::Live(h, _) => match this.uni.find(&h.hash()) {
                        Some(d) => format!("Rl{}", d.tok()),
                        None => "Rl999996/0".into(),
                    },
                    TopicLogSyncMessage::Close => "Rx".into(),
                });
                Poll::Ready(Some(Ok(m)))
            }
        }
    }
}

#[derive(Clone)]
struct Case {
    uni: Arc<Universe>,
    local: BTreeMap<(usize, usize), (u32, u32)>,
    scope: BTreeMap<usize, Vec<usize>>,
    steps: Vec<Step>,
    live: bool,
    cap: usize,
    rx: bool,
    sink_fail: Option<usize>,
    store_fail: Option<usize>,
    resolve_fail: bool,
    close_fail: bool,
    hang_at_end: bool,
    label: String,
    phase: &'static str,
}

fn live_msg(op: &OpData) -> TMsg {
    TopicLogSyncMessage::Live(op.header.clone(), Some(op.body.clone()))
}

/// base session of a seed
fn base_case(seed: u64) -> (Case, Vec<(usize, usize)>) {
    let mut rng = Rng::new(seed);
    let na = rng.range(1, 3) as usize;
    let mut uni = Universe::new(&mut rng, na);
    let mut logs = vec![];
    for a in 0..na {
        for l in 0..rng.range(1, 2) as usize {
            let len = rng.range(2, 6) as usize + 4;
            uni.extend(&mut rng, a, l, len);
            logs.push((a, l));
        }
    }
    let mut local = BTreeMap::new();
    let mut scope: BTreeMap<usize, Vec<usize>> = BTreeMap::new();
    let mut remote_h: BTreeMap<VerifyingKey, BTreeMap<L, SeqNum>> = BTreeMap::new();
    let mut remote_ops = vec![];
    let mut live_pool = vec![];
    for (a, l) in &logs {
        let len = uni.chains[&(*a, *l)].len() as u32 - 4;
        let hi = rng.below(len as u64) as u32;
        if rng.chance(4, 5) {
            local.insert((*a, *l), (0, hi));
        }
        scope.entry(*a).or_default().push(*l);
        let rhi = rng.below(len as u64) as u32;
        if rng.chance(3, 4) {
            remote_h.entry(uni.vk(*a)).or_default().insert(*l, rhi);
            if rhi > hi && rng.chance(2, 3) {
                for s in (hi + 1)..=rhi {
                    remote_ops.push(op_msg(uni.op(*a, *l, s)));
                }
            }
        }
        // operations beyond both replicas serve as live traffic
        for s in len..(len + 4) {
            live_pool.push((*a, *l, s));
        }
    }
    let mut steps = vec![Step::Recv(TopicLogSyncMessage::Sync(LogSyncMessage::Have(remote_h)))];
    if remote_ops.is_empty() {
        steps.push(Step::Recv(TopicLogSyncMessage::Sync(LogSyncMessage::Done)));
    } else {
        let bytes: usize = remote_ops
            .iter()
            .map(|m| match m {
                LogSyncMessage::Operation(h, b) => h.len() + b.as_ref().map(|b| b.len()).unwrap_or(0),
                _ => 0,
            })
            .sum();
        steps.push(Step::Recv(TopicLogSyncMessage::Sync(LogSyncMessage::PreSync {
            total_operations: remote_ops.len() as u32,
            total_bytes: bytes as u32,
        })));
        for m in remote_ops {
            steps.push(Step::Recv(TopicLogSyncMessage::Sync(m)));
        }
        steps.push(Step::Recv(TopicLogSyncMessage::Sync(LogSyncMessage::Done)));
    }
    let live = rng.chance(2, 3);
    let mut hang_at_end = false;
    if live {
        rng.shuffle(&mut live_pool);
        let n = rng.range(0, 5) as usize;
        for (i, (a, l, s)) in live_pool.iter().take(n).enumerate() {
            let op = uni.op(*a, *l, *s);
            if rng.chance(1, 2) {
                steps.push(Step::Live(ToSync::Payload(op.operation())));
            } else {
                steps.push(Step::Recv(live_msg(op)));
            }
            if i > 0 && rng.chance(1, 4) {
                // a duplicate through the other path (dedup)
                let (a2, l2, s2) = live_pool[i - 1];
                let op2 = uni.op(a2, l2, s2);
                if rng.chance(1, 2) {
                    steps.push(Step::Live(ToSync::Payload(op2.operation())));
                } else {
                    steps.push(Step::Recv(live_msg(op2)));
                }
            }
        }
        match rng.below(3) {
            0 => {
                // we close: the remote closes the connection (stream ends)
                steps.push(Step::Live(ToSync::Close));
            }
            1 => {
                steps.push(Step::Recv(TopicLogSyncMessage::Close));
                hang_at_end = true;
            }
            _ => {} // remote just closes the stream: UnexpectedStreamClosure
        }
    } else {
        hang_at_end = true;
    }
    let cap = if rng.chance(1, 4) { rng.range(1, 3) as usize } else { 1024 };
    (
        Case {
            uni: Arc::new(uni),
            local,
            scope,
            steps,
            live,
            cap,
            rx: true,
            sink_fail: None,
            store_fail: None,
            resolve_fail: false,
            close_fail: false,
            hang_at_end,
            label: "base".into(),
            phase: "none",
        },
        logs,
    )
}

/// variants: 0 base; 100+k sink send k fails; 200+k store call k fails; 300+3k+m stream step k gets
/// fault m (0 error, 1 closed, 2 wrong message kind); 900 resolve fails; 901 close fails; 902 no receiver;
/// 903 close fails after a failed session
fn build_case(seed: u64, variant: u64) -> Case {
    let (mut c, _logs) = base_case(seed);
    let phase_of_step = |c: &Case, k: usize| -> &'static str {
        // steps before and including the first sync Done are the sync phase
        let done_pos = c.steps.iter().position(|s| matches!(s, Step::Recv(TopicLogSyncMessage::Sync(LogSyncMessage::Done)))).unwrap_or(0);
        if k <= 1 { "handshake" } else if k <= done_pos { "sync" } else { "live" }
    };
    match variant {
        0 => {}
        100..=199 => {
            c.sink_fail = Some((variant - 100) as usize);
            c.label = "sink-fail".into();
            c.phase = if variant - 100 < 2 { "handshake" } else { "sync-or-live" };
        }
        200..=299 => {
            c.store_fail = Some((variant - 200) as usize);
            c.label = "store-fail".into();
            c.phase = "store";
        }
        300..=899 => {
            let k = ((variant - 300) / 3) as usize;
            let m = (variant - 300) % 3;
            let k = k.min(c.steps.len());
            c.phase = phase_of_step(&c, k);
            match m {
                0 => {
                    c.steps.insert(k, Step::RecvErr);
                    c.label = "stream-error".into();
                }
                1 => {
                    c.steps.truncate(k);
                    c.hang_at_end = false;
                    c.label = "stream-closed".into();
                }
                _ => {
                    // a message of the wrong kind for the phase
                    let wrong = if c.phase == "live" {
                        TopicLogSyncMessage::Sync(LogSyncMessage::Done)
                    } else if k == 0 {
                        TopicLogSyncMessage::Sync(LogSyncMessage::Done)
                    } else if k % 2 == 0 {
                        TopicLogSyncMessage::Close
                    } else {
                        TopicLogSyncMessage::Sync(LogSyncMessage::Have(BTreeMap::new()))
                    };
                    c.steps.insert(k, Step::Recv(wrong));
                    c.label = "wrong-message".into();
                }
            }
        }
        900 => {
            c.resolve_fail = true;
            c.label = "resolve-fail".into();
            c.phase = "resolve";
        }
        901 => {
            c.close_fail = true;
            c.label = "close-fail".into();
            c.phase = "close";
        }
        902 => {
            c.rx = false;
            c.label = "no-receiver".into();
            c.phase = "events";
        }
        _ => {
            c.close_fail = true;
            c.steps.insert(1, Step::RecvErr);
            c.label = "close-fail-after-failure".into();
            c.phase = "close";
        }
    }
    c
}

struct Run {
    request: String,
    answer: String,
    events: Vec<String>,
    returned: bool,
    n_sends: usize,
    n_store: usize,
    n_steps: usize,
    spun: bool,
}

fn res_tok(e: &TopicLogSyncError) -> String {
    match e {
        TopicLogSyncError::Sync(e) => format!("E:sync:{}", err_tok(e)),
        TopicLogSyncError::TopicStore(_) => "E:topicStore".into(),
        TopicLogSyncError::UnexpectedProtocolMessage(_) => "E:unexpectedMsg".into(),
        TopicLogSyncError::Channel(TopicLogSyncChannelError::MessageSink(_)) => "E:sink".into(),
        TopicLogSyncError::Channel(TopicLogSyncChannelError::EventSend) => "E:event".into(),
        TopicLogSyncError::Channel(TopicLogSyncChannelError::MessageStream(_)) => "E:stream".into(),
        TopicLogSyncError::UnexpectedStreamClosure => "E:closedLive".into(),
        TopicLogSyncError::DecodeMessage(_) => "E:decodeLive".into(),
    }
}

async fn run_case(seed: u64, variant: u64, case: &Case) -> Run {
    // the faults never change the store: one SQLite store per base session (seed), reused by its variants
    let topic = Topic::from([9u8; 32]);
    let cached = STORE_CACHE.with(|c| c.borrow().as_ref().filter(|(s, _)| *s == seed).map(|(_, st)| st.clone()));
    let inner = match cached {
        Some(st) => st,
        None => {
            let inner = SqliteStore::temporary().await;
            for ((a, l), (lo, hi)) in &case.local {
                for s in *lo..=*hi {
                    insert_op(&inner, case.uni.op(*a, *l, s)).await;
                }
            }
            for (a, ls) in &case.scope {
                for l in ls {
                    associate(&inner, &topic, &case.uni.vk(*a), l).await;
                }
            }
            STORE_CACHE.with(|c| *c.borrow_mut() = Some((seed, inner.clone())));
            inner
        }
    };
    let log = new_log();
    let store = Interposed::new(inner, case.uni.clone(), log.clone(), vec![], case.store_fail);
    {
        let mut c = store.ctl.lock().unwrap();
        c.log_resolve = true;
        c.resolve_fails = case.resolve_fail;
    }
    let (event_tx, event_rx) = broadcast::channel::<TopicLogSyncEvent<E>>(4096);
    let mut event_rx = Some(event_rx);
    if !case.rx {
        event_rx = None; // drops the only receiver
    }
    let (live_tx, live_rx) = mpsc::channel::<ToSync<Op>>(64);
    let session: TopicLogSync<Topic, Interposed, L, E> =
        TopicLogSync::new_with_capacity(topic, store.clone(), if case.live { Some(live_rx) } else { None }, event_tx, case.cap);
    let mut sink: ScriptSink<TMsg> = ScriptSink::new(log.clone(), case.sink_fail);
    sink.close_fails = case.close_fail;
    let spun = Arc::new(AtomicUsize::new(0));
    let spin_notify = Arc::new(tokio::sync::Notify::new());
    let mut stream = TopicStream {
        log: log.clone(),
        uni: case.uni.clone(),
        steps: case.steps.clone().into(),
        live_tx,
        closed_polls: 0,
        spun: spun.clone(),
        spin_notify: spin_notify.clone(),
        hang_at_end: case.hang_at_end,
    };
    let result = tokio::select! {
        r = tokio::time::timeout(std::time::Duration::from_secs(5), session.run(&mut sink, &mut stream)) => r.ok(),
        _ = spin_notify.notified() => None,
    };
    let mut events = vec![];
    if let Some(rx) = event_rx.as_mut() {
        let mut live_phase = false;
        while let Ok(e) = rx.try_recv() {
            events.push(match e {
                TopicLogSyncEvent::SessionStarted => "SS".to_string(),
                TopicLogSyncEvent::SyncStarted { metrics } => format!("M({})", topic_metrics_tok(&metrics)),
                TopicLogSyncEvent::OperationReceived { operation, metrics } => {
                    let id = case.uni.find(&operation.hash).map(|o| o.uid.to_string()).unwrap_or("?".into());
                    if live_phase { format!("LR{id}") } else { format!("R{id}({})", topic_metrics_tok(&metrics)) }
                }
                TopicLogSyncEvent::SyncFinished { metrics } => format!("SF({})", topic_metrics_tok(&metrics)),
                TopicLogSyncEvent::LiveModeStarted => {
                    live_phase = true;
                    "LS".to_string()
                }
                TopicLogSyncEvent::SessionFinished { .. } => "FIN".to_string(),
                TopicLogSyncEvent::Failed { .. } => "FAIL".to_string(),
            });
        }
    }
    let spun_b = spun.load(Ordering::SeqCst) == 1;
    let (res, returned) = match &result {
        None => (if spun_b { "spin".to_string() } else { "stuck".to_string() }, false),
        Some(Ok(())) => ("ok".to_string(), true),
        Some(Err(e)) => (res_tok(e), true),
    };
    let items = log.lock().unwrap().clone();
    let request = format!(
        "#{seed}.{variant} cap={} rx={} live={} scope={} | {}",
        case.cap,
        if case.rx { 1 } else { 0 },
        if case.live { 1 } else { 0 },
        scope_tok(&case.scope),
        items.join(" ")
    );
    let answer = format!("ev={} | res={}", events.join(" "), res);
    let n_sends = items.iter().filter(|t| t.starts_with('S')).count();
    let n_store = store.ctl.lock().unwrap().calls;
    Run { request, answer, events, returned, n_sends, n_store, n_steps: case.steps.len(), spun: spun_b }
}

/// The documented lifecycle, judged directly on the event trace of a session that returned:
/// SessionStarted · (Failed | SyncStarted · Op* · (Failed | SyncFinished · ((LiveModeStarted · Op*)? · (SessionFinished | Failed))))
/// Returns (tag, what) per defect.
fn lifecycle(events: &[String], returned: bool, has_rx: bool, live: bool) -> Vec<(&'static str, String)> {
    let mut fails = vec![];
    if !live && events.iter().any(|t| t == "LS" || t.starts_with("LR")) {
        fails.push(("live-events-without-live-mode", format!("live-mode events in a session without live mode: {events:?}")));
    }
    if !has_rx {
        return fails;
    }
    let kind = |t: &String| -> &'static str {
        if t == "SS" { "SS" } else if t.starts_with("M(") { "M" } else if t.starts_with("SF(") { "SF" } else if t == "LS" { "LS" }
        else if t.starts_with("LR") { "LR" } else if t.starts_with('R') { "R" } else if t == "FIN" { "FIN" } else { "FAIL" }
    };
    let ks: Vec<&str> = events.iter().map(kind).collect();
    let terminals = ks.iter().filter(|k| **k == "FIN" || **k == "FAIL").count();
    if terminals > 1 {
        fails.push(("two-terminal-events", format!("{terminals} terminal events in {events:?}")));
    }
    if let Some(p) = ks.iter().position(|k| *k == "FIN" || *k == "FAIL") {
        if p + 1 != ks.len() {
            fails.push(("event-after-terminal", format!("events after the terminal one in {events:?}")));
        }
    }
    if returned && terminals == 0 {
        fails.push(("no-terminal-event", format!("the session returned but emitted neither SessionFinished nor Failed: {events:?}")));
    }
    // order of the rest (with or without the leading SessionStarted)
    let body: Vec<&str> = if ks.first() == Some(&"SS") { ks[1..].to_vec() } else { ks.clone() };
    let mut state = 0; // 0 start, 1 after M, 2 after SF, 3 after LS, 4 terminal
    let mut ok = true;
    for k in &body {
        state = match (state, *k) {
            (0, "M") => 1,
            (0, "FAIL") => 4,
            (1, "R") => 1,
            (1, "SF") => 2,
            (1, "FAIL") => 4,
            (2, "LS") => 3,
            (2, "FIN") | (2, "FAIL") => 4,
            (3, "LR") => 3,
            (3, "FIN") | (3, "FAIL") => 4,
            _ => {
                ok = false;
                break;
            }
        };
    }
    if !ok {
        fails.push(("bad-order", format!("event order violates the lifecycle: {events:?}")));
    }
    if ks.first() != Some(&"SS") && (!ks.is_empty() || returned) {
        if fails.is_empty() {
            fails.push(("session-started-missing", format!("SessionStarted is not the first event (trace otherwise follows the lifecycle): {events:?}")));
        }
    }
    fails
}

fn emit(out: &mut Out, rtm: &tokio::runtime::Runtime, seed: u64, variant: u64, last_phase: &mut &'static str) -> Run {
    if let Some(w) = WATCHDOG.get() {
        w.begin(&format!("#{seed}.{variant} (no answer: the session did not return)"));
    }
    let case = build_case(seed, variant);
    let r = rtm.block_on(run_case(seed, variant, &case));
    // nt = the first fault lies in a different protocol phase than in the previous case
    let nt = case.phase != *last_phase && variant != 0;
    *last_phase = case.phase;
    let n = out.case(&r.request, &r.answer, nt);
    out.count(&case.label);
    out.count(&format!("res={}", r.answer.rsplit("res=").next().unwrap()));
    out.count(if case.live { "live-mode" } else { "no-live-mode" });
    for (tag, what) in lifecycle(&r.events, r.returned, case.rx, case.live) {
        out.oracle_fail(n, tag, &what, &r.request, &r.answer);
    }
    if r.spun {
        out.oracle_fail(
            n,
            "never-returns-closed-stream",
            "the remote closed the stream during the Sync phase: the session polls the closed stream in a loop without an await point and never returns (no terminal event)",
            &r.request,
            &r.answer,
        );
    } else if !r.returned && !case.hang_at_end {
        out.oracle_fail(n, "session-stuck", "the session neither returned nor is it waiting for the remote", &r.request, &r.answer);
    }
    if let Some(w) = WATCHDOG.get() {
        w.idle();
    }
    r
}

fn main() {
    let args = Args::parse();
    let mut out = Out::new(&args.out);
    let rtm = tokio::runtime::Builder::new_current_thread().enable_all().build().unwrap();
    let _ = WATCHDOG.set(Watchdog::start(args.out.clone(), std::time::Duration::from_secs(45), "session-never-returns"));
    let mut last_phase: &'static str = "none";
    if args.mode == "replay" {
        let text = std::fs::read_to_string(args.replay.as_ref().expect("replay file")).unwrap();
        let v: hc::serde_json::Value = hc::serde_json::from_str(&text).unwrap();
        let req = v["request"].as_str().unwrap().to_string();
        let id = req.split_whitespace().next().unwrap().trim_start_matches('#').to_string();
        let parts: Vec<&str> = id.split('.').collect();
        emit(&mut out, &rtm, parts[0].parse().unwrap(), parts[1].parse().unwrap(), &mut last_phase);
        out.finish("replay", false);
        return;
    }
    let n = match args.tier {
        Tier::Quick => 80,
        Tier::Thorough => 1500,
        Tier::Search => 400,
    };
    let mut rng = Rng::new(args.seed);
    for _ in 0..n {
        let seed = rng.next_u64() % 1_000_000_000;
        let base = emit(&mut out, &rtm, seed, 0, &mut last_phase);
        for k in 0..(base.n_sends.min(99) as u64) {
            emit(&mut out, &rtm, seed, 100 + k, &mut last_phase);
        }
        for k in 0..(base.n_store.min(99) as u64) {
            emit(&mut out, &rtm, seed, 200 + k, &mut last_phase);
        }
        for k in 0..=(base.n_steps.min(199) as u64) {
            for m in 0..3 {
                emit(&mut out, &rtm, seed, 300 + 3 * k + m, &mut last_phase);
            }
        }
        for v in 900..=903 {
            emit(&mut out, &rtm, seed, v, &mut last_phase);
        }
    }
    out.finish(
        "base sessions (1-3 authors, sync in both directions, live mode in 2/3 of them with live traffic through the live channel and the stream, duplicates, Close from either side or abrupt closure) x one fault at every step index: every sink send, every store call, every stream step x {error, closed, wrong message kind}, resolve, close, close after a failed session, no event receiver. non-trivial = the fault lies in a different protocol phase than in the previous case",
        false,
    );
}
