//! C26 — Wire framing decodes exactly the encoded message sequence.
//! Drives the real `p2panda_net::codec::Codec<M>`: `Encoder::encode` into one `BytesMut`,
//! `tokio_util::codec::FramedRead` over a chunked `AsyncRead` (mode `eof`) and the bare
//! `Decoder::decode` loop fed chunk by chunk (mode `open`, allows empty chunks).
//!
//! Request lines (bytes in hex, `-` = empty):
//!   enc <max> <ty> <payload>*                  -> ok|E:<err> per payload, `=`, buffer
//!   dec <max> raw:<ty>|bytes eof|open <chunk>* -> decoded items (postcard bytes / the Vec<u8>), then end|E:<err>|open:<n>
use std::cell::RefCell;
use std::collections::{BTreeMap, VecDeque};
use std::fmt::Debug;
use std::panic::AssertUnwindSafe;
use std::pin::Pin;
use std::rc::Rc;
use std::task::{Context, Poll};

use futures::StreamExt;
use hc::{Args, Out, Rng, Tier};
use p2panda_core::{Body, Hash, Header, SigningKey, VerifyingKey};
use p2panda_net::codec::{Codec, CodecError};
use p2panda_sync::protocols::{LogSyncMessage, TopicLogSyncMessage};
use serde::Serialize;
use serde::de::DeserializeOwned;
use tokio::io::{AsyncRead, ReadBuf};
use tokio_util::bytes::BytesMut;
use tokio_util::codec::{Decoder, Encoder, FramedRead};

const DEFAULT_MAX: usize = 1024 * 1024 * 128;

type Lsm = LogSyncMessage<u64>;
type Tlsm = TopicLogSyncMessage<u64, u32>;
type OpMsg = (Header<u32>, Option<Body>);

trait Msg: Serialize + DeserializeOwned + PartialEq + Debug + Clone + 'static {}
impl<T: Serialize + DeserializeOwned + PartialEq + Debug + Clone + 'static> Msg for T {}

fn hx(b: &[u8]) -> String {
    if b.is_empty() { "-".into() } else { hc::hex(b) }
}

fn unhx(s: &str) -> Vec<u8> {
    if s == "-" {
        return vec![];
    }
    (0..s.len() / 2).map(|i| u8::from_str_radix(&s[2 * i..2 * i + 2], 16).unwrap()).collect()
}

fn err_word(e: &CodecError) -> String {
    match e {
        CodecError::TooLargeMessage(_, _) => "E:toolarge".into(),
        CodecError::Postcard(_) => "E:postcard".into(),
        CodecError::Io(err) => {
            if err.to_string().contains("bytes remaining") { "E:eof".into() } else { "E:io".into() }
        }
    }
}

/// `AsyncRead` that hands out the prepared chunks one per `poll_read` (a chunk larger than the
/// space offered is split; what was really delivered is recorded) and then end-of-file.
struct ChunkReader {
    chunks: VecDeque<Vec<u8>>,
    delivered: Rc<RefCell<Vec<Vec<u8>>>>,
    pend: bool,
    toggle: bool,
}

impl AsyncRead for ChunkReader {
    fn poll_read(self: Pin<&mut Self>, cx: &mut Context<'_>, buf: &mut ReadBuf<'_>) -> Poll<std::io::Result<()>> {
        let me = self.get_mut();
        if me.pend && !me.toggle {
            me.toggle = true;
            cx.waker().wake_by_ref();
            return Poll::Pending;
        }
        me.toggle = false;
        loop {
            match me.chunks.pop_front() {
                None => return Poll::Ready(Ok(())),
                Some(c) if c.is_empty() => continue, // a 0-byte read would mean end-of-file
                Some(mut c) => {
                    let n = c.len().min(buf.remaining());
                    assert!(n > 0);
                    buf.put_slice(&c[..n]);
                    me.delivered.borrow_mut().push(c[..n].to_vec());
                    if n < c.len() {
                        let rest = c.split_off(n);
                        me.chunks.push_front(rest);
                    }
                    return Poll::Ready(Ok(()));
                }
            }
        }
    }
}

struct Ctx {
    rt: tokio::runtime::Runtime,
}

/// FramedRead over the chunks, then EOF. Returns (items, terminal word, chunks as delivered).
fn run_framed<M: Msg>(cx: &Ctx, max: usize, chunks: &[Vec<u8>], pend: bool) -> (Vec<M>, String, Vec<Vec<u8>>) {
    let delivered = Rc::new(RefCell::new(vec![]));
    let reader = ChunkReader { chunks: chunks.iter().cloned().collect(), delivered: delivered.clone(), pend, toggle: false };
    let limit = chunks.iter().map(|c| c.len()).sum::<usize>() + 4;
    let r = hc::catch(AssertUnwindSafe(|| {
        cx.rt.block_on(async {
            let mut fr = FramedRead::new(reader, Codec::<M>::new().max_frame_len(max));
            let mut items = vec![];
            let term;
            loop {
                match fr.next().await {
                    None => {
                        term = "end".to_string();
                        break;
                    }
                    Some(Ok(m)) => {
                        items.push(m);
                        if items.len() > limit {
                            // more items than bytes: the decoder yields without consuming
                            term = "RUNAWAY".to_string();
                            break;
                        }
                    }
                    Some(Err(e)) => {
                        let mut t = err_word(&e);
                        // FramedRead ends the stream after an error
                        if fr.next().await.is_some() {
                            t.push_str("+more");
                        }
                        term = t;
                        break;
                    }
                }
            }
            (items, term)
        })
    }));
    let d = delivered.borrow().clone();
    match r {
        Ok((items, term)) => (items, term, d),
        Err(_) => (vec![], "PANIC".into(), d),
    }
}

/// The bare Decoder, fed chunk by chunk (empty chunks allowed), no end-of-file.
fn run_open<M: Msg>(max: usize, chunks: &[Vec<u8>]) -> (Vec<M>, String) {
    let r = hc::catch(AssertUnwindSafe(|| {
        let mut codec = Codec::<M>::new().max_frame_len(max);
        let mut buf = BytesMut::new();
        let mut items = vec![];
        let limit = chunks.iter().map(|c| c.len()).sum::<usize>() + 4;
        for c in chunks {
            buf.extend_from_slice(c);
            loop {
                match codec.decode(&mut buf) {
                    Ok(Some(_)) if items.len() > limit => return (items, "RUNAWAY".to_string()),
                    Ok(Some(m)) => items.push(m),
                    Ok(None) => break,
                    Err(e) => return (items, err_word(&e)),
                }
            }
        }
        let n = buf.len();
        (items, format!("open:{n}"))
    }));
    r.unwrap_or_else(|_| (vec![], "PANIC".into()))
}

fn split_at_cuts(buf: &[u8], cuts: &[usize]) -> Vec<Vec<u8>> {
    // cuts: sorted positions in 0..=len, may repeat (→ empty chunks)
    let mut out = vec![];
    let mut prev = 0;
    for &c in cuts {
        out.push(buf[prev..c].to_vec());
        prev = c;
    }
    out.push(buf[prev..].to_vec());
    out
}

/// Chunkings (as cut lists) for a buffer of length `len`.
fn chunkings(rng: &mut Rng, len: usize, n_random: usize, all_two: bool, all_compositions: bool) -> Vec<Vec<usize>> {
    let mut v: Vec<Vec<usize>> = vec![vec![]]; // one chunk
    if len > 1 && len <= 600 {
        v.push((1..len).collect()); // byte by byte
    }
    if all_two {
        for c in 0..=len {
            v.push(vec![c]);
        }
    }
    if all_compositions && len >= 1 && len <= 11 {
        for mask in 0u32..(1 << (len - 1)) {
            v.push((1..len).filter(|i| mask >> (i - 1) & 1 == 1).collect());
        }
    }
    for _ in 0..n_random {
        // keep the number of chunks of a long stream moderate (the model's buffer append is O(n))
        let style = if len > 1500 { 5 } else { rng.below(5) };
        let mut cuts = vec![];
        let mut pos = 0usize;
        while pos < len {
            let step = match style {
                0 => rng.range(1, 3),
                1 => rng.range(1, 7),
                2 => rng.range(1, 40),
                3 => rng.range(1, 400),
                5 => rng.range(1 + len as u64 / 150, 1 + len as u64 / 8),
                _ => *rng.pick(&[1u64, 2, 3, 4, 5, 9, 64, 1000]),
            } as usize;
            // now and then an empty chunk
            if rng.chance(1, 12) {
                cuts.push(pos);
            }
            pos = (pos + step).min(len);
            if pos < len {
                cuts.push(pos);
            }
        }
        v.push(cuts);
    }
    v
}

/// Expected outcome by the property itself: complete frames up to the cut, stop at a too-large
/// announcement; `sizes` are the payload sizes of the frames in the stream.
fn expected(sizes: &[usize], dec_max: usize, k: usize, eof: bool) -> (usize, String) {
    let mut pos = 0usize;
    let mut n = 0usize;
    for &l in sizes {
        if pos + 4 > k {
            break;
        }
        if l > dec_max {
            return (n, "E:toolarge".into());
        }
        if pos + 4 + l > k {
            break;
        }
        n += 1;
        pos += 4 + l;
    }
    let rest = k - pos;
    let term = if eof { if rest == 0 { "end".to_string() } else { "E:eof".to_string() } } else { format!("open:{rest}") };
    (n, term)
}

struct Plan {
    enc_max: usize,
    dec_max: usize,
    cut: Option<usize>, // truncate the encoded stream to this many bytes
    n_random: usize,
    all_two: bool,
    all_comp: bool,
}

/// One well-formed message list through encode + every chosen chunking of decode.
fn stream_case<M: Msg>(cx: &Ctx, out: &mut Out, rng: &mut Rng, ty: &str, msgs: &[M], plan: &Plan) {
    let payloads: Vec<Vec<u8>> = msgs.iter().map(|m| postcard::to_allocvec(m).expect("postcard ser")).collect();
    // trusted-base check: postcard round-trips these values (hypothesis `de (ser m) = some m`)
    for (m, p) in msgs.iter().zip(&payloads) {
        let back: Result<M, _> = postcard::from_bytes(p);
        if back.as_ref().ok() != Some(m) {
            out.oracle_fail(out.cases, "postcard-roundtrip", &format!("postcard does not round-trip {m:?}"), "", "");
        }
    }
    // ---- encode ----
    let mut codec = Codec::<M>::new().max_frame_len(plan.enc_max);
    let mut dst = BytesMut::new();
    let mut words = vec![];
    let mut accepted: Vec<usize> = vec![];
    let mut want = vec![];
    let mut enc_fail: Option<(&str, String)> = None;
    for (i, m) in msgs.iter().enumerate() {
        let before = dst.len();
        let r = hc::catch(AssertUnwindSafe(|| codec.encode(m.clone(), &mut dst)));
        let fits = payloads[i].len() <= plan.enc_max;
        match r {
            Ok(Ok(())) => {
                words.push("ok".to_string());
                accepted.push(i);
                if !fits && enc_fail.is_none() {
                    enc_fail = Some(("enc-too-large-accepted", format!("message {i} of {} bytes accepted with max {}", payloads[i].len(), plan.enc_max)));
                }
            }
            Ok(Err(e)) => {
                words.push(err_word(&e));
                if fits && enc_fail.is_none() {
                    enc_fail = Some(("enc-smaller-rejected", format!("message {i} of {} bytes rejected ({e}) with max {}", payloads[i].len(), plan.enc_max)));
                }
                if dst.len() != before && enc_fail.is_none() {
                    enc_fail = Some(("enc-bytes", "failed encode changed the buffer".into()));
                }
            }
            Err(_) => words.push("PANIC".into()),
        }
        if fits {
            want.extend_from_slice(&(payloads[i].len() as u32).to_be_bytes());
            want.extend_from_slice(&payloads[i]);
        }
    }
    if dst[..] != want[..] && enc_fail.is_none() {
        enc_fail = Some(("enc-bytes", "encoded buffer is not the concatenation of big-endian length prefix + payload".into()));
    }
    let req = format!("enc {} {} {}", plan.enc_max, ty, payloads.iter().map(|p| hx(p)).collect::<Vec<_>>().join(" "));
    let ans = format!("{} = {}", words.join(" "), hx(&dst));
    let ans = ans.trim().to_string();
    let n = out.case(req.trim(), &ans, false);
    out.count(&format!("enc ty={ty}"));
    out.count_n("enc messages", msgs.len() as u64);
    out.count_n("enc rejected too-large", (msgs.len() - accepted.len()) as u64);
    if let Some((tag, what)) = enc_fail {
        out.oracle_fail(n, tag, &what, req.trim(), &ans);
    }

    // ---- decode ----
    let sizes: Vec<usize> = accepted.iter().map(|&i| payloads[i].len()).collect();
    let full = dst.to_vec();
    let k = plan.cut.map(|c| c.min(full.len())).unwrap_or(full.len());
    let stream = &full[..k];
    let mut starts = vec![];
    let mut p = 0;
    for &l in &sizes {
        starts.push(p);
        p += 4 + l;
    }
    for cuts in chunkings(rng, stream.len(), plan.n_random, plan.all_two, plan.all_comp) {
        let chunks = split_at_cuts(stream, &cuts);
        let has_empty = chunks.iter().any(|c| c.is_empty()) && chunks.len() > 1;
        let eof_mode = !has_empty && !rng.chance(1, 6);
        let (items, term, used): (Vec<M>, String, Vec<Vec<u8>>) = if eof_mode {
            run_framed::<M>(cx, plan.dec_max, &chunks, rng.chance(1, 3))
        } else {
            let (i, t) = run_open::<M>(plan.dec_max, &chunks);
            (i, t, chunks.clone())
        };
        let req = format!(
            "dec {} raw:{} {} {}",
            plan.dec_max,
            ty,
            if eof_mode { "eof" } else { "open" },
            used.iter().map(|c| hx(c)).collect::<Vec<_>>().join(" ")
        );
        let mut ans: Vec<String> = items.iter().map(|m| hx(&postcard::to_allocvec(m).unwrap())).collect();
        ans.push(term.clone());
        let ans = ans.join(" ");
        // nt: this chunking splits a length prefix and delivers >= 2 whole frames in one chunk
        let mut bounds = vec![0usize];
        for c in &used {
            bounds.push(bounds.last().unwrap() + c.len());
        }
        let splits_prefix = bounds.iter().any(|b| starts.iter().any(|s| *b > *s && *b < *s + 4 && *b < k));
        let multi = bounds.windows(2).any(|w| {
            starts.iter().zip(&sizes).filter(|(s, l)| **s >= w[0] && **s + 4 + **l <= w[1]).count() >= 2
        });
        let n = out.case(req.trim(), &ans, splits_prefix && multi);
        out.count(&format!("dec ty={ty}"));
        out.count(if eof_mode { "dec mode=framedread" } else { "dec mode=decoder-open" });
        out.count(&format!("dec chunks={}", match used.len() { 0 => "0", 1 => "1", 2 => "2", 3..=8 => "3-8", 9..=64 => "9-64", _ => ">64" }));
        if splits_prefix {
            out.count("dec chunking splits a length prefix");
        }
        if multi {
            out.count("dec chunk with >=2 whole frames");
        }
        if has_empty {
            out.count("dec chunking with empty chunk");
        }
        out.count(&format!("dec terminal={}", term.split(':').take(if term.starts_with("open") { 1 } else { 2 }).collect::<Vec<_>>().join(":")));
        // oracle
        let (want_n, want_term) = expected(&sizes, plan.dec_max, k, eof_mode);
        let want_items: Vec<&M> = accepted.iter().take(want_n).map(|&i| &msgs[i]).collect();
        let got_items: Vec<&M> = items.iter().collect();
        if got_items != want_items {
            let tag = if items.len() > want_n && want_term == "E:toolarge" { "dec-too-large-accepted" } else { "roundtrip" };
            out.oracle_fail(n, tag, &format!("decoded {} items, expected the first {} encoded messages (by value)", items.len(), want_n), req.trim(), &ans);
        } else if term != want_term {
            let tag = if want_term == "E:toolarge" {
                "dec-too-large-accepted"
            } else if term == "E:toolarge" {
                "dec-smaller-rejected"
            } else if term == "PANIC" {
                "panic"
            } else if term == "RUNAWAY" {
                "runaway"
            } else {
                "prefix"
            };
            out.oracle_fail(n, tag, &format!("stream ended with {term}, expected {want_term}"), req.trim(), &ans);
        }
    }
}

// ---------------------------------------------------------------------------------------------
// message generators (real p2panda types; every random choice from the harness PRNG)
// ---------------------------------------------------------------------------------------------

struct Gen {
    keys: Vec<SigningKey>,
}

impl Gen {
    fn new(rng: &mut Rng) -> Gen {
        let keys = (0..4)
            .map(|_| {
                let b: [u8; 32] = rng.bytes(32).try_into().unwrap();
                SigningKey::from_bytes(&b)
            })
            .collect();
        Gen { keys }
    }
    fn vk(&self, rng: &mut Rng) -> VerifyingKey {
        rng.pick(&self.keys).verifying_key()
    }
    fn op(&self, rng: &mut Rng) -> OpMsg {
        let key = rng.pick(&self.keys).clone();
        let blen = if rng.chance(1, 4) { 0 } else { rng.range(1, 60) } as usize;
        let body = Body::new(&rng.bytes(blen));
        // Header's serde form is positional: a backlink is present iff seq_num > 0
        let seq_num = if rng.chance(1, 2) { rng.below(5) as u32 } else { rng.next_u64() as u32 };
        let mut header = Header::<u32> {
            version: 1,
            verifying_key: key.verifying_key(),
            signature: None,
            payload_size: body.size(),
            payload_hash: if blen == 0 { None } else { Some(body.hash()) },
            seq_num,
            backlink: if seq_num > 0 { Some(Hash::digest(rng.bytes(8))) } else { None },
            extensions: rng.next_u64() as u32,
        };
        header.sign(&key);
        (header, if blen == 0 { None } else { Some(body) })
    }
    fn lsm(&self, rng: &mut Rng) -> Lsm {
        match rng.below(5) {
            0 => {
                let mut m: BTreeMap<VerifyingKey, BTreeMap<u64, u32>> = BTreeMap::new();
                for _ in 0..rng.below(4) {
                    let mut logs = BTreeMap::new();
                    for _ in 0..rng.below(4) {
                        logs.insert(if rng.chance(1, 2) { rng.below(300) } else { rng.next_u64() }, rng.next_u64() as u32 >> rng.below(32));
                    }
                    m.insert(self.vk(rng), logs);
                }
                LogSyncMessage::Have(m)
            }
            1 => LogSyncMessage::PreSync {
                total_operations: rng.next_u64() as u32 >> rng.below(32),
                total_bytes: if rng.chance(1, 8) { u32::MAX } else { rng.next_u64() as u32 >> rng.below(32) },
            },
            2 | 3 => {
                let (h, b) = self.op(rng);
                LogSyncMessage::Operation(h.to_bytes(), b.map(|b| b.to_bytes()))
            }
            _ => LogSyncMessage::Done,
        }
    }
    fn tlsm(&self, rng: &mut Rng) -> Tlsm {
        match rng.below(6) {
            0 | 1 => TopicLogSyncMessage::Sync(self.lsm(rng)),
            2 | 3 | 4 => {
                let (h, b) = self.op(rng);
                TopicLogSyncMessage::Live(h, b)
            }
            _ => TopicLogSyncMessage::Close,
        }
    }
    fn bytes(&self, rng: &mut Rng) -> Vec<u8> {
        let n = match rng.below(10) {
            0 => 0,
            1..=5 => rng.range(1, 12),
            6 | 7 => rng.range(100, 300), // two-byte varint
            8 => rng.range(1, 130),
            _ => rng.range(1000, 20000), // larger than FramedRead's initial 8 KiB buffer
        } as usize;
        rng.bytes(n)
    }
    fn string(&self, rng: &mut Rng) -> String {
        let n = rng.below(20) as usize;
        (0..n).map(|_| *rng.pick(&['a', 'b', 'z', ' ', 'é', '猫', '0', '\n'])).collect()
    }
}

fn n_msgs(rng: &mut Rng, long: bool) -> usize {
    if long { rng.range(8, 30) as usize } else { rng.range(0, 5) as usize }
}

/// One random stream of a random message type with a random plan.
fn random_stream(cx: &Ctx, out: &mut Out, rng: &mut Rng, g: &Gen, short_exhaustive: bool) {
    let long = !short_exhaustive && rng.chance(1, 12);
    let n = if short_exhaustive { rng.range(1, 3) as usize } else { n_msgs(rng, long) };
    let ty = rng.below(if short_exhaustive { 4 } else { 6 });
    macro_rules! go {
        ($name:expr, $msgs:expr) => {{
            let msgs = $msgs;
            let sizes: Vec<usize> = msgs.iter().map(|m| postcard::to_allocvec(m).unwrap().len()).collect();
            let plan = make_plan(rng, &sizes, short_exhaustive);
            stream_case(cx, out, rng, $name, &msgs, &plan);
        }};
    }
    match ty {
        0 => go!("vec", (0..n).map(|_| if short_exhaustive { let k = rng.below(4) as usize; rng.bytes(k) } else { g.bytes(rng) }).collect::<Vec<Vec<u8>>>()),
        1 => go!("string", (0..n).map(|_| if short_exhaustive { "ab"[..rng.below(3) as usize].to_string() } else { g.string(rng) }).collect::<Vec<String>>()),
        2 => go!("unit", vec![(); n]),
        3 => go!("logsync", (0..n).map(|_| if short_exhaustive { if rng.chance(1, 2) { LogSyncMessage::Done } else { LogSyncMessage::PreSync { total_operations: rng.below(200) as u32, total_bytes: rng.below(200) as u32 } } } else { g.lsm(rng) }).collect::<Vec<Lsm>>()),
        4 => go!("topic", (0..n).map(|_| g.tlsm(rng)).collect::<Vec<Tlsm>>()),
        _ => go!("op", (0..n).map(|_| g.op(rng)).collect::<Vec<OpMsg>>()),
    }
}

fn make_plan(rng: &mut Rng, sizes: &[usize], short_exhaustive: bool) -> Plan {
    let total: usize = sizes.iter().map(|s| s + 4).sum();
    // max_frame_len in {0, 1, exact size, size ± 1, default, generous}
    let pick_max = |rng: &mut Rng| -> usize {
        let s = if sizes.is_empty() { 0 } else { *rng.pick(sizes) };
        match rng.below(9) {
            0 => 0,
            1 => 1,
            2 => s,
            3 => s + 1,
            4 => s.saturating_sub(1),
            5 => sizes.iter().copied().max().unwrap_or(0),
            6 => sizes.iter().copied().max().unwrap_or(0) + rng.range(1, 100) as usize,
            _ => DEFAULT_MAX,
        }
    };
    let (enc_max, dec_max) = match rng.below(4) {
        0 => (DEFAULT_MAX, DEFAULT_MAX),
        1 => {
            let m = pick_max(rng);
            (m, m)
        }
        2 => (DEFAULT_MAX, pick_max(rng)), // sender with a larger limit than the receiver
        _ => (pick_max(rng), DEFAULT_MAX),
    };
    let cut = if rng.chance(1, 4) && total > 0 { Some(rng.below(total as u64 + 1) as usize) } else { None };
    Plan {
        enc_max,
        dec_max,
        cut,
        n_random: if short_exhaustive { 1 } else { rng.range(1, 3) as usize },
        all_two: short_exhaustive || (total <= 40 && rng.chance(1, 6)),
        all_comp: short_exhaustive,
    }
}

// ---------------------------------------------------------------------------------------------
// malformed streams: payload is postcard Vec<u8>, bytes are hostile
// ---------------------------------------------------------------------------------------------

fn malformed_stream(rng: &mut Rng) -> (Vec<u8>, usize) {
    let dec_max = *rng.pick(&[DEFAULT_MAX, DEFAULT_MAX, 64, 16, 5, 1, 0]);
    let mut s = vec![];
    for _ in 0..rng.range(1, 6) {
        let frame = |payload: &[u8], s: &mut Vec<u8>| {
            s.extend_from_slice(&(payload.len() as u32).to_be_bytes());
            s.extend_from_slice(payload);
        };
        match rng.below(12) {
            0..=3 => {
                // good frame
                let k = rng.below(10) as usize;
                let v = rng.bytes(k);
                frame(&postcard::to_allocvec(&v).unwrap(), &mut s);
            }
            4 => {
                // payload with trailing junk after a valid Vec<u8>
                let k = rng.below(5) as usize;
                let mut p = postcard::to_allocvec(&rng.bytes(k)).unwrap();
                let j = rng.range(1, 4) as usize;
                p.extend(rng.bytes(j));
                frame(&p, &mut s);
            }
            5 => {
                // non-canonical varint length (0x80|x, 0x00) / over-long varint
                let k = rng.below(5) as usize;
                let mut p = vec![0x80 | k as u8];
                for _ in 0..rng.below(9) {
                    p.push(0x80);
                }
                p.push(if rng.chance(1, 5) { rng.range(1, 3) as u8 } else { 0 });
                p.extend(rng.bytes(k));
                frame(&p, &mut s);
            }
            6 => {
                // inner length larger than the payload / varint cut short
                let k = rng.range(1, 6) as usize;
                let mut p = vec![(k + rng.range(1, 100) as usize) as u8];
                p.extend(rng.bytes(k - 1));
                if rng.chance(1, 3) {
                    p = vec![0xff; rng.range(1, 11) as usize];
                }
                frame(&p, &mut s);
            }
            7 => frame(&[], &mut s), // empty payload: Vec<u8> needs at least the length byte
            8 => {
                // length prefix announcing more than follows / more than max
                let n: u32 = *rng.pick(&[1u32, 2, 6, 17, 65, 255, 256, 65536, 0x0800_0000, 0x0800_0001, u32::MAX]);
                s.extend_from_slice(&n.to_be_bytes());
                let j = rng.below(4) as usize;
                s.extend(rng.bytes(j));
            }
            9 => {
                let j = rng.range(1, 9) as usize;
                s.extend(rng.bytes(j)) // garbage
            }
            10 => {
                // little-endian length prefix
                let k = rng.range(1, 5) as usize;
                let p = postcard::to_allocvec(&rng.bytes(k)).unwrap();
                s.extend_from_slice(&(p.len() as u32).to_le_bytes());
                s.extend_from_slice(&p);
            }
            _ => {
                // prefix that counts itself (len + 4)
                let k = rng.below(5) as usize;
                let p = postcard::to_allocvec(&rng.bytes(k)).unwrap();
                s.extend_from_slice(&(p.len() as u32 + 4).to_be_bytes());
                s.extend_from_slice(&p);
            }
        }
    }
    if rng.chance(1, 4) {
        let k = rng.below(s.len() as u64 + 1) as usize;
        s.truncate(k);
    }
    (s, dec_max)
}

/// Hostile byte stream through `Codec<Vec<u8>>` with several chunkings; oracle = the property's
/// "any way the byte stream is split": every chunking must give the same items and the same end.
fn malformed_case(cx: &Ctx, out: &mut Out, rng: &mut Rng, stream: &[u8], dec_max: usize, n_random: usize, all_two: bool) {
    let mut reference: Option<(Vec<Vec<u8>>, String)> = None;
    for cuts in chunkings(rng, stream.len(), n_random, all_two, stream.len() <= 9) {
        let chunks = split_at_cuts(stream, &cuts);
        let has_empty = chunks.iter().any(|c| c.is_empty()) && chunks.len() > 1;
        let eof_mode = !has_empty && !rng.chance(1, 5);
        let (items, term, used) = if eof_mode {
            run_framed::<Vec<u8>>(cx, dec_max, &chunks, rng.chance(1, 3))
        } else {
            let (i, t) = run_open::<Vec<u8>>(dec_max, &chunks);
            (i, t, chunks.clone())
        };
        let req = format!("dec {} bytes {} {}", dec_max, if eof_mode { "eof" } else { "open" }, used.iter().map(|c| hx(c)).collect::<Vec<_>>().join(" "));
        let mut ans: Vec<String> = items.iter().map(|m| hx(m)).collect();
        ans.push(term.clone());
        let ans = ans.join(" ");
        let n = out.case(req.trim(), &ans, false);
        out.count("malformed dec");
        out.count(&format!("malformed terminal={}", if term.starts_with("open") { "open" } else { &term }));
        // normalise the end marker so that eof/open runs can be compared
        let norm = if term.starts_with("open:") { if term == "open:0" { "end".to_string() } else { "E:eof".to_string() } } else { term.clone() };
        if term == "PANIC" || term == "RUNAWAY" {
            out.oracle_fail(n, if term == "PANIC" { "panic" } else { "runaway" }, "codec panicked / yields items without consuming bytes on a hostile stream", req.trim(), &ans);
        }
        match &reference {
            None => reference = Some((items, norm)),
            Some((ri, rt)) => {
                if *ri != items || *rt != norm {
                    out.oracle_fail(n, "chunking", &format!("same bytes, different chunking, different outcome: {} items/{} vs {} items/{}", ri.len(), rt, items.len(), norm), req.trim(), &ans);
                }
            }
        }
    }
}

// ---------------------------------------------------------------------------------------------

fn replay(cx: &Ctx, out: &mut Out, req: &str) {
    let t: Vec<&str> = req.split_whitespace().collect();
    let mut rng = Rng::new(1);
    match t.first().copied() {
        Some("enc") => {
            let max: usize = t[1].parse().unwrap();
            let ty = t[2];
            let payloads: Vec<Vec<u8>> = t[3..].iter().map(|s| unhx(s)).collect();
            macro_rules! go {
                ($m:ty) => {{
                    let msgs: Vec<$m> = payloads.iter().map(|p| postcard::from_bytes(p).expect("payload of the named type")).collect();
                    let plan = Plan { enc_max: max, dec_max: max, cut: None, n_random: 3, all_two: true, all_comp: false };
                    stream_case(cx, out, &mut rng, ty, &msgs, &plan);
                }};
            }
            match ty {
                "vec" => go!(Vec<u8>),
                "string" => go!(String),
                "unit" => go!(()),
                "logsync" => go!(Lsm),
                "topic" => go!(Tlsm),
                _ => go!(OpMsg),
            }
        }
        Some("dec") => {
            let max: usize = t[1].parse().unwrap();
            let kind = t[2];
            let eof = t[3] == "eof";
            let chunks: Vec<Vec<u8>> = t[4..].iter().map(|s| unhx(s)).collect();
            macro_rules! go {
                ($m:ty, $show:expr) => {{
                    // the very chunking of the request, then one chunk and byte by byte: all must agree
                    let stream: Vec<u8> = chunks.concat();
                    let mut variants = vec![chunks.clone(), vec![stream.clone()]];
                    variants.push(stream.iter().map(|b| vec![*b]).collect());
                    let mut reference: Option<(Vec<$m>, String)> = None;
                    for (vi, ch) in variants.iter().enumerate() {
                        let (items, term, used): (Vec<$m>, String, Vec<Vec<u8>>) = if eof && !ch.iter().any(|c| c.is_empty()) {
                            run_framed::<$m>(cx, max, ch, false)
                        } else {
                            let (i, t) = run_open::<$m>(max, ch);
                            (i, t, ch.clone())
                        };
                        let is_eof = eof && !ch.iter().any(|c| c.is_empty());
                        let r = format!("dec {} {} {} {}", max, kind, if is_eof { "eof" } else { "open" }, used.iter().map(|c| hx(c)).collect::<Vec<_>>().join(" "));
                        let mut a: Vec<String> = items.iter().map($show).collect();
                        a.push(term.clone());
                        let a = a.join(" ");
                        let n = out.case(r.trim(), &a, false);
                        let norm = if term.starts_with("open:") { if term == "open:0" { "end".to_string() } else { "E:eof".to_string() } } else { term.clone() };
                        match &reference {
                            None => reference = Some((items, norm)),
                            Some((ri, rt)) => {
                                if *ri != items || *rt != norm {
                                    out.oracle_fail(n, "chunking", &format!("variant {vi}: same bytes, different chunking, different outcome"), r.trim(), &a);
                                }
                            }
                        }
                    }
                }};
            }
            match kind {
                "bytes" => go!(Vec<u8>, |m: &Vec<u8>| hx(m)),
                "raw:vec" => go!(Vec<u8>, |m: &Vec<u8>| hx(&postcard::to_allocvec(m).unwrap())),
                "raw:string" => go!(String, |m: &String| hx(&postcard::to_allocvec(m).unwrap())),
                "raw:unit" => go!((), |m: &()| hx(&postcard::to_allocvec(m).unwrap())),
                "raw:logsync" => go!(Lsm, |m: &Lsm| hx(&postcard::to_allocvec(m).unwrap())),
                "raw:topic" => go!(Tlsm, |m: &Tlsm| hx(&postcard::to_allocvec(m).unwrap())),
                _ => go!(OpMsg, |m: &OpMsg| hx(&postcard::to_allocvec(m).unwrap())),
            }
        }
        _ => panic!("unknown request"),
    }
}

fn main() {
    let args = Args::parse();
    let mut out = Out::new(&args.out);
    let cx = Ctx { rt: tokio::runtime::Builder::new_current_thread().enable_all().start_paused(true).build().unwrap() };
    if args.mode == "replay" {
        let text = std::fs::read_to_string(args.replay.as_ref().expect("replay file")).unwrap();
        let v: hc::serde_json::Value = hc::serde_json::from_str(&text).unwrap();
        let req = v["request"].as_str().unwrap().to_string();
        replay(&cx, &mut out, &req);
        out.finish("replay", false);
        return;
    }
    let mut rng = Rng::new(args.seed);
    let g = Gen::new(&mut rng);
    let (n_streams, n_short, n_mal) = match args.tier {
        Tier::Quick => (4000, 200, 2500),
        Tier::Thorough => (50000, 1200, 25000),
        Tier::Search => (30000, 600, 15000),
    };
    // fixed corner cases first: the documentation example, the unit type with max 0, exact-size limits
    {
        let plan = |e, d| Plan { enc_max: e, dec_max: d, cut: None, n_random: 3, all_two: true, all_comp: true };
        stream_case(&cx, &mut out, &mut rng, "string", &["hello".to_string()], &plan(DEFAULT_MAX, DEFAULT_MAX));
        stream_case(&cx, &mut out, &mut rng, "string", &["hello".to_string()], &plan(6, 6));
        stream_case(&cx, &mut out, &mut rng, "string", &["hello".to_string()], &plan(5, 5));
        stream_case(&cx, &mut out, &mut rng, "string", &["hello".to_string()], &plan(DEFAULT_MAX, 5));
        stream_case(&cx, &mut out, &mut rng, "string", &["hello".to_string()], &plan(DEFAULT_MAX, 6));
        stream_case(&cx, &mut out, &mut rng, "unit", &[(), (), ()], &plan(0, 0));
        stream_case(&cx, &mut out, &mut rng, "vec", &[vec![1u8], vec![], vec![2, 3]], &plan(3, 1));
        stream_case(&cx, &mut out, &mut rng, "vec", &[vec![7u8; 127], vec![7u8; 128]], &Plan { enc_max: 129, dec_max: 129, cut: None, n_random: 3, all_two: false, all_comp: false });
    }
    for _ in 0..n_short {
        random_stream(&cx, &mut out, &mut rng, &g, true);
    }
    for _ in 0..n_streams {
        random_stream(&cx, &mut out, &mut rng, &g, false);
    }
    for i in 0..n_mal {
        let (s, dec_max) = malformed_stream(&mut rng);
        malformed_case(&cx, &mut out, &mut rng, &s, dec_max, 2, i % 10 == 0 && s.len() <= 40);
    }
    out.extra.insert("default_max_frame_len_used".into(), (DEFAULT_MAX as u64).into());
    out.finish(
        "streams of 0-30 real messages (Vec<u8>, String, (), LogSyncMessage, TopicLogSyncMessage with signed headers, (Header, Option<Body>)) encoded by Codec::encode into one buffer with max_frame_len in {0,1,size-1,size,size+1,max size,default}, optionally truncated, decoded through FramedRead over a chunked reader / the bare Decoder with empty chunks; short streams with every 2-chunk split and every composition (<= 11 bytes); hostile Vec<u8> streams (bad varints, trailing bytes, oversize/LE/self-counting prefixes, garbage, truncation). non-trivial = one chunking that both splits a 4-byte length prefix and delivers >= 2 whole frames in one chunk",
        false,
    );
}
