//! Types used to drive the real group CRDT and the canonical text encodings of the line protocol.
use std::collections::{BTreeMap, HashMap};
use std::fmt::Debug;

use p2panda_auth::group::resolver::StrongRemove;
use p2panda_auth::group::{
    GroupAction, GroupCrdt, GroupCrdtError, GroupCrdtState, GroupMember, GroupMembersState,
    GroupMembershipError,
};
use p2panda_auth::traits::{Conditions, IdentityHandle, Operation, OperationId};
use p2panda_auth::verif;
use p2panda_auth::{Access, AccessLevel};

#[derive(Copy, Clone, Debug, PartialEq, Eq, PartialOrd, Ord, Hash)]
pub struct Id(pub u8);
impl IdentityHandle for Id {}
impl std::fmt::Display for Id {
    fn fmt(&self, f: &mut std::fmt::Formatter<'_>) -> std::fmt::Result {
        write!(f, "{}", self.0)
    }
}

#[derive(Copy, Clone, Debug, PartialEq, Eq, PartialOrd, Ord, Hash)]
pub struct OpId(pub u32);
impl OperationId for OpId {}
impl std::fmt::Display for OpId {
    fn fmt(&self, f: &mut std::fmt::Formatter<'_>) -> std::fmt::Result {
        write!(f, "{}", self.0)
    }
}

pub trait CondT: Conditions + 'static {
    fn from_u8(x: u8) -> Self;
    fn to_u8(&self) -> u8;
    const UNIT: bool;
}
impl CondT for () {
    fn from_u8(_: u8) -> Self {}
    fn to_u8(&self) -> u8 {
        0
    }
    const UNIT: bool = true;
}
/// A totally ordered conditions type (derived `PartialOrd` on a `u8`), e.g. an expiry time.
#[derive(Clone, Debug, PartialEq, PartialOrd)]
pub struct Cond(pub u8);
impl Conditions for Cond {}
impl CondT for Cond {
    fn from_u8(x: u8) -> Self {
        Cond(x)
    }
    fn to_u8(&self) -> u8 {
        self.0
    }
    const UNIT: bool = false;
}

/// Plain (type-independent) access: level 0..3, optional condition.
pub type Acc = (u8, Option<u8>);
/// Plain member: (is_group, id)
pub type Mem = (bool, u8);

#[derive(Clone, Debug, PartialEq)]
pub enum Act {
    Create(Vec<(Mem, Acc)>),
    Add(Mem, Acc),
    Remove(Mem),
    Promote(Mem, Acc),
    Demote(Mem, Acc),
}

#[derive(Clone, Debug)]
pub struct POp {
    pub id: u32,
    pub author: u8,
    pub deps: Vec<u32>,
    pub group: u8,
    pub act: Act,
}

pub fn level(l: u8) -> AccessLevel {
    match l {
        0 => AccessLevel::Pull,
        1 => AccessLevel::Read,
        2 => AccessLevel::Write,
        _ => AccessLevel::Manage,
    }
}
pub fn level_no(l: &AccessLevel) -> u8 {
    match l {
        AccessLevel::Pull => 0,
        AccessLevel::Read => 1,
        AccessLevel::Write => 2,
        AccessLevel::Manage => 3,
    }
}
pub fn access<C: CondT>(a: Acc) -> Access<C> {
    Access { conditions: a.1.map(C::from_u8), level: level(a.0) }
}
pub fn plain_access<C: CondT>(a: &Access<C>) -> Acc {
    (level_no(&a.level), a.conditions.as_ref().map(|c| c.to_u8()))
}
pub fn member(m: Mem) -> GroupMember<Id> {
    if m.0 { GroupMember::Group(Id(m.1)) } else { GroupMember::Individual(Id(m.1)) }
}
pub fn plain_member(m: &GroupMember<Id>) -> Mem {
    match m {
        GroupMember::Individual(i) => (false, i.0),
        GroupMember::Group(i) => (true, i.0),
    }
}
pub fn action<C: CondT>(a: &Act) -> GroupAction<Id, C> {
    match a {
        Act::Create(l) => GroupAction::Create {
            initial_members: l.iter().map(|(m, a)| (member(*m), access(*a))).collect(),
        },
        Act::Add(m, a) => GroupAction::Add { member: member(*m), access: access(*a) },
        Act::Remove(m) => GroupAction::Remove { member: member(*m) },
        Act::Promote(m, a) => GroupAction::Promote { member: member(*m), access: access(*a) },
        Act::Demote(m, a) => GroupAction::Demote { member: member(*m), access: access(*a) },
    }
}

/// The operation type handed to the CRDT.
#[derive(Clone, Debug)]
pub struct GOp<C> {
    pub p: POp,
    pub action: GroupAction<Id, C>,
}
impl<C: CondT> GOp<C> {
    pub fn new(p: POp) -> Self {
        let action = action::<C>(&p.act);
        GOp { p, action }
    }
}
impl<C: CondT> Operation<Id, OpId, C> for GOp<C> {
    fn id(&self) -> OpId {
        OpId(self.p.id)
    }
    fn author(&self) -> Id {
        Id(self.p.author)
    }
    fn dependencies(&self) -> Vec<OpId> {
        self.p.deps.iter().map(|d| OpId(*d)).collect()
    }
    fn group_id(&self) -> Id {
        Id(self.p.group)
    }
    fn action(&self) -> GroupAction<Id, C> {
        self.action.clone()
    }
}

pub type Rs<C> = StrongRemove<Id, OpId, GOp<C>, C>;
pub type G<C> = GroupCrdt<Id, OpId, GOp<C>, C, Rs<C>>;
pub type Y<C> = GroupCrdtState<Id, OpId, GOp<C>, C>;
pub type GErr<C> = GroupCrdtError<Id, OpId, GOp<C>, C, Rs<C>>;
pub type MStateR<C> = GroupMembersState<GroupMember<Id>, C>;
pub type GStatesR<C> = HashMap<Id, MStateR<C>>;

/// Plain member state: member -> (mc, ac, access)
pub type PMState = BTreeMap<Mem, (usize, usize, Acc)>;
pub type PGStates = BTreeMap<u8, PMState>;

pub fn plain_mstate<C: CondT>(s: &MStateR<C>) -> PMState {
    verif::members_state_entries(s)
        .into_iter()
        .map(|(m, (mc, a, ac))| (plain_member(&m), (mc, ac, plain_access(&a))))
        .collect()
}
pub fn real_mstate<C: CondT>(s: &PMState) -> MStateR<C> {
    verif::members_state(
        s.iter()
            .map(|(m, (mc, ac, a))| (member(*m), verif::member_state(*mc, access::<C>(*a), *ac)))
            .collect(),
    )
}
pub fn plain_gstates<C: CondT>(gs: &GStatesR<C>) -> PGStates {
    gs.iter().map(|(g, s)| (g.0, plain_mstate(s))).collect()
}

pub fn show_mem(m: Mem) -> String {
    format!("{}{}", if m.0 { 'g' } else { 'i' }, m.1)
}
pub fn show_acc(a: Acc) -> String {
    format!("{}:{}", a.0, a.1.map(|c| c.to_string()).unwrap_or_else(|| "-".into()))
}
fn sort_key(m: &Mem) -> (u8, u8) {
    (m.0 as u8, m.1)
}
pub fn show_mstate(s: &PMState) -> String {
    if s.is_empty() {
        return "_".into();
    }
    let mut v: Vec<_> = s.iter().collect();
    v.sort_by_key(|(m, _)| sort_key(m));
    v.iter()
        .map(|(m, (mc, ac, a))| format!("{}:{}:{}:{}", show_mem(**m), mc, ac, show_acc(*a)))
        .collect::<Vec<_>>()
        .join(",")
}
pub fn show_gstates(gs: &PGStates) -> String {
    if gs.is_empty() {
        return "_".into();
    }
    gs.iter().map(|(g, s)| format!("{}={}", g, show_mstate(s))).collect::<Vec<_>>().join("/")
}
pub fn show_mem_acc_list(l: &[(Mem, Acc)], sorted: bool) -> String {
    if l.is_empty() {
        return "_".into();
    }
    let mut v = l.to_vec();
    if sorted {
        v.sort_by_key(|(m, a)| (sort_key(m), *a));
    }
    v.iter().map(|(m, a)| format!("{}:{}", show_mem(*m), show_acc(*a))).collect::<Vec<_>>().join(",")
}
pub fn show_id_acc_list(l: &[(u8, Acc)]) -> String {
    if l.is_empty() {
        return "_".into();
    }
    let mut v = l.to_vec();
    v.sort();
    v.iter().map(|(i, a)| format!("{}:{}", i, show_acc(*a))).collect::<Vec<_>>().join(",")
}
pub fn show_ids(l: &[u32]) -> String {
    if l.is_empty() {
        return "_".into();
    }
    l.iter().map(|x| x.to_string()).collect::<Vec<_>>().join(",")
}
/// the two action tokens
pub fn show_act(a: &Act) -> String {
    match a {
        Act::Create(l) => format!("create {}", show_mem_acc_list(l, false)),
        Act::Add(m, a) => format!("add {}:{}", show_mem(*m), show_acc(*a)),
        Act::Remove(m) => format!("remove {}", show_mem(*m)),
        Act::Promote(m, a) => format!("promote {}:{}", show_mem(*m), show_acc(*a)),
        Act::Demote(m, a) => format!("demote {}:{}", show_mem(*m), show_acc(*a)),
    }
}
pub fn show_member_err(e: &GroupMembershipError<GroupMember<Id>>) -> String {
    let (w, m) = match e {
        GroupMembershipError::AlreadyAdded(m) => ("AlreadyAdded", m),
        GroupMembershipError::AlreadyRemoved(m) => ("AlreadyRemoved", m),
        GroupMembershipError::InsufficientAccess(m) => ("InsufficientAccess", m),
        GroupMembershipError::InactiveActor(m) => ("InactiveActor", m),
        GroupMembershipError::InactiveMember(m) => ("InactiveMember", m),
        GroupMembershipError::UnrecognisedActor(m) => ("UnrecognisedActor", m),
        GroupMembershipError::UnrecognisedMember(m) => ("UnrecognisedMember", m),
    };
    format!("{}:{}", w, show_mem(plain_member(m)))
}

// ---- parsing (replay of state-level lines) ----------------------------------------------------

pub fn parse_mem(t: &str) -> Option<Mem> {
    let (k, r) = t.split_at(1);
    let id: u8 = r.parse().ok()?;
    match k {
        "i" => Some((false, id)),
        "g" => Some((true, id)),
        _ => None,
    }
}
pub fn parse_acc(l: &str, c: &str) -> Option<Acc> {
    Some((l.parse().ok()?, if c == "-" { None } else { Some(c.parse().ok()?) }))
}
pub fn parse_mem_acc(t: &str) -> Option<(Mem, Acc)> {
    let f: Vec<&str> = t.split(':').collect();
    if f.len() != 3 {
        return None;
    }
    Some((parse_mem(f[0])?, parse_acc(f[1], f[2])?))
}
pub fn parse_mstate(t: &str) -> Option<PMState> {
    let mut s = PMState::new();
    if t == "_" {
        return Some(s);
    }
    for e in t.split(',') {
        let f: Vec<&str> = e.split(':').collect();
        if f.len() != 5 {
            return None;
        }
        s.insert(parse_mem(f[0])?, (f[1].parse().ok()?, f[2].parse().ok()?, parse_acc(f[3], f[4])?));
    }
    Some(s)
}
pub fn parse_act(kind: &str, arg: &str) -> Option<Act> {
    Some(match kind {
        "create" => Act::Create(if arg == "_" {
            vec![]
        } else {
            arg.split(',').map(parse_mem_acc).collect::<Option<Vec<_>>>()?
        }),
        "add" => {
            let (m, a) = parse_mem_acc(arg)?;
            Act::Add(m, a)
        }
        "remove" => Act::Remove(parse_mem(arg)?),
        "promote" => {
            let (m, a) = parse_mem_acc(arg)?;
            Act::Promote(m, a)
        }
        "demote" => {
            let (m, a) = parse_mem_acc(arg)?;
            Act::Demote(m, a)
        }
        _ => return None,
    })
}

// ---- the order-dependence hazard of `members_inner`, computed with the real comparison operators

/// All visits of the nested traversal with the access carried along each path.
pub fn paths<C: CondT>(cur: &GStatesR<C>, g: Id, root: Option<Access<C>>, fuel: u32, out: &mut Vec<(GroupMember<Id>, Access<C>)>) {
    if fuel == 0 {
        return;
    }
    let Some(st) = cur.get(&g) else { return };
    for (m, a) in st.access_levels() {
        let next = match &root {
            Some(r) => {
                if a <= *r {
                    a.clone()
                } else {
                    r.clone()
                }
            }
            None => a.clone(),
        };
        out.push((m, next.clone()));
        if let GroupMember::Group(id) = m {
            paths(cur, id, Some(next), fuel - 1, out);
        }
    }
}

/// No dominating element among the path accesses of some member: answer of `members_inner`
/// depends on map iteration order ("member reachable via >= 2 paths whose accesses are incomparable
/// or cyclic under Access::<").
pub fn hazard<C: CondT>(cur: &GStatesR<C>, g: Id) -> bool {
    let mut ps = vec![];
    paths(cur, g, None, 1000, &mut ps);
    ps.iter().any(|(m, _)| {
        let mine: Vec<&Access<C>> = ps.iter().filter(|(q, _)| q == m).map(|(_, a)| a).collect();
        !mine.iter().any(|d| mine.iter().all(|x| *x == *d || (*x < *d && !(*d < *x))))
    })
}

pub fn show_gerr<C: CondT>(e: &GErr<C>) -> String {
    match e {
        GroupCrdtError::Inner(_) => "E:nostate".into(),
        GroupCrdtError::DuplicateOperation(..) => "E:dup".into(),
        GroupCrdtError::GroupCycle(..) => "E:cycle".into(),
        GroupCrdtError::StateChangeError(_, e) => format!("E:st:{}", show_member_err(e)),
        GroupCrdtError::ManagerGroupsNotAllowed(g) => format!("E:mgr:{}", g.0),
        GroupCrdtError::Resolver(_) => "E:resolver".into(),
    }
}

#[allow(dead_code)]
pub fn dbg<T: Debug>(t: &T) -> String {
    format!("{t:?}")
}
