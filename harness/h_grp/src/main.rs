//! Auth-groups harness for C31 (replicas converge) and C33 (only authorised actors change
//! membership). Runs the real `p2panda_auth` group CRDT (`GroupCrdt::process`, `state::*`,
//! `members` / `groups` / `root_members`, `StrongRemove`) and writes the request lines of the
//! protocol described in `lean/P2/Drv/GroupCmd.lean`.
//!
//! `h_grp gen --seed S --tier T --out DIR --prop C31|C33`, `h_grp replay FILE --out DIR --prop ..`
mod hist;
mod model_io;
mod refsem;
mod statelevel;

use hc::{Args, Out, Rng, Tier};

pub struct Ctx {
    pub out: Out,
    pub prop: String,
}

fn main() {
    let args = Args::parse();
    let prop = args.extra.get("prop").cloned().unwrap_or_else(|| "C33".into());
    let mut cx = Ctx { out: Out::new(&args.out), prop: prop.clone() };
    if args.mode == "replay" {
        let text = std::fs::read_to_string(args.replay.as_ref().expect("replay file")).unwrap();
        let v: hc::serde_json::Value = hc::serde_json::from_str(&text).unwrap();
        let req = v["request"].as_str().unwrap().to_string();
        if req.starts_with("st ") {
            statelevel::replay(&mut cx, &req);
        } else if req.starts_with("hist ") {
            hist::replay(&mut cx, &req);
        } else {
            panic!("cannot replay request: {req}");
        }
        cx.out.finish("replay", false);
        return;
    }
    let mut rng = Rng::new(args.seed);
    // Known witnesses first (always part of a run).
    hist::witnesses(&mut cx);
    if prop == "C33" {
        statelevel::exhaustive(&mut cx, args.tier != Tier::Quick);
        statelevel::random(&mut cx, &mut rng, if args.tier == Tier::Quick { 20_000 } else { 400_000 });
    }
    let histories = match (prop.as_str(), &args.tier) {
        ("C33", Tier::Quick) => 1_200,
        ("C33", Tier::Thorough) => 30_000,
        ("C33", Tier::Search) => 15_000,
        (_, Tier::Quick) => 1_500,
        (_, Tier::Thorough) => 40_000,
        (_, Tier::Search) => 20_000,
    };
    // targeted family: remove + re-add of a member concurrent with access changes of that member
    let ntarget = match (prop.as_str(), &args.tier) {
        ("C31", Tier::Quick) => 200,
        ("C31", _) => 1_500,
        (_, Tier::Quick) => 10,
        _ => 100,
    };
    for i in 0..ntarget {
        let sub = rng.next_u64() >> 16;
        hist::targeted_history(&mut cx, sub, i % 4 == 0);
    }
    // targeted family (C33): promoted, removed, re-added lower, stale concurrent branch, acts as manager
    let nauth = match (prop.as_str(), &args.tier) {
        ("C33", Tier::Quick) => 300,
        ("C33", _) => 4_000,
        (_, Tier::Quick) => 20,
        _ => 200,
    };
    for i in 0..nauth {
        let sub = rng.next_u64() >> 16;
        hist::targeted33_history(&mut cx, sub, i % 4 == 0);
    }
    for _ in 0..histories {
        let sub = rng.next_u64() >> 16;
        let unit = rng.chance(1, 3);
        hist::history(&mut cx, sub, unit);
    }
    // malformed stream: the model driver must refuse, never default
    for bad in [
        "st add i1:9:- i0 i0:1:0:3:-",
        "st add i1:1:- i0 i0:1:0:3:-,i0:1:0:1:-",
        "st frobnicate i1 i0 _",
        "dec 2 0 1 0 10 remove i1 _ _",
        "dec 0 0 1 0 10 remove _",
        "mem x _",
        "mem 10 10=i0:1:0:3",
        "mrg 10=i0:1:0:3:-/10=_",
        "uns 10 q1 _",
    ] {
        cx.out.case(bad, "bad-op", false);
        cx.out.count("malformed requests");
    }
    let rule = if prop == "C33" {
        "targeted family: a member promoted to Manage, removed and re-added at a lower level on one branch, an unrelated concurrent branch forked before the removal, tips merged, then the member acts as a manager - every decision judged against the reference state at the dependencies (harness/h_grp/src/refsem.rs: plain replay under the property's merge semantics, used wherever no strong-remove rule can fire), all delivery orders replayed; state-level: every add/remove/promote/demote call over all 3-member states of a small domain x 3 actors x 4 targets (exhaustive) + random larger states; history-level: random multi-peer histories (3-6 actors, 1-3 groups incl. nesting, partial views, 30% unauthorised / invalid / duplicate / cyclic / manager-group / stale-dependency actions, C = () and C = u8 conditions), every process() decision compared with the model relative to the real state at the dependencies. non-trivial = a decision line of a history with at least one concurrent rebuild, one rejected operation and one nested group, or a state-level call that is rejected / by a non-manager"
    } else {
        "targeted family (remove + 2-3 concurrent re-adds of a member, or remove+re-add branches, concurrent with access changes of that member, optional merge point + two concurrent access changes; no conditions, no nesting): every causal delivery order (cap 600 / 120) replayed on its own replica, replicas queried 25 times; random multi-peer histories (3-6 actors, 1-3 groups incl. nesting, partial views, unauthorised actions, C = () and C = u8 conditions on 30% of accesses); each accepted operation set re-processed by 4 fresh replicas in random causal orders (all queried twice after every operation); members / groups / root_members compared between replicas and with the model's traversal fed with the replica's own states at its heads. non-trivial = history with at least one concurrent rebuild, one rejected operation and one nested group"
    };
    cx.out.finish(rule, false);
}
