//! C33, state level: single calls of `state::{create, add, remove, promote, demote}` on arbitrary
//! member states (`st` lines).
use hc::Rng;
use p2panda_auth::verif;

use crate::Ctx;
use crate::model_io::*;

fn active(s: &PMState, m: Mem) -> bool {
    s.get(&m).map(|e| e.0 % 2 == 1).unwrap_or(false)
}
fn manager(s: &PMState, m: Mem) -> bool {
    s.get(&m).map(|e| e.0 % 2 == 1 && e.2.0 == 3).unwrap_or(false)
}

/// The property's own predicate for one call (independent of the Lean model).
/// Returns (tag, what) on failure.
pub fn judge(act: &Act, actor: Mem, before: &PMState, res: &Result<PMState, String>) -> Option<(String, String)> {
    let (target, authorised, valid, shortcut) = match act {
        Act::Create(_) => return None,
        Act::Add(t, _) => (*t, manager(before, actor), !active(before, *t), None),
        Act::Remove(t) => (
            *t,
            manager(before, actor) || (active(before, actor) && actor == *t),
            active(before, *t),
            None,
        ),
        Act::Promote(t, _) => (
            *t,
            manager(before, actor),
            active(before, *t),
            if before.get(t).map(|e| e.2.0 == 3).unwrap_or(false) { Some("promote") } else { None },
        ),
        Act::Demote(t, _) => (
            *t,
            manager(before, actor),
            active(before, *t),
            if before.get(t).map(|e| e.2.0 == 0).unwrap_or(false) { Some("demote") } else { None },
        ),
    };
    match res {
        Ok(after) => {
            if !authorised || !valid {
                let tag = match shortcut {
                    Some(k) => format!("noop-{k}-accepted-without-checks"),
                    None if !authorised => "accepted-unauthorized".to_string(),
                    None => "accepted-invalid-action".to_string(),
                };
                return Some((
                    tag,
                    format!(
                        "call succeeded although actor {} authorised={authorised}, action valid={valid}",
                        show_mem(actor)
                    ),
                ));
            }
            // effect: only the target's entry may change, and it changes as the action says
            for k in before.keys().chain(after.keys()) {
                if *k != target && before.get(k) != after.get(k) {
                    return Some(("effect-other-member".into(), format!("entry of {} changed", show_mem(*k))));
                }
            }
            let ok = match act {
                Act::Add(_, a) => after.get(&target).map(|e| e.0 % 2 == 1 && e.2 == *a).unwrap_or(false),
                Act::Remove(_) => after.get(&target).map(|e| e.0 % 2 == 0).unwrap_or(false),
                Act::Promote(_, a) | Act::Demote(_, a) => after
                    .get(&target)
                    .map(|e| e.0 % 2 == 1 && (e.2 == *a || shortcut.is_some()))
                    .unwrap_or(false),
                Act::Create(_) => true,
            };
            if !ok {
                return Some(("effect-target".into(), format!("target entry after the call: {:?}", after.get(&target))));
            }
            None
        }
        Err(_) => {
            if authorised && valid {
                Some(("rejected-authorized".into(), "authorised, valid action was rejected".into()))
            } else {
                None
            }
        }
    }
}

pub fn call<C: CondT>(act: &Act, actor: Mem, s: &PMState) -> Result<PMState, String> {
    let st = real_mstate::<C>(s);
    let who = member(actor);
    let r = match act {
        Act::Create(l) => {
            let init: Vec<_> = l.iter().map(|(m, a)| (member(*m), access::<C>(*a))).collect();
            Ok(verif::create(&init))
        }
        Act::Add(m, a) => verif::add(st, who, member(*m), access::<C>(*a)),
        Act::Remove(m) => verif::remove(st, who, member(*m)),
        Act::Promote(m, a) => verif::promote(st, who, member(*m), access::<C>(*a)),
        Act::Demote(m, a) => verif::demote(st, who, member(*m), access::<C>(*a)),
    };
    r.map(|s| plain_mstate(&s)).map_err(|e| show_member_err(&e))
}

pub fn emit(cx: &mut Ctx, unit: bool, act: &Act, actor: Mem, s: &PMState) {
    let req = format!("st {} {} {}", show_act(act), show_mem(actor), show_mstate(s));
    let r = hc::catch(|| if unit { call::<()>(act, actor, s) } else { call::<Cond>(act, actor, s) });
    let kind = match act {
        Act::Create(_) => "create",
        Act::Add(..) => "add",
        Act::Remove(_) => "remove",
        Act::Promote(..) => "promote",
        Act::Demote(..) => "demote",
    };
    match r {
        Ok(res) => {
            let ans = match &res {
                Ok(s) => format!("ok {}", show_mstate(s)),
                Err(e) => format!("E:{e}"),
            };
            let nt = res.is_err() || !manager(s, actor);
            cx.out.count(&format!("st {kind}: {}", match &res {
                Ok(_) => "ok".to_string(),
                Err(e) => e.split(':').next().unwrap_or("").to_string(),
            }));
            let n = cx.out.case(&req, &ans, nt);
            if let Act::Create(l) = act {
                // create: exactly the listed members, active, with the last listed access
                let s = res.as_ref().unwrap();
                let good = l.iter().all(|(m, _)| {
                    let last = l.iter().rev().find(|(x, _)| x == m).unwrap().1;
                    s.get(m).map(|e| *e == (1, 0, last)).unwrap_or(false)
                }) && s.keys().all(|k| l.iter().any(|(m, _)| m == k));
                if !good {
                    cx.out.oracle_fail(n, "create-effect", "created state is not the listed members", &req, &ans);
                }
            } else if let Some((tag, what)) = judge(act, actor, s, &res) {
                cx.out.oracle_fail(n, &tag, &what, &req, &ans);
            }
        }
        Err(e) => {
            let n = cx.out.case(&req, "PANIC", true);
            cx.out.oracle_fail(n, "panic", &e, &req, "PANIC");
        }
    }
}

pub fn replay(cx: &mut Ctx, req: &str) {
    let t: Vec<&str> = req.split_whitespace().collect();
    let act = parse_act(t[1], t[2]).expect("action");
    let actor = parse_mem(t[3]).expect("actor");
    let s = parse_mstate(t[4]).expect("state");
    let unit_ok = s.values().all(|e| e.2.1.is_none() || e.2.1 == Some(0));
    emit(cx, false, &act, actor, &s);
    if unit_ok {
        emit(cx, true, &act, actor, &s);
    }
}

fn acts_for(target: Mem) -> Vec<Act> {
    vec![
        Act::Add(target, (1, None)),
        Act::Add(target, (3, None)),
        Act::Add(target, (2, Some(1))),
        Act::Remove(target),
        Act::Promote(target, (3, None)),
        Act::Promote(target, (2, Some(0))),
        Act::Demote(target, (0, None)),
        Act::Demote(target, (1, None)),
    ]
}

/// Every call over all states of three members with small per-member domains.
pub fn exhaustive(cx: &mut Ctx, wide: bool) {
    let keys: [Mem; 3] = [(false, 0), (false, 1), (true, 2)];
    let mut dom: Vec<Option<(usize, usize, Acc)>> = vec![None];
    let mcs: &[usize] = if wide { &[1, 2, 3] } else { &[1, 2] };
    for &mc in mcs {
        for l in [0u8, 1, 3] {
            dom.push(Some((mc, 0, (l, None))));
        }
        if wide {
            dom.push(Some((mc, 1, (2, Some(0)))));
            dom.push(Some((mc, 1, (3, Some(1)))));
        }
    }
    dom.push(Some((1, 1, (3, Some(0)))));
    let actors: [Mem; 3] = [(false, 0), (false, 1), (false, 3)];
    let targets: [Mem; 4] = [(false, 0), (false, 1), (true, 2), (false, 3)];
    for a in &dom {
        for b in &dom {
            for c in &dom {
                let mut s = PMState::new();
                for (k, e) in keys.iter().zip([a, b, c]) {
                    if let Some(e) = e {
                        s.insert(*k, *e);
                    }
                }
                for actor in actors {
                    for t in targets {
                        for act in acts_for(t) {
                            emit(cx, false, &act, actor, &s);
                        }
                    }
                }
            }
        }
    }
    // create: duplicates in the initial list (later entries win), groups, conditions
    let lists: Vec<Vec<(Mem, Acc)>> = vec![
        vec![],
        vec![((false, 0), (3, None))],
        vec![((false, 0), (3, None)), ((false, 0), (1, None))],
        vec![((false, 0), (1, Some(0))), ((true, 2), (2, None)), ((false, 0), (3, None)), ((false, 1), (0, None))],
    ];
    for l in lists {
        emit(cx, false, &Act::Create(l.clone()), (false, 0), &PMState::new());
        emit(cx, true, &Act::Create(l), (false, 0), &PMState::new());
    }
}

pub fn random(cx: &mut Ctx, rng: &mut Rng, n: usize) {
    for i in 0..n {
        let unit = i % 3 == 0;
        let nk = rng.range(1, 6);
        let mut s = PMState::new();
        for k in 0..nk {
            if rng.chance(4, 5) {
                let m: Mem = (rng.chance(1, 4), k as u8);
                let cond = if rng.chance(3, 10) { Some(if unit { 0 } else { rng.below(3) as u8 }) } else { None };
                let lvl = if rng.chance(1, 3) { 3 } else { rng.below(4) as u8 };
                s.insert(m, (rng.range(1, 5) as usize, rng.below(3) as usize, (lvl, cond)));
            }
        }
        let pick_mem = |rng: &mut Rng| -> Mem {
            if rng.chance(5, 6) && !s.is_empty() {
                *s.keys().nth(rng.below(s.len() as u64) as usize).unwrap()
            } else {
                (rng.chance(1, 4), rng.below(7) as u8)
            }
        };
        let actor = pick_mem(rng);
        let target = pick_mem(rng);
        let cond = if rng.chance(3, 10) { Some(if unit { 0 } else { rng.below(3) as u8 }) } else { None };
        let acc: Acc = (rng.below(4) as u8, cond);
        let act = match rng.below(9) {
            0 | 1 => Act::Add(target, acc),
            2 | 3 => Act::Remove(target),
            4 | 5 => Act::Promote(target, acc),
            6 | 7 => Act::Demote(target, acc),
            _ => {
                let l = (0..rng.below(5)).map(|_| ((rng.chance(1, 4), rng.below(4) as u8), (rng.below(4) as u8, None))).collect();
                Act::Create(l)
            }
        };
        let actor = if rng.chance(1, 6) { target } else { actor };
        emit(cx, unit, &act, actor, &s);
    }
}
