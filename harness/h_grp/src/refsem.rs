//! Reference semantics, written from the property / the causal-length-CRDT description and *not* from the
//! implementation: per-member merge (the side with the higher member counter wins completely; the access
//! counter only breaks ties between equal member counters; a last tie takes the lower access), the five
//! state operations with their authorisation rules, and a plain replay of an operation graph
//! (state of an operation = action applied to the merge of its dependencies' states; an action that is
//! not allowed there leaves the state unchanged).
//!
//! The replay has no strong-remove resolver. `resolver_idle` says when that does not matter: no operation
//! concurrent to a remove / manager-demote is authored by the removed member or re-adds it (all filters
//! empty) and no two concurrent removals exist in one group (no mutual removes). Only then is the
//! reference used as the oracle's state at the dependencies.
use std::collections::{BTreeMap, BTreeSet};

use crate::model_io::*;

type Entry = (usize, usize, Acc);

fn acc_key(a: &Acc) -> (u8, u8, u8) {
    // level, then conditions with None greatest
    match a.1 {
        Some(c) => (a.0, 0, c),
        None => (a.0, 1, 0),
    }
}

pub fn ref_merge_entry(a: &Entry, b: &Entry) -> Entry {
    if a.0 != b.0 {
        return if a.0 > b.0 { *a } else { *b };
    }
    if a.1 != b.1 {
        return if a.1 > b.1 { *a } else { *b };
    }
    if acc_key(&a.2) <= acc_key(&b.2) { *a } else { *b }
}

pub fn ref_merge(a: &PMState, b: &PMState) -> PMState {
    let mut out = a.clone();
    for (k, v) in b {
        let e = match out.get(k) {
            Some(x) => ref_merge_entry(x, v),
            None => *v,
        };
        out.insert(*k, e);
    }
    out
}

pub fn ref_merge_groups(states: &[&PGStates]) -> PGStates {
    let mut out = PGStates::new();
    for s in states {
        for (g, m) in s.iter() {
            let merged = match out.get(g) {
                Some(x) => ref_merge(x, m),
                None => m.clone(),
            };
            out.insert(*g, merged);
        }
    }
    out
}

fn active(s: &PMState, m: Mem) -> bool {
    s.get(&m).map(|e| e.0 % 2 == 1).unwrap_or(false)
}
fn manager(s: &PMState, m: Mem) -> bool {
    s.get(&m).map(|e| e.0 % 2 == 1 && e.2.0 == 3).unwrap_or(false)
}

/// The action applied to one group's member state; `None` = not allowed there (state unchanged).
pub fn ref_apply(s: &PMState, actor: Mem, act: &Act) -> Option<PMState> {
    let mut out = s.clone();
    match act {
        Act::Create(l) => {
            let mut fresh = PMState::new();
            for (m, a) in l {
                fresh.insert(*m, (1, 0, *a));
            }
            return Some(fresh);
        }
        Act::Add(t, a) => {
            if !manager(s, actor) || active(s, *t) {
                return None;
            }
            let mc = s.get(t).map(|e| e.0 + 1).unwrap_or(1);
            out.insert(*t, (mc, 0, *a));
        }
        Act::Remove(t) => {
            if !(manager(s, actor) || (active(s, actor) && actor == *t)) || !active(s, *t) {
                return None;
            }
            let e = s[t];
            out.insert(*t, (e.0 + 1, 0, e.2));
        }
        Act::Promote(t, a) | Act::Demote(t, a) => {
            if !manager(s, actor) || !active(s, *t) {
                return None;
            }
            let e = s[t];
            let at_end = match act {
                Act::Promote(..) => e.2.0 == 3,
                _ => e.2.0 == 0,
            };
            if !at_end && e.2 != *a {
                out.insert(*t, (e.0, e.1 + 1, *a));
            }
        }
    }
    Some(out)
}

/// Plain replay of the operations (ids increase along dependencies): id -> group states after the operation.
pub fn ref_replay(ops: &[POp]) -> BTreeMap<u32, PGStates> {
    let mut sorted: Vec<&POp> = ops.iter().collect();
    sorted.sort_by_key(|o| o.id);
    let mut states: BTreeMap<u32, PGStates> = BTreeMap::new();
    for o in sorted {
        let deps: Vec<&PGStates> = o.deps.iter().filter_map(|d| states.get(d)).collect();
        let mut cur = ref_merge_groups(&deps);
        let my = if matches!(o.act, Act::Create(_)) { Some(PMState::new()) } else { cur.get(&o.group).cloned() };
        if let Some(my) = my {
            if let Some(next) = ref_apply(&my, (false, o.author), &o.act) {
                cur.insert(o.group, next);
            }
        }
        states.insert(o.id, cur);
    }
    states
}

fn removal_of(o: &POp) -> Option<u8> {
    match &o.act {
        Act::Remove(m) => Some(m.1),
        Act::Demote(m, a) if a.0 != 3 => Some(m.1),
        _ => None,
    }
}

/// No strong-remove rule can fire on this operation graph (see module doc).
pub fn resolver_idle(ops: &[POp]) -> bool {
    let mut sorted: Vec<&POp> = ops.iter().collect();
    sorted.sort_by_key(|o| o.id);
    let mut anc: BTreeMap<u32, BTreeSet<u32>> = BTreeMap::new();
    for o in &sorted {
        let mut a = BTreeSet::new();
        for d in &o.deps {
            a.insert(*d);
            if let Some(x) = anc.get(d) {
                a.extend(x.iter().cloned());
            }
        }
        anc.insert(o.id, a);
    }
    let concurrent = |x: u32, y: u32| x != y && !anc[&x].contains(&y) && !anc[&y].contains(&x);
    for r in &sorted {
        let Some(removed) = removal_of(r) else { continue };
        for o in &sorted {
            if !concurrent(r.id, o.id) || o.group != r.group {
                continue;
            }
            if o.author == removed {
                return false;
            }
            if let Act::Add(m, _) = &o.act {
                if m.1 == removed {
                    return false;
                }
            }
            if removal_of(o).is_some() {
                return false;
            }
        }
    }
    true
}
