//! History level: simulated peers with partial views create operations (valid, unauthorised,
//! invalid, duplicate, cyclic, stale dependencies); every `process()` decision is recorded as a
//! `dec` line and judged by the C33 oracle; the accepted operation set is re-processed by fresh
//! replicas in random causal orders and all queries are compared (C31).
use std::collections::{BTreeSet, HashSet};
use std::panic::AssertUnwindSafe;

use hc::Rng;
use p2panda_auth::group::GroupMember;
use p2panda_auth::traits::Resolver;
use petgraph::Direction;

use crate::Ctx;
use crate::model_io::*;
use crate::refsem;
use crate::statelevel::judge;

const GROUP_BASE: u8 = 10;

#[derive(Default)]
struct HistStats {
    rebuilds: u32,
    rejected: u32,
    nested: bool,
    conds: bool,
}

/// Canonical answers of the three queries for one group.
fn query<C: CondT>(y: &Y<C>, g: u8) -> (Vec<(u8, Acc)>, Vec<(u8, Acc)>, Vec<(Mem, Acc)>) {
    let mut m: Vec<(u8, Acc)> = y.members(Id(g)).iter().map(|(i, a)| (i.0, plain_access(a))).collect();
    m.sort();
    let mut gr: Vec<(u8, Acc)> = y.groups(Id(g)).iter().map(|(i, a)| (i.0, plain_access(a))).collect();
    gr.sort();
    let mut r: Vec<(Mem, Acc)> =
        y.root_members(Id(g)).iter().map(|(m, a)| (plain_member(m), plain_access(a))).collect();
    r.sort();
    (m, gr, r)
}

fn head_ids<C: CondT>(y: &Y<C>) -> Vec<u32> {
    let mut h: Vec<u32> = y.inner.heads().iter().map(|o| o.0).collect();
    h.sort();
    h
}

/// One `process()` call on a clone of `y`: writes the `dec` line, judges it (C33), returns the
/// new replica if the operation was accepted, and the decision word.
fn process_event<C: CondT>(
    cx: &mut Ctx,
    y: &Y<C>,
    pop: &POp,
    hist: &str,
    emit: bool,
    nt: bool,
    st: &mut HistStats,
) -> (Option<Y<C>>, String) {
    let op = GOp::<C>::new(pop.clone());
    let known = y.inner.operations.contains_key(&OpId(pop.id));
    let heads: HashSet<OpId> = y.inner.heads();
    let deps: HashSet<OpId> = pop.deps.iter().map(|d| OpId(*d)).collect();
    let rb = heads != deps;
    // The state `validate` judges the operation against: the replica pruned to the operation's
    // predecessors and re-resolved by the real resolver (what `validate` does internally).
    let temp = hc::catch(AssertUnwindSafe(|| {
        let mut temp = y.inner.clone();
        if rb {
            let mut preds: HashSet<OpId> = HashSet::new();
            let mut stack: Vec<OpId> = deps.iter().cloned().filter(|d| temp.graph.contains_node(*d)).collect();
            while let Some(n) = stack.pop() {
                if preds.insert(n) {
                    for p in temp.graph.neighbors_directed(n, Direction::Incoming) {
                        stack.push(p);
                    }
                }
            }
            let others: Vec<OpId> = temp.graph.nodes().filter(|n| !preds.contains(n)).collect();
            for n in others {
                temp.graph.remove_node(n);
            }
            temp = Rs::<C>::process(temp).expect("resolver");
        }
        let mut theads: Vec<OpId> = temp.heads().into_iter().collect();
        theads.sort();
        let head_states: Vec<PGStates> =
            theads.iter().map(|h| plain_gstates(temp.states.get(h).expect("state of head"))).collect();
        let mut ign: Vec<u32> = temp.ignore.iter().map(|o| o.0).collect();
        ign.sort();
        let cur = plain_gstates(&temp.current_state());
        // Independent state at the dependencies: plain replay of the (pruned) operation graph under the
        // reference semantics (refsem.rs) - only where no strong-remove rule can fire.
        let pops: Vec<POp> = temp.graph.nodes().filter_map(|n| temp.operations.get(&n).map(|g| g.p.clone())).collect();
        let ref_cur = if refsem::resolver_idle(&pops) {
            let rs = refsem::ref_replay(&pops);
            let hs: Vec<&PGStates> = theads.iter().filter_map(|h| rs.get(&h.0)).collect();
            if hs.len() == theads.len() { Some(refsem::ref_merge_groups(&hs)) } else { None }
        } else {
            None
        };
        (head_states, ign, cur, ref_cur)
    }));
    let Ok((head_states, ign, cur, ref_cur)) = temp else {
        // the harness' own reconstruction failed: nothing to compare for this event
        cx.out.count("dec: state at dependencies not reconstructible (skipped)");
        let r = hc::catch(AssertUnwindSafe(|| G::<C>::process(y.clone(), &op)));
        return match r {
            Ok(Ok(y2)) => (Some(y2), "ok".into()),
            Ok(Err(e)) => (None, show_gerr(&e)),
            Err(_) => (None, "PANIC".into()),
        };
    };
    let r = hc::catch(AssertUnwindSafe(|| G::<C>::process(y.clone(), &op)));
    let (next, word, answer, after): (Option<Y<C>>, String, String, Option<PGStates>) = match r {
        Ok(Ok(y2)) => {
            let after = y2.inner.states.get(&OpId(pop.id)).map(plain_gstates);
            let ans = match (&after, rb) {
                (Some(a), false) => format!("ok {}", show_gstates(a)),
                _ => "ok".to_string(),
            };
            if rb && !y2.inner.ignore.is_empty() {
                cx.out.count("rebuilds leaving a non-empty ignore filter (strong-remove rules fired)");
            }
            if rb && !y2.inner.mutual_removes.is_empty() {
                cx.out.count("rebuilds with mutual removes");
            }
            (Some(y2), "ok".into(), ans, if rb { None } else { after })
        }
        Ok(Err(e)) => {
            let w = show_gerr(&e);
            (None, w.clone(), w, None)
        }
        Err(_) => (None, "PANIC".into(), "PANIC".into(), None),
    };
    if rb {
        st.rebuilds += 1;
    }
    if next.is_none() {
        st.rejected += 1;
    }
    cx.out.count(&format!("dec: {}", word.split(':').take(3).collect::<Vec<_>>().join(":").trim_end_matches(char::is_numeric)));
    if rb {
        cx.out.count("dec: concurrent to local heads (rebuild path)");
    }
    if emit {
        let mut req = format!(
            "dec {} {} {} {} {} {} {}",
            known as u8,
            rb as u8,
            pop.id,
            pop.author,
            pop.group,
            show_act(&pop.act),
            show_ids(&ign)
        );
        for h in &head_states {
            req.push(' ');
            req.push_str(&show_gstates(h));
        }
        let n = cx.out.case(&req, &answer, nt);
        // ---- C33 oracle: judged on the implementation's own answer -------------------------------
        let actor: Mem = (false, pop.author);
        // the oracle judges against the reference state at the dependencies wherever it is defined
        cx.out.count(if ref_cur.is_some() { "dec: judged on the reference state at the dependencies" } else { "dec: judged on the implementation's state (strong-remove rules may fire)" });
        if let (Some(rc), true) = (&ref_cur, cx.prop == "C33") {
            if *rc != cur {
                let g = rc.keys().chain(cur.keys()).find(|g| rc.get(g) != cur.get(g)).cloned().unwrap_or(0);
                cx.out.oracle_fail(
                    n,
                    "state-at-dependencies-differs-from-reference",
                    &format!(
                        "group {g}: implementation's merged state at the dependencies is {} but the reference semantics gives {}; line: {req}",
                        cur.get(&g).map(show_mstate).unwrap_or_else(|| "absent".into()),
                        rc.get(&g).map(show_mstate).unwrap_or_else(|| "absent".into())
                    ),
                    hist,
                    &answer,
                );
            }
        }
        let cur = ref_cur.unwrap_or(cur);
        let fail: Option<(String, String)> = if known {
            if word == "ok" {
                Some(("duplicate-accepted".into(), "an already processed operation was accepted again".into()))
            } else {
                None
            }
        } else if word == "PANIC" || matches!(pop.act, Act::Create(_)) {
            None
        } else if let Some(my) = cur.get(&pop.group) {
            if word == "ok" {
                match &after {
                    Some(a) => judge(&pop.act, actor, my, &Ok(a.get(&pop.group).cloned().unwrap_or_default())),
                    // rebuild path: the stored state comes from the resolver; judge authorisation only
                    None => judge(&pop.act, actor, my, &Ok(PMState::new())).filter(|(t, _)| !t.starts_with("effect")),
                }
            } else if word.starts_with("E:st:") {
                judge(&pop.act, actor, my, &Err(word.clone()))
            } else {
                None
            }
        } else {
            None
        };
        if let (Some((tag, what)), true) = (fail, cx.prop == "C33") {
            cx.out.oracle_fail(n, &format!("process-{tag}"), &format!("{what}; line: {req} -> {answer}"), hist, &answer);
        }
    }
    (next, word)
}

struct Peer<C> {
    y: Y<C>,
    known: BTreeSet<u32>,
}

fn rand_acc(rng: &mut Rng, unit: bool, allow_manage: bool, st: &mut HistStats) -> Acc {
    let l = if allow_manage { rng.below(4) } else { rng.below(3) } as u8;
    let c = if rng.chance(3, 10) {
        st.conds = true;
        Some(if unit { 0 } else { rng.below(4) as u8 })
    } else {
        None
    };
    (l, c)
}

fn reachable(view: &dyn Fn(u8) -> Vec<(Mem, Acc)>, from: u8, to: u8) -> bool {
    let mut stack = vec![from];
    let mut seen = BTreeSet::new();
    while let Some(g) = stack.pop() {
        if !seen.insert(g) {
            continue;
        }
        if g == to {
            return true;
        }
        for (m, _) in view(g) {
            if m.0 {
                stack.push(m.1);
            }
        }
    }
    false
}

fn run<C: CondT>(cx: &mut Ctx, sub: u64) {
    let unit = C::UNIT;
    let hist = format!("hist {} {}", if unit { "U" } else { "C" }, sub);
    let mut rng = Rng::new(sub);
    let mut st = HistStats::default();
    let na = rng.range(3, 6) as u8;
    let ng = rng.range(2, 4) as u8;
    let nops = if rng.chance(1, 4) { rng.range(20, 40) } else { rng.range(5, 20) };
    let mut peers: Vec<Peer<C>> = (0..na).map(|_| Peer { y: G::<C>::init(), known: BTreeSet::new() }).collect();
    let mut ops: Vec<POp> = vec![]; // accepted operations, in creation order (a causal order)
    let mut created: Vec<u8> = vec![];
    let mut next_id: u32 = 1;
    let c33 = cx.prop == "C33";

    for step in 0..nops {
        let p = rng.below(na as u64) as usize;
        if rng.chance(1, 2) && na > 1 {
            // sync: learn everything another peer knows (union of causally closed sets), in causal order
            let q = rng.below(na as u64) as usize;
            if q != p {
                let missing: Vec<POp> =
                    ops.iter().filter(|o| peers[q].known.contains(&o.id) && !peers[p].known.contains(&o.id)).cloned().collect();
                for o in missing {
                    let (y2, w) = process_event(cx, &peers[p].y, &o, &hist, false, false, &mut st);
                    match y2 {
                        Some(y2) => {
                            peers[p].y = y2;
                            peers[p].known.insert(o.id);
                        }
                        None => {
                            let n = cx.out.cases.saturating_sub(1);
                            cx.out.oracle_fail(
                                n,
                                "decision-differs-between-replicas",
                                &format!("operation {} accepted by its author is answered {w} by another replica", o.id),
                                &hist,
                                &w,
                            );
                            return;
                        }
                    }
                }
            }
        }
        let me = p as u8;
        let y = &peers[p].y;
        let view = |g: u8| -> Vec<(Mem, Acc)> {
            let mut v: Vec<(Mem, Acc)> =
                y.root_members(Id(g)).iter().map(|(m, a)| (plain_member(m), plain_access(a))).collect();
            v.sort();
            v
        };
        let existing: Vec<u8> = created.iter().cloned().filter(|g| y.has_group(Id(*g))).collect();
        let r = rng.below(100);
        // ---- duplicate delivery -------------------------------------------------------------------
        if r < 3 && !peers[p].known.is_empty() {
            let k = *peers[p].known.iter().nth(rng.below(peers[p].known.len() as u64) as usize).unwrap();
            let o = ops.iter().find(|o| o.id == k).unwrap().clone();
            let _ = process_event(cx, &peers[p].y, &o, &hist, c33, false, &mut st);
            continue;
        }
        let mut deps = head_ids(y);
        if rng.chance(1, 10) && !peers[p].known.is_empty() {
            // stale dependencies: a single operation somewhere in the peer's past
            deps = vec![*peers[p].known.iter().nth(rng.below(peers[p].known.len() as u64) as usize).unwrap()];
        }
        let stale = deps != head_ids(y);
        let all_members = |rng: &mut Rng| -> Mem {
            if rng.chance(1, 5) && !created.is_empty() { (true, *rng.pick(&created)) } else { (false, rng.below(na as u64 + 1) as u8) }
        };
        let (group, act): (u8, Act) = if existing.is_empty() || (r < 20 && (created.len() as u8) < ng) || step == 0 {
            // ---- create a new group (rarely: an existing id again) -----------------------------------
            let g = if r < 4 && !created.is_empty() { *rng.pick(&created) } else { GROUP_BASE + created.len() as u8 };
            let mut init: Vec<(Mem, Acc)> = vec![];
            if rng.chance(9, 10) {
                init.push(((false, me), (3, None)));
            }
            for _ in 0..rng.below(4) {
                let m = if rng.chance(1, 2) && !existing.is_empty() {
                    let sub = *rng.pick(&existing);
                    if sub < g { (true, sub) } else { (false, rng.below(na as u64) as u8) }
                } else {
                    (false, rng.below(na as u64) as u8)
                };
                let a = rand_acc(&mut rng, unit, !m.0, &mut st);
                init.push((m, a));
            }
            (g, Act::Create(init))
        } else if r == 20 && rng.chance(1, 3) {
            // ---- operation on a group that does not exist at the dependencies (expect-panic path) ----
            (GROUP_BASE + 7, Act::Add((false, me), (1, None)))
        } else {
            let g = *rng.pick(&existing);
            let v = view(g);
            let i_manage = v.iter().any(|(m, a)| *m == (false, me) && a.0 == 3);
            let i_member = v.iter().any(|(m, _)| *m == (false, me));
            if r < 70 && i_manage && !v.is_empty() {
                // ---- intended-valid action by a manager (sometimes aimed at a former member) ---------
                let former: Vec<Mem> = y
                    .inner
                    .current_state()
                    .get(&Id(g))
                    .map(|s| plain_mstate(s).iter().filter(|(_, e)| e.0 % 2 == 0).map(|(m, _)| *m).collect())
                    .unwrap_or_default();
                if !former.is_empty() && rng.chance(1, 6) {
                    let m = *rng.pick(&former);
                    let a = rand_acc(&mut rng, unit, !m.0, &mut st);
                    match rng.below(3) {
                        0 => (g, Act::Remove(m)),
                        1 => (g, Act::Promote(m, a)),
                        _ => (g, Act::Add(m, a)),
                    }
                } else {
                match rng.below(8) {
                    0 | 1 | 2 => {
                        // add an individual or a nested group (only "downwards": smaller id into larger)
                        let subs: Vec<u8> = existing.iter().cloned().filter(|s| *s < g).collect();
                        let m = if rng.chance(1, 2) && !subs.is_empty() { (true, *rng.pick(&subs)) } else { (false, rng.below(na as u64) as u8) };
                        let a = rand_acc(&mut rng, unit, !m.0, &mut st);
                        (g, Act::Add(m, a))
                    }
                    3 | 4 => (g, Act::Remove(rng.pick(&v).0)),
                    5 => {
                        let m = rng.pick(&v).0;
                        let a = rand_acc(&mut rng, unit, !m.0, &mut st);
                        (g, Act::Promote(m, a))
                    }
                    _ => {
                        let m = rng.pick(&v).0;
                        let mut a = rand_acc(&mut rng, unit, false, &mut st);
                        if rng.chance(1, 2) {
                            a.0 = 0;
                        }
                        (g, Act::Demote(m, a))
                    }
                }
                }
            } else if (70..75).contains(&r) && i_member {
                (g, Act::Remove((false, me))) // leaving
            } else if (75..77).contains(&r) {
                // ---- cycle attempt: add an ancestor into its descendant (always rejected at these deps) --
                let anc: Vec<u8> = existing.iter().cloned().filter(|a| *a != g && reachable(&view, *a, g)).collect();
                if !stale && !anc.is_empty() {
                    (g, Act::Add((true, *rng.pick(&anc)), (1, None)))
                } else {
                    (g, Act::Add((true, g), (1, None))) // a group into itself
                }
            } else {
                // ---- anything by anyone: unauthorised / invalid / manager-group ------------------------
                let entries: Vec<Mem> = y
                    .inner
                    .current_state()
                    .get(&Id(g))
                    .map(|s| plain_mstate(s).keys().cloned().collect())
                    .unwrap_or_default();
                let m = if rng.chance(1, 2) && !entries.is_empty() { *rng.pick(&entries) } else { all_members(&mut rng) };
                let a = rand_acc(&mut rng, unit, true, &mut st);
                let act = match rng.below(4) {
                    0 => {
                        if m.0 && (a.0 != 3) && !(m.1 < g) {
                            // would be an upward nesting that might be accepted: keep nesting acyclic by construction
                            Act::Add((false, m.1 % (na + 1)), a)
                        } else {
                            Act::Add(m, a)
                        }
                    }
                    1 => Act::Remove(m),
                    2 => Act::Promote(m, a),
                    _ => Act::Demote(m, a),
                };
                (g, act)
            }
        };
        // upward nesting is only allowed to appear where it is certainly rejected
        if let Act::Add((true, sub), a) = &act {
            if *sub >= group && a.0 != 3 && (stale || !reachable(&view, *sub, group)) && *sub != group {
                continue;
            }
            if *sub == group && stale {
                continue;
            }
        }
        let pop = POp { id: next_id, author: me, deps, group, act };
        next_id += 1;
        let (y2, w) = process_event(cx, &peers[p].y, &pop, &hist, c33, false, &mut st);
        match y2 {
            Some(y2) => {
                if let Act::Create(_) = pop.act {
                    if !created.contains(&group) {
                        created.push(group);
                    }
                }
                if let Act::Add((true, _), _) = pop.act {
                    st.nested = true;
                }
                if let Act::Create(l) = &pop.act {
                    if l.iter().any(|(m, _)| m.0) {
                        st.nested = true;
                    }
                }
                peers[p].y = y2;
                peers[p].known.insert(pop.id);
                ops.push(pop);
            }
            None => {
                // a rejected operation must be rejected the same way by any replica that knows its dependencies
                let q = rng.below(na as u64) as usize;
                if q != p && w != "PANIC" && pop.deps.iter().all(|d| peers[q].known.contains(d)) {
                    let (y3, w2) = process_event(cx, &peers[q].y, &pop, &hist, c33, false, &mut st);
                    if y3.is_some() || w2 != w {
                        let n = cx.out.cases.saturating_sub(1);
                        cx.out.oracle_fail(
                            n,
                            "decision-differs-between-replicas",
                            &format!("operation {} answered {w} by its author's replica and {w2} by another", pop.id),
                            &hist,
                            &w2,
                        );
                    }
                }
            }
        }
    }

    let nt = st.rebuilds > 0 && st.rejected > 0 && st.nested;
    cx.out.count("histories");
    if nt {
        cx.out.count("histories non-trivial (rebuild + rejection + nesting)");
    }
    if st.conds {
        cx.out.count("histories with access conditions");
    }
    cx.out.count_n("operations accepted", ops.len() as u64);

    let Some(mut finals) = random_order_replicas(cx, &hist, &ops, &created, nt, c33, &mut rng, &mut st) else {
        return;
    };
    // peers that happen to know everything take part in the comparison as well
    for p in &peers {
        if p.known.len() == ops.len() {
            finals.push(p.y.clone());
        }
    }
    compare_and_tie(cx, &hist, &ops, &created, &finals, nt, c33);
}

/// Fresh replicas processing the accepted operations in random causal orders (replica 0: creation order),
/// each queried twice after every operation.
#[allow(clippy::too_many_arguments)]
fn random_order_replicas<C: CondT>(
    cx: &mut Ctx,
    hist: &str,
    ops: &[POp],
    created: &[u8],
    nt: bool,
    c33: bool,
    rng: &mut Rng,
    st: &mut HistStats,
) -> Option<Vec<Y<C>>> {
    // ---- fresh replicas, random causal orders ------------------------------------------------------
    let nrep = 4;
    let mut finals: Vec<Y<C>> = vec![];
    for rix in 0..nrep {
        let mut y = G::<C>::init();
        let mut done: BTreeSet<u32> = BTreeSet::new();
        let mut rest: Vec<POp> = ops.to_vec();
        while !rest.is_empty() {
            let ready: Vec<usize> =
                (0..rest.len()).filter(|i| rest[*i].deps.iter().all(|d| done.contains(d))).collect();
            let k = if rix == 0 { ready[0] } else { *rng.pick(&ready) };
            let o = rest.remove(k);
            let (y2, w) = process_event(cx, &y, &o, hist, c33 && rix < 2, nt, st);
            let Some(y2) = y2 else {
                let n = cx.out.cases.saturating_sub(1);
                cx.out.oracle_fail(
                    n,
                    "decision-differs-between-replicas",
                    &format!("operation {} accepted by its author is answered {w} by a replica processing in another causal order", o.id),
                    hist,
                    &w,
                );
                return None;
            };
            y = y2;
            done.insert(o.id);
            // repeated queries on one replica
            for g in created.iter().filter(|_| cx.prop == "C31") {
                let a = hc::catch(AssertUnwindSafe(|| (query(&y, *g), query(&y, *g))));
                match a {
                    Ok((a, b)) => {
                        if a != b {
                            let tag = if hazard(&y.inner.current_state(), Id(*g)) {
                                "nested-access-combination-order-dependent"
                            } else {
                                "query-not-repeatable"
                            };
                            let n = cx.out.cases.saturating_sub(1);
                            cx.out.oracle_fail(n, tag, &format!("two queries of group {g} on one replica differ: {a:?} vs {b:?}"), hist, "");
                        }
                    }
                    Err(e) => {
                        let n = cx.out.cases.saturating_sub(1);
                        cx.out.oracle_fail(n, "query-panic", &e, hist, "PANIC");
                        return None;
                    }
                }
            }
        }
        finals.push(y);
    }
    Some(finals)
}

/// C31 oracle (all replicas answer alike), C33 oracle (members introduced), and the `mrg` / `mem` model tie.
fn compare_and_tie<C: CondT>(cx: &mut Ctx, hist: &str, ops: &[POp], created: &[u8], finals: &[Y<C>], nt: bool, c33: bool) {
    // ---- C31: all replicas answer alike -------------------------------------------------------------
    for g in created.iter().filter(|_| cx.prop == "C31") {
        let answers: Vec<_> = finals.iter().map(|y| query(y, *g)).collect();
        let hz = finals.iter().any(|y| hazard(&y.inner.current_state(), Id(*g)));
        if hz {
            cx.out.count("groups with an order-dependence hazard (multi-path, no dominating access)");
        }
        for a in &answers[1..] {
            if *a != answers[0] {
                let tag = if a.2 != answers[0].2 {
                    "replicas-diverge-root-members"
                } else if hz {
                    "nested-access-combination-order-dependent"
                } else {
                    "replicas-diverge-members"
                };
                let n = cx.out.cases.saturating_sub(1);
                cx.out.oracle_fail(
                    n,
                    tag,
                    &format!("group {g}: replicas with the same operation set answer {:?} and {:?}", answers[0], a),
                    hist,
                    "",
                );
                break;
            }
        }
    }
    // ---- C33: nobody is a member unless an accepted create or add introduced them ------------------
    for y in finals.iter().take(if c33 { 2 } else { 0 }) {
        let cur = plain_gstates(&y.inner.current_state());
        for (g, ms) in &cur {
            for (m, e) in ms {
                if e.0 % 2 == 1 {
                    let introduced = ops.iter().any(|o| {
                        o.group == *g
                            && match &o.act {
                                Act::Create(l) => l.iter().any(|(x, _)| x == m),
                                Act::Add(x, _) => x == m,
                                _ => false,
                            }
                    });
                    if !introduced {
                        let n = cx.out.cases.saturating_sub(1);
                        cx.out.oracle_fail(n, "member-not-introduced", &format!("{} is an active member of group {g} without an accepted create/add naming it", show_mem(*m)), hist, "");
                    }
                }
            }
        }
    }
    // ---- model tie for the queries: `mrg` and `mem` lines from the replicas' own states ------------
    for y in finals.iter().take(2) {
        let mut hs: Vec<OpId> = y.inner.heads().into_iter().collect();
        hs.sort();
        let head_states: Vec<String> =
            hs.iter().filter_map(|h| y.inner.states.get(h)).map(|s| show_gstates(&plain_gstates(s))).collect();
        if head_states.len() != hs.len() {
            continue;
        }
        let joined = head_states.join(" ");
        let cur = y.inner.current_state();
        cx.out.case(&format!("mrg {joined}").trim_end().to_string(), &show_gstates(&plain_gstates(&cur)), nt && hs.len() > 1);
        cx.out.count(&format!("mrg: {} heads", hs.len().min(4)));
        for g in created {
            let (m, gr, r) = query(y, *g);
            let hz = hazard(&cur, Id(*g));
            let rs = show_mem_acc_list(&r, true);
            let ans = if hz {
                format!("m=H g=H r={rs}")
            } else {
                format!("m={} g={} r={rs}", show_id_acc_list(&m), show_id_acc_list(&gr))
            };
            cx.out.case(&format!("mem {g} {joined}").trim_end().to_string(), &ans, nt);
            cx.out.count(if hz { "mem: hazard" } else if gr.is_empty() { "mem: flat group" } else { "mem: nested group" });
        }
    }
}

/// All linear extensions of the operation DAG (depth-first, replica state cloned at every branching point),
/// up to `cap` complete orders; children visited in random order. Returns the final replicas.
#[allow(clippy::too_many_arguments)]
fn all_orders<C: CondT>(
    cx: &mut Ctx,
    hist: &str,
    y: &Y<C>,
    done: &mut BTreeSet<u32>,
    rest: &[POp],
    cap: usize,
    rng: &mut Rng,
    st: &mut HistStats,
    out: &mut Vec<Y<C>>,
) -> bool {
    if rest.is_empty() {
        out.push(y.clone());
        return true;
    }
    let mut ready: Vec<usize> = (0..rest.len()).filter(|i| rest[*i].deps.iter().all(|d| done.contains(d))).collect();
    rng.shuffle(&mut ready);
    for k in ready {
        if out.len() >= cap {
            break;
        }
        let o = rest[k].clone();
        let (y2, w) = process_event(cx, y, &o, hist, false, false, st);
        let Some(y2) = y2 else {
            let n = cx.out.cases.saturating_sub(1);
            cx.out.oracle_fail(
                n,
                "decision-differs-between-replicas",
                &format!("operation {} is answered {w} in one causal delivery order of a history whose creation order accepts it", o.id),
                hist,
                &w,
            );
            return false;
        };
        let mut r2: Vec<POp> = rest.to_vec();
        r2.remove(k);
        done.insert(o.id);
        let ok = all_orders(cx, hist, &y2, done, &r2, cap, rng, st, out);
        done.remove(&o.id);
        if !ok {
            return false;
        }
    }
    true
}

/// Targeted family (C31): one member is removed and re-added on one or two branches while a concurrent
/// branch changes that member's access level (so its access counter is ahead of the re-added entry's, whose
/// counter restarted at 0), optionally followed by a merge point and two concurrent access changes. Without
/// conditions and without nesting: any dependence of `state::merge` on argument order shows up as replicas
/// (or repeated queries of one replica) disagreeing. Every causal delivery order (up to a cap) is replayed on
/// its own replica and every replica is queried repeatedly.
fn targeted<C: CondT>(cx: &mut Ctx, sub: u64) {
    let hist = format!("hist T{} {}", if C::UNIT { "U" } else { "C" }, sub);
    let mut rng = Rng::new(sub ^ 0x7a11);
    let mut st = HistStats::default();
    let g = GROUP_BASE;
    let target: Mem = (false, 3);
    let mut ops: Vec<POp> = vec![];
    let mut id = 0u32;
    let mut mk = |author: u8, deps: Vec<u32>, act: Act, ops: &mut Vec<POp>| -> u32 {
        id += 1;
        ops.push(POp { id, author, deps, group: g, act });
        id
    };
    let start_level = rng.below(3) as u8;
    let root = mk(
        0,
        vec![],
        Act::Create(vec![((false, 0), (3, None)), ((false, 1), (3, None)), ((false, 2), (3, None)), (target, (start_level, None))]),
        &mut ops,
    );
    let mut heads: Vec<u32> = vec![];
    // branch A (manager 0): 1-3 access changes of the target
    let mut lvl = start_level;
    let mut last = root;
    for _ in 0..rng.range(1, 3) {
        let mut l2 = rng.below(3) as u8;
        if l2 == lvl {
            l2 = (l2 + 1) % 3;
        }
        last = mk(0, vec![last], if l2 > lvl { Act::Promote(target, (l2, None)) } else { Act::Demote(target, (l2, None)) }, &mut ops);
        lvl = l2;
    }
    heads.push(last);
    if rng.chance(2, 3) {
        // one remove (manager 1), then 2-3 *concurrent* re-adds with different levels on top of it: the re-added
        // entries all carry member counter 3 / access counter 0, the concurrent branch A an older membership
        // period with a higher access counter
        let r = mk(1, vec![root], Act::Remove(target), &mut ops);
        let n = rng.range(2, 3) as u8;
        let first = rng.below(3) as u8;
        for b in 0..n {
            let l = (first + b) % 3;
            let mut last = mk([1u8, 2, 0][b as usize], vec![r], Act::Add(target, (l, None)), &mut ops);
            if rng.chance(1, 4) {
                last = mk([1u8, 2, 0][b as usize], vec![last], Act::Promote(target, ((l + 1) % 3, None)), &mut ops);
            }
            heads.push(last);
        }
    } else {
        // branches B, C (managers 1, 2): each removes and re-adds with some level (+ sometimes one more change)
        let nb = rng.range(1, 2);
        for b in 0..nb {
            let m = 1 + b as u8;
            let r = mk(m, vec![root], Act::Remove(target), &mut ops);
            let l = rng.below(3) as u8;
            let mut last = mk(m, vec![r], Act::Add(target, (l, None)), &mut ops);
            if rng.chance(1, 3) {
                last = mk(m, vec![last], Act::Promote(target, ((l + 1) % 3, None)), &mut ops);
            }
            heads.push(last);
        }
    }
    // follow-up: a merge point and two concurrent access changes on top of it
    if rng.chance(1, 2) {
        heads.sort();
        let mp = mk(0, heads.clone(), Act::Add((false, 5), (1, None)), &mut ops);
        let l1 = rng.below(3) as u8;
        let l2 = (l1 + 1 + rng.below(2) as u8) % 3;
        mk(1, vec![mp], Act::Demote(target, (l1, None)), &mut ops);
        mk(2, vec![mp], Act::Promote(target, (l2, None)), &mut ops);
    }
    // creation order must be accepted throughout (otherwise the construction does not apply to this tree)
    let mut y = G::<C>::init();
    let mut accepted: Vec<POp> = vec![];
    for o in &ops {
        let (y2, _) = process_event(cx, &y, o, &hist, false, false, &mut st);
        match y2 {
            Some(y2) => {
                y = y2;
                accepted.push(o.clone());
            }
            None => {
                cx.out.count("targeted histories: an operation rejected in creation order (dependants dropped)");
                break;
            }
        }
    }
    let ops = accepted;
    cx.out.count("targeted histories (remove + re-add concurrent with access changes)");
    let mut finals: Vec<Y<C>> = vec![];
    let cap = if ops.len() <= 7 { 600 } else { 120 };
    if !all_orders(cx, &hist, &G::<C>::init(), &mut BTreeSet::new(), &ops, cap, &mut rng, &mut st, &mut finals) {
        return;
    }
    cx.out.count_n("targeted: causal delivery orders replayed", finals.len() as u64);
    // every replica is queried repeatedly (each query merges the heads in a fresh HashSet order)
    if cx.prop == "C31" {
        for y in finals.iter().take(40) {
            let first = query(y, g);
            for _ in 0..24 {
                let again = query(y, g);
                if again != first {
                    let n = cx.out.cases.saturating_sub(1);
                    cx.out.oracle_fail(
                        n,
                        "query-not-repeatable",
                        &format!("repeated queries of group {g} on one replica differ: {first:?} vs {again:?}"),
                        &hist,
                        "",
                    );
                    break;
                }
            }
        }
    }
    let c33 = cx.prop == "C33";
    compare_and_tie(cx, &hist, &ops, &[g], &finals, true, c33);
}

/// Targeted family (C33): a member is promoted to manager, then - after a fork - removed and re-added at a
/// lower level on one branch while a concurrent branch (forked before the removal) does something unrelated;
/// the tips are merged and the re-added member then acts as a manager (add / remove / promote). It must be
/// refused: at its dependencies it is an active member *below* Manage. Every decision is judged against the
/// reference state at the dependencies (refsem.rs), every delivery order replayed.
fn targeted33<C: CondT>(cx: &mut Ctx, sub: u64) {
    let hist = format!("hist A{} {}", if C::UNIT { "U" } else { "C" }, sub);
    let mut rng = Rng::new(sub ^ 0x33aa);
    let mut st = HistStats::default();
    let g = GROUP_BASE;
    let target: Mem = (false, 3);
    let mut ops: Vec<POp> = vec![];
    let mut id = 0u32;
    let mut mk = |author: u8, deps: Vec<u32>, act: Act, ops: &mut Vec<POp>| -> u32 {
        id += 1;
        ops.push(POp { id, author, deps, group: g, act });
        id
    };
    let root = mk(
        0,
        vec![],
        Act::Create(vec![((false, 0), (3, None)), ((false, 1), (3, None)), ((false, 2), (rng.below(3) as u8, None)), (target, (rng.below(3) as u8, None))]),
        &mut ops,
    );
    // access modified at least once before the fork, ending at Manage
    let mut last = root;
    if rng.chance(1, 2) {
        last = mk(1, vec![last], Act::Promote(target, (2, None)), &mut ops);
    }
    let fork = mk(0, vec![last], Act::Promote(target, (3, None)), &mut ops);
    // branch 1: remove, re-add at a lower level (sometimes by the other manager, sometimes the member left itself)
    let remover = if rng.chance(1, 4) { 3 } else { rng.below(2) as u8 };
    let r = mk(remover, vec![fork], Act::Remove(target), &mut ops);
    let low = rng.below(3) as u8;
    let mut tip1 = mk(rng.below(2) as u8, vec![r], Act::Add(target, (low, None)), &mut ops);
    if rng.chance(1, 4) {
        // a further change below Manage
        tip1 = mk(0, vec![tip1], Act::Promote(target, ((low + 1) % 3, None)), &mut ops);
    }
    // branch 2 (forked before the removal): something unrelated
    let other = if remover == 1 { 0 } else { 1 };
    let mut tip2 = match rng.below(3) {
        0 => mk(other, vec![fork], Act::Add((false, 5), (1, None)), &mut ops),
        1 => mk(other, vec![fork], Act::Demote((false, 2), (0, None)), &mut ops),
        _ => mk(other, vec![fork], Act::Add((false, 6), (2, None)), &mut ops),
    };
    if rng.chance(1, 3) {
        tip2 = mk(other, vec![tip2], Act::Add((false, 7), (0, None)), &mut ops);
    }
    // merge: an explicit operation on both tips, or the member's own operation depends on both tips
    let mut tips = vec![tip1, tip2];
    tips.sort();
    let deps = if rng.chance(1, 2) { vec![mk(0, tips.clone(), Act::Add((false, 8), (1, None)), &mut ops)] } else { tips };
    // the re-added member acts as a manager
    let act = match rng.below(4) {
        0 => Act::Add((false, 9), (1, None)),
        1 => Act::Remove((false, 1)),
        2 => Act::Promote((false, 2), (3, None)),
        _ => Act::Add((false, 9), (3, None)),
    };
    let x = mk(3, deps, act, &mut ops);
    if rng.chance(1, 2) {
        // and somebody builds on top of it
        mk(0, vec![x], Act::Add((false, 4), (1, None)), &mut ops);
    }
    let c33 = cx.prop == "C33";
    let mut y = G::<C>::init();
    let mut accepted: Vec<POp> = vec![];
    let mut dropped: BTreeSet<u32> = BTreeSet::new();
    for o in &ops {
        if o.deps.iter().any(|d| dropped.contains(d)) {
            dropped.insert(o.id);
            continue;
        }
        let (y2, _) = process_event(cx, &y, o, &hist, c33, true, &mut st);
        match y2 {
            Some(y2) => {
                y = y2;
                accepted.push(o.clone());
            }
            None => {
                dropped.insert(o.id);
            }
        }
    }
    cx.out.count("targeted histories (promoted, removed, re-added lower, stale concurrent branch, then acts as manager)");
    if dropped.contains(&x) {
        cx.out.count("targeted: the re-added member's manager action was refused");
    } else {
        cx.out.count("targeted: the re-added member's manager action was ACCEPTED");
    }
    let mut finals: Vec<Y<C>> = vec![];
    if !all_orders(cx, &hist, &G::<C>::init(), &mut BTreeSet::new(), &accepted, 60, &mut rng, &mut st, &mut finals) {
        return;
    }
    compare_and_tie(cx, &hist, &accepted, &[g], &finals, true, c33);
}

pub fn targeted33_history(cx: &mut Ctx, sub: u64, unit: bool) {
    if unit { targeted33::<()>(cx, sub) } else { targeted33::<Cond>(cx, sub) }
}

pub fn targeted_history(cx: &mut Ctx, sub: u64, unit: bool) {
    if unit { targeted::<()>(cx, sub) } else { targeted::<Cond>(cx, sub) }
}

pub fn history(cx: &mut Ctx, sub: u64, unit: bool) {
    if unit { run::<()>(cx, sub) } else { run::<Cond>(cx, sub) }
}

pub fn replay(cx: &mut Ctx, req: &str) {
    let t: Vec<&str> = req.split_whitespace().collect();
    if t[1] == "W" {
        witnesses(cx);
        return;
    }
    let sub: u64 = t[2].parse().expect("sub-seed");
    if t[1].starts_with('A') {
        targeted33_history(cx, sub, t[1] == "AU");
        return;
    }
    if t[1].starts_with('T') {
        targeted_history(cx, sub, t[1] == "TU");
        return;
    }
    history(cx, sub, t[1] == "U");
}

/// Witnesses that are part of every run.
pub fn witnesses(cx: &mut Ctx) {
    let mut st = HistStats::default();
    // (1) a member reachable through two sub-groups whose accesses are cyclic under `Access::<`:
    //     (Some 5, Read) and (Some 3, Write). 16 fresh replicas (each with its own hash seeds).
    let ops = vec![
        POp { id: 1, author: 0, deps: vec![], group: 11, act: Act::Create(vec![((false, 1), (3, None))]) },
        POp { id: 2, author: 0, deps: vec![1], group: 12, act: Act::Create(vec![((false, 1), (3, None))]) },
        POp {
            id: 3,
            author: 0,
            deps: vec![2],
            group: 10,
            act: Act::Create(vec![((false, 0), (3, None)), ((true, 11), (1, Some(5))), ((true, 12), (2, Some(3)))]),
        },
    ];
    let hist = "hist W 0";
    let mut answers = vec![];
    let mut last: Option<Y<Cond>> = None;
    for _ in 0..16 {
        let mut y = G::<Cond>::init();
        for o in &ops {
            let (y2, _) = process_event(cx, &y, o, hist, false, false, &mut st);
            y = y2.expect("witness operations are valid");
        }
        answers.push(query(&y, 10));
        last = Some(y);
    }
    let y = last.unwrap();
    let hz = hazard(&y.inner.current_state(), Id(10));
    let mut hs: Vec<OpId> = y.inner.heads().into_iter().collect();
    hs.sort();
    let joined: Vec<String> = hs.iter().map(|h| show_gstates(&plain_gstates(&y.inner.states[h]))).collect();
    let (_, _, r) = query(&y, 10);
    let n = cx.out.case(
        &format!("mem 10 {}", joined.join(" ")),
        &format!("m=H g=H r={}", show_mem_acc_list(&r, true)),
        true,
    );
    if cx.prop == "C31" {
        if !hz {
            cx.out.oracle_fail(n, "witness-lost", "the multi-path witness is no longer classified as a hazard", hist, "");
        }
        if let Some(a) = answers.iter().find(|a| **a != answers[0]) {
            cx.out.oracle_fail(
                n,
                "nested-access-combination-order-dependent",
                &format!("16 replicas with the same three operations: members(10) = {:?} on one, {:?} on another", answers[0].0, a.0),
                hist,
                "",
            );
        }
    }
    let _ = GroupMember::Individual(Id(0));
}
