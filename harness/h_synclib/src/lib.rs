//! Shared plumbing of the log-sync family harnesses (C19–C22).
//!
//! * `Universe`: real signed operation chains per (author, log) built from the repo's own types;
//!   replicas are SQLite stores holding fragments of these chains.
//! * `Interposed`: a `LogStore`/`TopicStore` wrapper around `SqliteStore` that can run a scripted
//!   mutation before, or fail, the k-th store call of a session and records every view returned.
//! * `ScriptSink` / `ScriptStream`: scripted transport ends.  Store, sink and stream append to one
//!   shared `IoLog`, so the log is the exact sequence of I/O outcomes the session consumed, in
//!   program order — the request line of the Lean model (`P2/Model/SyncProto.lean`).
//! * canonical text forms of messages, events, errors.
use std::collections::{BTreeMap, HashMap, VecDeque};
use std::pin::Pin;
use std::sync::atomic::{AtomicUsize, Ordering};
use std::sync::{Arc, Mutex};
use std::task::{Context, Poll};

use futures::{Sink, Stream};
use hc::Rng;
use p2panda_core::{Body, Hash, Header, Operation, SeqNum, SigningKey, Topic, VerifyingKey};
use p2panda_store::logs::LogStore;
use p2panda_store::operations::OperationStore;
use p2panda_store::topics::TopicStore;
use p2panda_store::{SqliteStore, Transaction};
use p2panda_sync::protocols::{LogSyncError, LogSyncEvent, LogSyncMessage, LogSyncMetrics};

pub type L = usize;
pub type E = usize;
pub type Op = Operation<E>;
pub type Msg = LogSyncMessage<L>;
pub type IoLog = Arc<Mutex<Vec<String>>>;

pub fn new_log() -> IoLog {
    Arc::new(Mutex::new(Vec::new()))
}

// ------------------------------------------------------------------------------------------
// Universe of operations
// ------------------------------------------------------------------------------------------

#[derive(Clone)]
pub struct OpData {
    pub uid: usize,
    pub a: usize,
    pub l: usize,
    pub s: u32,
    pub header: Header<E>,
    pub header_bytes: Vec<u8>,
    pub body: Body,
    pub hash: Hash,
    /// header bytes + payload bytes (what `get_log_size` sums and the metrics count)
    pub bytes: usize,
}

impl OpData {
    pub fn operation(&self) -> Op {
        Operation { hash: self.hash, header: self.header.clone(), body: Some(self.body.clone()) }
    }
    pub fn tok(&self) -> String {
        format!("{}/{}", self.uid, self.bytes)
    }
}

/// All operations that exist in a case: per (author index, log id) one hash-linked chain.
/// Author indices are assigned in `VerifyingKey` order, so index order = `BTreeMap` order.
pub struct Universe {
    pub keys: Vec<SigningKey>,
    pub chains: BTreeMap<(usize, usize), Vec<OpData>>,
    pub by_hash: HashMap<Hash, (usize, usize, u32)>,
    pub next_uid: usize,
}

impl Universe {
    pub fn new(rng: &mut Rng, n_authors: usize) -> Universe {
        let mut keys: Vec<SigningKey> = (0..n_authors)
            .map(|_| {
                let b = rng.bytes(32);
                let mut a = [0u8; 32];
                a.copy_from_slice(&b);
                SigningKey::from_bytes(&a)
            })
            .collect();
        keys.sort_by_key(|k| k.verifying_key());
        Universe { keys, chains: BTreeMap::new(), by_hash: HashMap::new(), next_uid: 1 }
    }
    pub fn vk(&self, a: usize) -> VerifyingKey {
        self.keys[a].verifying_key()
    }
    pub fn author_index(&self, vk: &VerifyingKey) -> Option<usize> {
        self.keys.iter().position(|k| &k.verifying_key() == vk)
    }
    /// Make sure chain (a, l) has at least `len` operations (seq 0..len).
    pub fn extend(&mut self, rng: &mut Rng, a: usize, l: usize, len: usize) {
        let chain = self.chains.entry((a, l)).or_default();
        while chain.len() < len {
            let s = chain.len() as u32;
            let backlink = chain.last().map(|o| o.hash);
            let blen = rng.range(1, 24) as usize;
            let body = Body::new(&rng.bytes(blen));
            let (header, header_bytes) =
                p2panda_sync::test_utils::create_operation(&self.keys[a], &body, s, backlink, l);
            let hash = header.hash();
            let bytes = header_bytes.len() + body.to_bytes().len();
            self.by_hash.insert(hash, (a, l, s));
            chain.push(OpData { uid: self.next_uid, a, l, s, header, header_bytes, body, hash, bytes });
            self.next_uid += 1;
        }
    }
    pub fn op(&self, a: usize, l: usize, s: u32) -> &OpData {
        &self.chains[&(a, l)][s as usize]
    }
    pub fn find(&self, hash: &Hash) -> Option<&OpData> {
        self.by_hash.get(hash).map(|(a, l, s)| self.op(*a, *l, *s))
    }
}

pub async fn insert_op(store: &SqliteStore, op: &OpData) {
    let permit = store.begin().await.expect("begin");
    <SqliteStore as OperationStore<Op, Hash>>::insert_operation(store, &op.hash, &op.operation(), &op.l)
        .await
        .expect("insert");
    store.commit(permit).await.expect("commit");
}

pub async fn delete_op(store: &SqliteStore, op: &OpData) {
    let permit = store.begin().await.expect("begin");
    <SqliteStore as OperationStore<Op, Hash>>::delete_operation(store, &op.hash).await.expect("delete");
    store.commit(permit).await.expect("commit");
}

pub async fn associate(store: &SqliteStore, topic: &Topic, vk: &VerifyingKey, l: &L) {
    let permit = store.begin().await.expect("begin");
    <SqliteStore as TopicStore<Topic, VerifyingKey, L>>::associate(store, topic, vk, l).await.expect("associate");
    store.commit(permit).await.expect("commit");
}

// ------------------------------------------------------------------------------------------
// Canonical text
// ------------------------------------------------------------------------------------------

pub fn heights_tok(uni: &Universe, h: &BTreeMap<VerifyingKey, BTreeMap<L, SeqNum>>) -> String {
    // authors outside the universe get indices 900+ in map order (only a scripted remote sends those)
    let mut parts = vec![];
    let mut unknown = 900;
    for (vk, logs) in h {
        let a = uni.author_index(vk).unwrap_or_else(|| {
            unknown += 1;
            unknown
        });
        let ls: Vec<String> = logs.iter().map(|(l, s)| format!("{l}.{s}")).collect();
        parts.push(format!("{a}:{}", ls.join(",")));
    }
    format!("[{}]", parts.join(";"))
}

pub fn logmap_tok(m: &BTreeMap<L, SeqNum>) -> String {
    let ls: Vec<String> = m.iter().map(|(l, s)| format!("{l}.{s}")).collect();
    ls.join(",")
}

/// Canonical token of a wire message. An `Operation` is named by the universe uid of its header
/// hash and must carry exactly the stored header bytes and body, otherwise it prints as `O!…`.
pub fn msg_tok(uni: &Universe, m: &Msg) -> String {
    match m {
        LogSyncMessage::Have(h) => format!("H{}", heights_tok(uni, h)),
        LogSyncMessage::PreSync { total_operations, total_bytes } => format!("P{total_operations}/{total_bytes}"),
        LogSyncMessage::Done => "D".to_string(),
        LogSyncMessage::Operation(hb, body) => {
            let blen = body.as_ref().map(|b| b.len()).unwrap_or(0);
            match p2panda_core::cbor::decode_cbor::<Header<E>, _>(&hb[..]) {
                Ok(header) => match uni.find(&header.hash()) {
                    Some(op) if &op.header_bytes == hb && body.as_deref() == Some(op.body.as_bytes()) => {
                        format!("O{}", op.tok())
                    }
                    Some(op) => format!("O!{}", op.uid),
                    None => format!("O?{}", hb.len() + blen),
                },
                Err(_) => format!("O#{}", hb.len() + blen),
            }
        }
    }
}

pub fn metrics_tok(m: &LogSyncMetrics) -> String {
    format!(
        "{},{},{},{},{},{},{},{}",
        m.outbound_operations,
        m.outbound_bytes,
        m.inbound_operations,
        m.inbound_bytes,
        m.sent_operations,
        m.sent_bytes,
        m.received_operations,
        m.received_bytes
    )
}

pub fn event_tok(uni: &Universe, e: &LogSyncEvent<E>) -> String {
    match e {
        LogSyncEvent::MetricsExchanged { metrics } => format!("M({})", metrics_tok(metrics)),
        LogSyncEvent::OperationReceived { operation, metrics } => {
            let id = match uni.find(&operation.hash) {
                Some(op) if op.header == operation.header && Some(&op.body) == operation.body.as_ref() => {
                    op.uid.to_string()
                }
                Some(op) => format!("!{}", op.uid),
                None => "?".to_string(),
            };
            format!("R{}({})", id, metrics_tok(metrics))
        }
    }
}

pub fn err_tok(e: &LogSyncError) -> &'static str {
    match e {
        LogSyncError::Decode(_) => "decode",
        LogSyncError::LogStore(_) => "logStore",
        LogSyncError::OperationStore(_) => "opStore",
        LogSyncError::BroadcastSend => "bcast",
        LogSyncError::MessageSink(_) => "sink",
        LogSyncError::MessageStream(_) => "stream",
        LogSyncError::UnexpectedStreamClosure => "closed",
        LogSyncError::UnexpectedMessage(_) => "unexpected",
    }
}

// ------------------------------------------------------------------------------------------
// Interposing store
// ------------------------------------------------------------------------------------------

#[derive(Clone, Debug)]
pub enum Mutation {
    /// `prune_entries(author, log, until)`: deletes seq < until
    Prune { a: usize, l: usize, until: u32 },
    /// delete every stored entry of the log
    DeleteLog { a: usize, l: usize },
    DeleteOne { a: usize, l: usize, s: u32 },
    /// insert universe operations seq `from..=to`
    Insert { a: usize, l: usize, from: u32, to: u32 },
}

impl Mutation {
    pub fn kind(&self) -> &'static str {
        match self {
            Mutation::Prune { .. } => "prune",
            Mutation::DeleteLog { .. } => "delete-log",
            Mutation::DeleteOne { .. } => "delete-one",
            Mutation::Insert { .. } => "insert",
        }
    }
}

pub struct Ctl {
    pub calls: usize,
    /// (before call index, mutation)
    pub plan: Vec<(usize, Mutation)>,
    pub fail_at: Option<usize>,
    pub log: IoLog,
    /// number of `get_log_size` views that were `Some((0, 0))` or `None`
    pub zero_sizes: usize,
    pub kinds: Vec<&'static str>,
    /// C22: log `T+` / `T-` for `resolve` and optionally make it fail
    pub log_resolve: bool,
    pub resolve_fails: bool,
}

#[derive(Debug, thiserror::Error)]
pub enum InterposedError {
    #[error("injected store failure")]
    Injected,
    #[error(transparent)]
    Sqlite(#[from] p2panda_store::sqlite::SqliteError),
}

#[derive(Clone)]
pub struct Interposed {
    pub inner: SqliteStore,
    pub uni: Arc<Universe>,
    pub ctl: Arc<Mutex<Ctl>>,
}

impl Interposed {
    pub fn new(inner: SqliteStore, uni: Arc<Universe>, log: IoLog, plan: Vec<(usize, Mutation)>, fail_at: Option<usize>) -> Self {
        Interposed {
            inner,
            uni,
            ctl: Arc::new(Mutex::new(Ctl { calls: 0, plan, fail_at, log, zero_sizes: 0, kinds: vec![], log_resolve: false, resolve_fails: false })),
        }
    }

    pub async fn apply(&self, m: &Mutation) {
        match m {
            Mutation::Prune { a, l, until } => {
                <SqliteStore as LogStore<Op, VerifyingKey, L, SeqNum, Hash>>::prune_entries(&self.inner, &self.uni.vk(*a), l, until)
                    .await
                    .expect("prune");
            }
            Mutation::DeleteLog { a, l } => {
                if let Some(chain) = self.uni.chains.get(&(*a, *l)) {
                    for op in chain {
                        delete_op(&self.inner, op).await;
                    }
                }
            }
            Mutation::DeleteOne { a, l, s } => {
                if let Some(op) = self.uni.chains.get(&(*a, *l)).and_then(|c| c.get(*s as usize)) {
                    delete_op(&self.inner, op).await;
                }
            }
            Mutation::Insert { a, l, from, to } => {
                if let Some(chain) = self.uni.chains.get(&(*a, *l)) {
                    for s in *from..=*to {
                        if let Some(op) = chain.get(s as usize) {
                            insert_op(&self.inner, op).await;
                        }
                    }
                }
            }
        }
    }

    /// Bookkeeping before a counted store call: run due mutations, decide injected failure.
    async fn before(&self, kind: &'static str) -> bool {
        let (n, due, fail) = {
            let mut c = self.ctl.lock().unwrap();
            let n = c.calls;
            c.calls += 1;
            c.kinds.push(kind);
            let due: Vec<Mutation> = c.plan.iter().filter(|(k, _)| *k == n).map(|(_, m)| m.clone()).collect();
            (n, due, c.fail_at == Some(n))
        };
        let _ = n;
        for m in &due {
            self.apply(m).await;
        }
        fail
    }

    fn push(&self, tok: String) {
        self.ctl.lock().unwrap().log.lock().unwrap().push(tok);
    }
}

impl LogStore<Op, VerifyingKey, L, SeqNum, Hash> for Interposed {
    type Error = InterposedError;

    async fn get_latest_entry(&self, author: &VerifyingKey, log_id: &L) -> Result<Option<Op>, Self::Error> {
        Ok(<SqliteStore as LogStore<Op, VerifyingKey, L, SeqNum, Hash>>::get_latest_entry(&self.inner, author, log_id).await?)
    }

    async fn get_latest_entry_tx(&self, author: &VerifyingKey, log_id: &L) -> Result<Option<Op>, Self::Error> {
        Ok(<SqliteStore as LogStore<Op, VerifyingKey, L, SeqNum, Hash>>::get_latest_entry_tx(&self.inner, author, log_id).await?)
    }

    async fn get_log_heights(&self, author: &VerifyingKey, logs: &[L]) -> Result<Option<BTreeMap<L, SeqNum>>, Self::Error> {
        if self.before("heights").await {
            self.push("HE".into());
            return Err(InterposedError::Injected);
        }
        let r = <SqliteStore as LogStore<Op, VerifyingKey, L, SeqNum, Hash>>::get_log_heights(&self.inner, author, logs).await?;
        self.push(match &r {
            None => "H-".to_string(),
            Some(m) => format!("H{}", logmap_tok(m)),
        });
        Ok(r)
    }

    async fn get_log_size(
        &self,
        author: &VerifyingKey,
        log_id: &L,
        after: Option<SeqNum>,
        until: Option<SeqNum>,
    ) -> Result<Option<(u32, u32)>, Self::Error> {
        if self.before("size").await {
            self.push("ZE".into());
            return Err(InterposedError::Injected);
        }
        let r = <SqliteStore as LogStore<Op, VerifyingKey, L, SeqNum, Hash>>::get_log_size(&self.inner, author, log_id, after, until).await?;
        if matches!(r, None | Some((_, 0))) {
            self.ctl.lock().unwrap().zero_sizes += 1;
        }
        self.push(match &r {
            None => "Z-".to_string(),
            Some((n, b)) => format!("Z{n}/{b}"),
        });
        Ok(r)
    }

    async fn get_log_entries(
        &self,
        author: &VerifyingKey,
        log_id: &L,
        after: Option<SeqNum>,
        until: Option<SeqNum>,
    ) -> Result<Option<Vec<(Op, Vec<u8>)>>, Self::Error> {
        if self.before("entries").await {
            self.push("GE".into());
            return Err(InterposedError::Injected);
        }
        let r = <SqliteStore as LogStore<Op, VerifyingKey, L, SeqNum, Hash>>::get_log_entries(&self.inner, author, log_id, after, until).await?;
        self.push(match &r {
            None => "G-".to_string(),
            Some(v) if v.is_empty() => "G.".to_string(),
            Some(v) => {
                let toks: Vec<String> = v
                    .iter()
                    .map(|(op, hb)| match self.uni.find(&op.hash) {
                        Some(d) => d.tok(),
                        None => format!("999999/{}", hb.len() + op.body.as_ref().map(|b| b.to_bytes().len()).unwrap_or(0)),
                    })
                    .collect();
                format!("G{}", toks.join(","))
            }
        });
        Ok(r)
    }

    async fn prune_entries(&self, author: &VerifyingKey, log_id: &L, until: &SeqNum) -> Result<u64, Self::Error> {
        Ok(<SqliteStore as LogStore<Op, VerifyingKey, L, SeqNum, Hash>>::prune_entries(&self.inner, author, log_id, until).await?)
    }
}

impl TopicStore<Topic, VerifyingKey, L> for Interposed {
    type Error = InterposedError;

    async fn associate(&self, topic: &Topic, author: &VerifyingKey, data_id: &L) -> Result<bool, Self::Error> {
        Ok(<SqliteStore as TopicStore<Topic, VerifyingKey, L>>::associate(&self.inner, topic, author, data_id).await?)
    }
    async fn remove(&self, topic: &Topic, author: &VerifyingKey, data_id: &L) -> Result<bool, Self::Error> {
        Ok(<SqliteStore as TopicStore<Topic, VerifyingKey, L>>::remove(&self.inner, topic, author, data_id).await?)
    }
    async fn resolve(&self, topic: &Topic) -> Result<BTreeMap<VerifyingKey, Vec<L>>, Self::Error> {
        let (log, fails) = {
            let c = self.ctl.lock().unwrap();
            (c.log_resolve, c.resolve_fails)
        };
        if fails {
            if log {
                self.push("T-".into());
            }
            return Err(InterposedError::Injected);
        }
        let r = <SqliteStore as TopicStore<Topic, VerifyingKey, L>>::resolve(&self.inner, topic).await?;
        if log {
            self.push("T+".into());
        }
        Ok(r)
    }
}

// ------------------------------------------------------------------------------------------
// Scripted transport
// ------------------------------------------------------------------------------------------

/// A sink that accepts every message immediately, except that the `fail_at`-th `send` fails in
/// `poll_ready` (the message is not accepted). Logs `S+` / `S-`.
pub struct ScriptSink<M> {
    pub log: IoLog,
    pub sent: Arc<Mutex<Vec<M>>>,
    pub count: Arc<AtomicUsize>,
    pub fail_at: Option<usize>,
    pub close_fails: bool,
    pub closed: Arc<AtomicUsize>,
}

impl<M> ScriptSink<M> {
    pub fn new(log: IoLog, fail_at: Option<usize>) -> Self {
        ScriptSink {
            log,
            sent: Arc::new(Mutex::new(vec![])),
            count: Arc::new(AtomicUsize::new(0)),
            fail_at,
            close_fails: false,
            closed: Arc::new(AtomicUsize::new(0)),
        }
    }
}

impl<M> Unpin for ScriptSink<M> {}

impl<M> Sink<M> for ScriptSink<M> {
    type Error = String;
    fn poll_ready(self: Pin<&mut Self>, _cx: &mut Context<'_>) -> Poll<Result<(), String>> {
        if Some(self.count.load(Ordering::SeqCst)) == self.fail_at {
            self.log.lock().unwrap().push("S-".into());
            // fail only once: a later attempt (there is none in the protocols) would succeed
            self.get_mut().fail_at = None;
            return Poll::Ready(Err("scripted sink failure".into()));
        }
        Poll::Ready(Ok(()))
    }
    fn start_send(self: Pin<&mut Self>, item: M) -> Result<(), String> {
        self.log.lock().unwrap().push("S+".into());
        self.sent.lock().unwrap().push(item);
        self.count.fetch_add(1, Ordering::SeqCst);
        Ok(())
    }
    fn poll_flush(self: Pin<&mut Self>, _cx: &mut Context<'_>) -> Poll<Result<(), String>> {
        Poll::Ready(Ok(()))
    }
    fn poll_close(self: Pin<&mut Self>, _cx: &mut Context<'_>) -> Poll<Result<(), String>> {
        self.closed.fetch_add(1, Ordering::SeqCst);
        if self.close_fails {
            self.log.lock().unwrap().push("C-".into());
            Poll::Ready(Err("scripted close failure".into()))
        } else {
            self.log.lock().unwrap().push("C+".into());
            Poll::Ready(Ok(()))
        }
    }
}

#[derive(Clone, Debug)]
pub enum Item<M> {
    Msg(M),
    Err,
}

#[derive(Clone, Copy, PartialEq, Debug)]
pub enum Gate {
    /// ready as soon as polled
    Eager,
    /// delivered only once the session polled twice without any sink progress in between
    Lazy,
}

#[derive(Clone, Copy, PartialEq, Debug)]
pub enum End {
    Closed,
    /// never resolves (no waker kept): the session blocks for good
    Hang,
}

/// A stream that yields a fixed script of items. Logs one `R…` token per yielded item (through
/// `tok`); after the script: `End::Closed` yields `None` (logged once as `Rc`).
pub struct ScriptStream<M> {
    pub log: IoLog,
    pub items: VecDeque<(Item<M>, Gate)>,
    pub sink_count: Arc<AtomicUsize>,
    pub last_seen: Option<usize>,
    pub end: End,
    pub tok: Box<dyn Fn(&M) -> String>,
    pub closed_polls: usize,
    /// polls after the end of a closed stream before the harness gives up on the session (a
    /// session that keeps polling a closed stream without an await point would never return)
    pub spin_limit: usize,
    pub spun: Arc<AtomicUsize>,
    /// notified when the session is parked for spinning (so the harness need not wait for a deadline)
    pub spin_notify: Arc<tokio::sync::Notify>,
}

impl<M> ScriptStream<M> {
    pub fn new(log: IoLog, items: Vec<(Item<M>, Gate)>, sink_count: Arc<AtomicUsize>, end: End, tok: Box<dyn Fn(&M) -> String>) -> Self {
        ScriptStream {
            log,
            items: items.into(),
            sink_count,
            last_seen: None,
            end,
            tok,
            closed_polls: 0,
            spin_limit: 2000,
            spun: Arc::new(AtomicUsize::new(0)),
            spin_notify: Arc::new(tokio::sync::Notify::new()),
        }
    }
}

impl<M> Unpin for ScriptStream<M> {}

impl<M> Stream for ScriptStream<M> {
    type Item = Result<M, String>;
    fn poll_next(self: Pin<&mut Self>, cx: &mut Context<'_>) -> Poll<Option<Self::Item>> {
        let this = self.get_mut();
        let Some((_, gate)) = this.items.front() else {
            match this.end {
                End::Hang => return Poll::Pending,
                End::Closed => {
                    this.closed_polls += 1;
                    if this.closed_polls == 1 {
                        this.log.lock().unwrap().push("Rc".into());
                    }
                    if this.closed_polls > this.spin_limit {
                        // the session is spinning on a closed stream: park it for good
                        this.spun.store(1, Ordering::SeqCst);
                        this.spin_notify.notify_one();
                        return Poll::Pending;
                    }
                    return Poll::Ready(None);
                }
            }
        };
        if *gate == Gate::Lazy {
            let cur = this.sink_count.load(Ordering::SeqCst);
            if this.last_seen != Some(cur) {
                this.last_seen = Some(cur);
                cx.waker().wake_by_ref();
                return Poll::Pending;
            }
        }
        this.last_seen = None;
        let (item, _) = this.items.pop_front().unwrap();
        match item {
            Item::Msg(m) => {
                let t = (this.tok)(&m);
                this.log.lock().unwrap().push(t);
                Poll::Ready(Some(Ok(m)))
            }
            Item::Err => {
                this.log.lock().unwrap().push("Re".into());
                Poll::Ready(Some(Err("scripted stream error".into())))
            }
        }
    }
}

/// `R…` token of a message arriving on the stream (request side of the model).
pub fn recv_tok(uni: &Universe, m: &Msg) -> String {
    match m {
        LogSyncMessage::Have(h) => format!("Rh{}", heights_tok(uni, h)),
        LogSyncMessage::PreSync { total_operations, total_bytes } => format!("Rp{total_operations}/{total_bytes}"),
        LogSyncMessage::Done => "Rd".to_string(),
        LogSyncMessage::Operation(hb, body) => {
            let blen = body.as_ref().map(|b| b.len()).unwrap_or(0);
            match p2panda_core::cbor::decode_cbor::<Header<E>, _>(&hb[..]) {
                Ok(header) => match uni.find(&header.hash()) {
                    Some(op) => format!("Ro{}/{}", op.uid, hb.len() + blen),
                    None => format!("Ro999998/{}", hb.len() + blen),
                },
                Err(_) => format!("Rg{}", hb.len() + blen),
            }
        }
    }
}

pub fn op_msg(op: &OpData) -> Msg {
    LogSyncMessage::Operation(op.header_bytes.clone(), Some(op.body.to_bytes()))
}

/// Scope text `a:l,l;a:l` (author indices ascending = map order).
pub fn scope_tok(scope: &BTreeMap<usize, Vec<usize>>) -> String {
    let parts: Vec<String> = scope
        .iter()
        .map(|(a, ls)| format!("{a}:{}", ls.iter().map(|l| l.to_string()).collect::<Vec<_>>().join(",")))
        .collect();
    if parts.is_empty() { "-".into() } else { parts.join(";") }
}

pub fn topic_metrics_tok(m: &p2panda_sync::protocols::Metrics) -> String {
    format!(
        "{},{},{},{},{},{},{},{}",
        m.outbound_sync_operations,
        m.outbound_sync_bytes,
        m.inbound_sync_operations,
        m.inbound_sync_bytes,
        m.sent_sync_operations,
        m.sent_sync_bytes,
        m.received_sync_operations,
        m.received_sync_bytes
    )
}

/// Oracle of C20 on a sink transcript (token form): `H (D | P O* D)`, prefix-closed.
/// Returns `None` when fine, else a tag describing the kind of failure.
pub fn shape_violation(toks: &[String]) -> Option<&'static str> {
    let kind = |t: &String| t.chars().next().unwrap_or('?');
    let dones = toks.iter().filter(|t| kind(t) == 'D').count();
    if dones > 1 {
        return Some("done-twice");
    }
    if let Some(p) = toks.iter().position(|t| kind(t) == 'D') {
        if p + 1 != toks.len() {
            return Some("message-after-done");
        }
    }
    for (i, t) in toks.iter().enumerate() {
        let ok = match (i, kind(t)) {
            (0, 'H') => true,
            (1, 'D') | (1, 'P') => true,
            (i, 'O') if i >= 2 => kind(&toks[1]) == 'P',
            (i, 'D') if i >= 2 => kind(&toks[1]) == 'P',
            _ => false,
        };
        if !ok {
            return Some("bad-order");
        }
    }
    None
}

// ------------------------------------------------------------------------------------------
// Watchdog: a session that loops without ever reaching an await point cannot be timed out from
// inside the runtime. The harness announces each case; if a case makes no progress for
// `limit` wall-clock seconds the watchdog thread records an oracle failure for it and ends the
// process (the check then reports the case as a violation with its replay id).
// ------------------------------------------------------------------------------------------

pub struct Watchdog {
    state: Arc<Mutex<(u64, String)>>,
}

impl Watchdog {
    pub fn start(out_dir: std::path::PathBuf, limit: std::time::Duration, tag: &'static str) -> Watchdog {
        let state = Arc::new(Mutex::new((0u64, String::new())));
        let st = state.clone();
        std::thread::spawn(move || {
            let mut last = (0u64, std::time::Instant::now());
            loop {
                std::thread::sleep(std::time::Duration::from_millis(500));
                let (n, req) = st.lock().unwrap().clone();
                if n != last.0 {
                    last = (n, std::time::Instant::now());
                    continue;
                }
                if !req.is_empty() && last.1.elapsed() > limit {
                    use std::io::Write;
                    let v = hc::serde_json::json!({"case": n, "tag": tag,
                        "what": format!("case made no progress for {:?}: the session never returned and never reached an await point the harness controls", limit),
                        "request": req, "impl": "NO-RETURN"});
                    if let Ok(mut f) = std::fs::OpenOptions::new().append(true).create(true).open(out_dir.join("oracle.jsonl")) {
                        let _ = writeln!(f, "{}", v);
                    }
                    eprintln!("watchdog: {tag}: {req}");
                    std::process::exit(0);
                }
            }
        });
        Watchdog { state }
    }
    /// Announce the case about to run (its replay id as a request line prefix).
    pub fn begin(&self, request_id: &str) {
        let mut s = self.state.lock().unwrap();
        s.0 += 1;
        s.1 = request_id.to_string();
    }
    pub fn idle(&self) {
        let mut s = self.state.lock().unwrap();
        s.0 += 1;
        s.1.clear();
    }
}

// ------------------------------------------------------------------------------------------
// In-memory LogStore (no SQLite worker threads: every store future is immediately ready, so a
// paused current-thread runtime sees exactly the channel interactions of the sessions).
// Same observable semantics as the SQLite queries: heights `None` when no row, size always
// `Some`, entries `None` when empty, ascending by seq.
// ------------------------------------------------------------------------------------------

#[derive(Clone, Default)]
pub struct MemStore {
    pub rows: Arc<Mutex<BTreeMap<(VerifyingKey, L), BTreeMap<SeqNum, (Op, Vec<u8>, usize)>>>>,
    /// what `TopicStore::resolve` answers (any topic)
    pub scope: Arc<Mutex<BTreeMap<VerifyingKey, Vec<L>>>>,
}

impl MemStore {
    pub fn insert(&self, op: &OpData) {
        self.rows
            .lock()
            .unwrap()
            .entry((op.header.verifying_key, op.l))
            .or_default()
            .insert(op.s, (op.operation(), op.header_bytes.clone(), op.bytes));
    }
}

#[derive(Debug, thiserror::Error)]
#[error("mem store error")]
pub struct MemStoreError;

impl LogStore<Op, VerifyingKey, L, SeqNum, Hash> for MemStore {
    type Error = MemStoreError;

    async fn get_latest_entry(&self, author: &VerifyingKey, log_id: &L) -> Result<Option<Op>, Self::Error> {
        Ok(self.rows.lock().unwrap().get(&(*author, *log_id)).and_then(|m| m.values().next_back().map(|v| v.0.clone())))
    }
    async fn get_latest_entry_tx(&self, author: &VerifyingKey, log_id: &L) -> Result<Option<Op>, Self::Error> {
        self.get_latest_entry(author, log_id).await
    }
    async fn get_log_heights(&self, author: &VerifyingKey, logs: &[L]) -> Result<Option<BTreeMap<L, SeqNum>>, Self::Error> {
        let rows = self.rows.lock().unwrap();
        let mut out = BTreeMap::new();
        for l in logs {
            if let Some(m) = rows.get(&(*author, *l)) {
                if let Some(s) = m.keys().next_back() {
                    out.insert(*l, *s);
                }
            }
        }
        Ok(if out.is_empty() { None } else { Some(out) })
    }
    async fn get_log_size(&self, author: &VerifyingKey, log_id: &L, after: Option<SeqNum>, until: Option<SeqNum>) -> Result<Option<(u32, u32)>, Self::Error> {
        let rows = self.rows.lock().unwrap();
        let mut n = 0u32;
        let mut b = 0u32;
        if let Some(m) = rows.get(&(*author, *log_id)) {
            for (s, v) in m {
                if after.map(|a| *s > a).unwrap_or(true) && until.map(|u| *s <= u).unwrap_or(true) {
                    n += 1;
                    b += v.2 as u32;
                }
            }
        }
        Ok(Some((n, b)))
    }
    async fn get_log_entries(&self, author: &VerifyingKey, log_id: &L, after: Option<SeqNum>, until: Option<SeqNum>) -> Result<Option<Vec<(Op, Vec<u8>)>>, Self::Error> {
        let rows = self.rows.lock().unwrap();
        let mut out = vec![];
        if let Some(m) = rows.get(&(*author, *log_id)) {
            for (s, v) in m {
                if after.map(|a| *s > a).unwrap_or(true) && until.map(|u| *s <= u).unwrap_or(true) {
                    out.push((v.0.clone(), v.1.clone()));
                }
            }
        }
        Ok(if out.is_empty() { None } else { Some(out) })
    }
    async fn prune_entries(&self, author: &VerifyingKey, log_id: &L, until: &SeqNum) -> Result<u64, Self::Error> {
        let mut rows = self.rows.lock().unwrap();
        let mut n = 0;
        if let Some(m) = rows.get_mut(&(*author, *log_id)) {
            let before = m.len();
            m.retain(|s, _| s >= until);
            n = (before - m.len()) as u64;
        }
        Ok(n)
    }
}

impl TopicStore<Topic, VerifyingKey, L> for MemStore {
    type Error = MemStoreError;
    async fn associate(&self, _topic: &Topic, author: &VerifyingKey, data_id: &L) -> Result<bool, Self::Error> {
        self.scope.lock().unwrap().entry(*author).or_default().push(*data_id);
        Ok(true)
    }
    async fn remove(&self, _topic: &Topic, _author: &VerifyingKey, _data_id: &L) -> Result<bool, Self::Error> {
        Ok(false)
    }
    async fn resolve(&self, _topic: &Topic) -> Result<BTreeMap<VerifyingKey, Vec<L>>, Self::Error> {
        Ok(self.scope.lock().unwrap().clone())
    }
}
