#!/bin/sh
# tools/runall.sh <seed> [tier] : run every claimed check once, sequentially; log rc and wall time.
cd "$(dirname "$0")/.."
SEED=${1:-1}; TIER=${2:-quick}
LOG=work/runall-$TIER-$SEED.log
mkdir -p work; : > $LOG
for id in $(python3 -c "import json; print(' '.join(c['property_id'] for c in json.load(open('MANIFEST.json'))['checks']))"); do
  t0=$(date +%s)
  VERIF_SEED=$SEED ./check $id --tier $TIER > work/runall-$id.out 2>&1; rc=$?
  t1=$(date +%s)
  echo "$id rc=$rc wall=$((t1-t0))s $(grep -c '^VIOLATION' work/runall-$id.out) violations $(grep -c '^KNOWN-FINDING' work/runall-$id.out) known" >> $LOG
done
echo DONE >> $LOG
