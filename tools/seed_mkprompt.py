import json,sys
sid=sys.argv[1]
pid=sid.split('-')[0]
prev=''
if '-' in sid:
    import os, glob
    prevs=[]
    for mp in sorted(glob.glob(f'/verif/seeded/{pid}*/meta.json')):
        m=json.load(open(mp))
        if m.get('property')==pid: prevs.append(m.get('summary','')[:600])
    if prevs:
        prev="\nOther testers have ALREADY submitted the following changes for this property; yours must be substantially different (a different function, mechanism or kind of trigger), not a variation of them:\n"+"".join(f"  - {x}\n" for x in prevs)
props={json.loads(l)['id']:json.loads(l) for l in open('/verif/properties.jsonl')}
p=props[pid]
wt=f"/tmp/seed/{sid}"
txt=f"""You are helping to evaluate how well a (separately built, not visible to you) verification tool detects regressions. Your job is to write a realistic, subtle BUG into a Rust repository.

The repository is p2panda (modular Rust p2p toolkit). A scratch git worktree of it has been created for you at {wt} (detached at the repository's current HEAD). Work ONLY inside {wt} and /tmp/seed/out/{sid}/. Do NOT read, list or write anything under /verif, and do not modify /repo itself (reading /repo/target is not needed either). Build with a private target dir: always run cargo as `CARGO_NET_OFFLINE=true CARGO_TARGET_DIR={wt}/target cargo ... --offline` from inside {wt} (the sandbox has no network; all dependencies are cached; the first build compiles third-party crates and takes a few minutes; {wt}/target is git-ignored; do NOT share a target dir with other worktrees — cargo would mix up their artifacts).

Here is a semantic property the repository is supposed to satisfy (this text is all you know about what the tool checks):

{json.dumps({k:p[k] for k in ('id','title','statement','quantifier','why_tests_cant','anchors')}, indent=1)}

{prev}
Task: produce ONE change to the repository's non-test source code that BREAKS this property while the code still compiles and ALL existing tests of the affected crate(s) still pass, together with a demonstration (a new test or a small program) that FAILS with your change and PASSES without it.

Requirements on the change:
- It must be the kind of mistake a developer could plausibly make in a refactoring or "optimisation" (an off-by-one, a reordered step, a dropped or weakened check, a wrong comparison, a stale value, a missing update at one of two cooperating sites ...), small (a few lines), and it must not touch test code, Cargo manifests, or anything guarded by `cfg(p2panda_p2panda_verif)` (leave such items alone; they are instrumentation hooks).
- It must need something SPECIFIC to manifest — a particular interleaving, a crash or fault at a particular point, a multi-step sequence of operations, an unusual input or boundary value, or two cooperating sites that each look fine alone — NOT something ordinary use or the existing tests would expose at once.
- It must really violate the property as stated (observable through the public behaviour the property talks about), not merely change internals.

Deliverables, all under /tmp/seed/out/{sid}/ :
- patch.diff : `git -C {wt} diff` of the source change ONLY (no demo code in it); it must apply with `git apply` to a clean checkout of HEAD.
- demo.diff (a patch adding a new test file or test function / example program) or demo.rs plus exact instructions; the demo must be runnable with one cargo command.
- meta.json : {{"property": "{pid}", "summary": "...what the change does...", "needs": "...what is needed for it to manifest...", "files": [...], "demo_cmd": "...", "existing_tests_cmd": "...", "ran": ["...commands you ran and their outcome..."]}}

Before you finish you MUST have verified yourself, in the worktree: (1) with the change, the code compiles and the affected crates' existing tests pass (`cargo test -p <crate> --offline`, note pre-existing failures if any: `p2panda-net::supervisor::tests::nested_supervisors` and `restart_after_failure` fail on the unmodified tree and can be ignored); (2) the demo FAILS with the change; (3) the demo PASSES with the change reverted (`git stash` / `git apply -R` inside the worktree only). Leave the worktree with patch applied and demo present. Keep your final message short: what you changed, what it needs to manifest, and the three verification results.
"""
print(txt)
