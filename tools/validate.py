#!/usr/bin/env python3
"""Validate MANIFEST.json and every evidence file against the interface schemas (needs jsonschema: run with python3-vt)."""
import glob, json, sys
import jsonschema
ms = json.load(open('/root/.vp/MANIFEST.schema.json')); es = json.load(open('/root/.vp/EVIDENCE.schema.json'))
man = json.load(open('/verif/MANIFEST.json')); jsonschema.validate(man, ms)
bad = 0
for c in man['checks']:
    p = c['evidence_file']
    try:
        ev = json.load(open(p)); jsonschema.validate(ev, es)
        cov = ev['coverage']
        problems = []
        if ev['level'] != c['level_claimed']['category']: problems.append('level mismatch')
        if ev.get('violations'): problems.append(f"violations={ev['violations']}")
        if ev['level'] == 'proof' and cov.get('obligations') != cov.get('discharged'): problems.append('obligations != discharged')
        if cov.get('distinct_nontrivial', 0) < 2: problems.append('distinct_nontrivial < 2')
        if problems: bad += 1; print(c['property_id'], problems)
    except Exception as e:
        bad += 1; print(c['property_id'], 'INVALID', str(e)[:200])
print('checks:', len(man['checks']), 'problems:', bad)
sys.exit(1 if bad else 0)
