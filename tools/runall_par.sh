#!/bin/sh
# tools/runall_par.sh <seed> <tier> <jobs> : run every claimed check once, <jobs> at a time; log rc and wall time.
cd "$(dirname "$0")/.."
SEED=${1:-1}; TIER=${2:-thorough}; JOBS=${3:-2}
LOG=work/runall-$TIER-$SEED.log
mkdir -p work; : > $LOG
python3 -c "import json; print('\n'.join(c['property_id'] for c in json.load(open('MANIFEST.json'))['checks']))" | \
xargs -P $JOBS -I{} sh -c 't0=$(date +%s); VERIF_SEED='$SEED' ./check {} --tier '$TIER' > work/runall-'$TIER'-{}.out 2>&1; rc=$?; t1=$(date +%s); echo "{} rc=$rc wall=$((t1-t0))s $(grep -c "^VIOLATION" work/runall-'$TIER'-{}.out) violations" >> '$LOG
echo DONE >> $LOG
